//! Shared helper for the native test blueprints of vh_sys: package definitions with several
//! blueprints (fields, KV collections, events, inner/outer), SBOR payloads of an exact encoded
//! length, ledger construction and error projection (RuntimeError -> coarse class name).
//! Nothing in here decides a property.
use radix_blueprint_schema_init::*;
use radix_engine::system::system_modules::limits::TransactionLimitsError;
use sbor::basic_well_known_types::ANY_TYPE;
use scrypto_test::prelude::*;

/// One native code id for every test package of this binary; `Sys` dispatches on the export name
/// `<Blueprint>::<function>`.
pub const CODE_ID: u64 = 7700;

pub struct BpSpec {
    pub name: &'static str,
    pub inner_of: Option<&'static str>,
    pub fields: usize,
    pub kv_collections: usize,
    /// after the KV collections: index collections, then sorted-index collections
    pub index_collections: usize,
    pub sorted_collections: usize,
    /// the blueprint declares the event type `Ev` (a one-field struct holding bytes)
    pub event_e: bool,
    /// (function name, has receiver)
    pub functions: Vec<(&'static str, bool)>,
    pub transient: bool,
}
impl BpSpec {
    pub fn new(name: &'static str) -> Self {
        BpSpec { name, inner_of: None, fields: 0, kv_collections: 0, index_collections: 0, sorted_collections: 0, event_e: false, functions: vec![], transient: false }
    }
}

pub fn export_name(bp: &str, f: &str) -> String {
    format!("{}::{}", bp, f)
}

pub fn package_definition(bps: &[BpSpec]) -> PackageDefinition {
    let any = || TypeRef::Static(LocalTypeId::WellKnown(ANY_TYPE));
    let mut blueprints = index_map_new();
    for b in bps {
        let functions = b
            .functions
            .iter()
            .map(|(f, recv)| {
                (
                    f.to_string(),
                    FunctionSchemaInit {
                        receiver: if *recv { Some(ReceiverInfo::normal_ref_mut()) } else { None },
                        input: any(),
                        output: any(),
                        export: export_name(b.name, f),
                    },
                )
            })
            .collect();
        let (e_type, e_schema) = generate_full_schema_from_single_type::<Ev, ScryptoCustomSchema>();
        let def = BlueprintDefinitionInit {
            blueprint_type: match b.inner_of {
                Some(o) => BlueprintType::Inner { outer_blueprint: o.to_string() },
                None => BlueprintType::Outer,
            },
            is_transient: b.transient,
            schema: BlueprintSchemaInit {
                schema: if b.event_e { e_schema } else { Default::default() },
                state: BlueprintStateSchemaInit {
                    fields: (0..b.fields).map(|_| FieldSchema::static_field(LocalTypeId::WellKnown(ANY_TYPE))).collect(),
                    collections: (0..b.kv_collections)
                        .map(|_| {
                            BlueprintCollectionSchema::KeyValueStore(BlueprintKeyValueSchema {
                                key: any(),
                                value: any(),
                                allow_ownership: true,
                            })
                        })
                        .chain((0..b.index_collections).map(|_| {
                            BlueprintCollectionSchema::Index(BlueprintKeyValueSchema { key: any(), value: any(), allow_ownership: false })
                        }))
                        .chain((0..b.sorted_collections).map(|_| {
                            BlueprintCollectionSchema::SortedIndex(BlueprintKeyValueSchema { key: any(), value: any(), allow_ownership: false })
                        }))
                        .collect(),
                },
                events: BlueprintEventSchemaInit {
                    event_schema: if b.event_e { indexmap!("Ev".to_string() => TypeRef::Static(e_type)) } else { indexmap!() },
                },
                functions: BlueprintFunctionsSchemaInit { functions },
                ..Default::default()
            },
            ..Default::default()
        };
        blueprints.insert(b.name.to_string(), def);
    }
    PackageDefinition { blueprints }
}

/// the event type of the test blueprints
#[derive(ScryptoSbor, Debug)]
pub struct Ev {
    pub d: Vec<u8>,
}

/// SBOR encoding of an event `Ev` whose TOTAL encoded length is exactly `total` (>= 6)
pub fn event_payload(total: usize, fill: u8) -> Option<Vec<u8>> {
    // 0x5c 0x21 0x01 + (0x20 0x07 len bytes) = 2 more than the bare byte array
    let inner = bytes_payload(total.checked_sub(2)?, fill)?;
    let d: Vec<u8> = scrypto_decode(&inner).unwrap();
    let v = scrypto_encode(&Ev { d }).unwrap();
    assert_eq!(v.len(), total);
    Some(v)
}

/// SBOR encoding of a byte array whose TOTAL encoded length is exactly `total`
/// (prefix 0x5c, kind 0x20, element kind 0x07, LEB128 length, bytes). None when no byte array
/// has that encoded length (total < 4, or the length prefix grows exactly there).
pub fn bytes_payload(total: usize, fill: u8) -> Option<Vec<u8>> {
    if total < 4 {
        return None;
    }
    for lenbytes in 1..=4usize {
        if total < 3 + lenbytes {
            break;
        }
        let n = total - 3 - lenbytes;
        let need = if n < 1 << 7 { 1 } else if n < 1 << 14 { 2 } else if n < 1 << 21 { 3 } else { 4 };
        if need == lenbytes {
            let v = scrypto_encode(&vec![fill; n]).unwrap();
            assert_eq!(v.len(), total);
            return Some(v);
        }
    }
    None
}

pub fn limits_class(e: &TransactionLimitsError) -> &'static str {
    match e {
        TransactionLimitsError::MaxSubstateKeySizeExceeded(..) => "KeySize",
        TransactionLimitsError::MaxSubstateSizeExceeded(..) => "ValueSize",
        TransactionLimitsError::MaxInvokePayloadSizeExceeded(..) => "PayloadSize",
        TransactionLimitsError::MaxCallDepthLimitReached => "CallDepth",
        TransactionLimitsError::TrackSubstateSizeExceeded { .. } => "TrackBytes",
        TransactionLimitsError::HeapSubstateSizeExceeded { .. } => "HeapBytes",
        TransactionLimitsError::LogSizeTooLarge { .. } => "LogSize",
        TransactionLimitsError::EventSizeTooLarge { .. } => "EventSize",
        TransactionLimitsError::PanicMessageSizeTooLarge { .. } => "PanicSize",
        TransactionLimitsError::TooManyLogs => "TooManyLogs",
        TransactionLimitsError::TooManyEvents => "TooManyEvents",
    }
}

/// Coarse error class (enum variant names, never messages).
pub fn error_class(e: &RuntimeError) -> String {
    match e {
        RuntimeError::SystemModuleError(SystemModuleError::TransactionLimitsError(l)) => limits_class(l).to_string(),
        RuntimeError::SystemModuleError(SystemModuleError::CostingError(c)) => {
            format!("Costing:{}", variant_name(&format!("{:?}", c)))
        }
        RuntimeError::SystemModuleError(SystemModuleError::AuthError(c)) => {
            format!("Auth:{}", variant_name(&format!("{:?}", c)))
        }
        RuntimeError::SystemModuleError(SystemModuleError::EventError(c)) => {
            format!("Event:{}", variant_name(&format!("{:?}", c)))
        }
        RuntimeError::ApplicationError(ApplicationError::PanicMessage(_)) => "AppPanic".to_string(),
        RuntimeError::ApplicationError(a) => format!("App:{}", variant_name(&format!("{:?}", a))),
        RuntimeError::SystemError(s) => format!("System:{}", variant_name(&format!("{:?}", s))),
        RuntimeError::SystemUpstreamError(s) => format!("Upstream:{}", variant_name(&format!("{:?}", s))),
        RuntimeError::KernelError(k) => match k {
            KernelError::CallFrameError(c) => format!("CallFrame:{}", nested_variant(&format!("{:?}", c))),
            _ => format!("Kernel:{}", variant_name(&format!("{:?}", k))),
        },
        RuntimeError::VmError(v) => format!("Vm:{}", variant_name(&format!("{:?}", v))),
        RuntimeError::FinalizationCostingError(c) => format!("FinalizationCosting:{}", variant_name(&format!("{:?}", c))),
    }
}

/// leading identifier of a Debug rendering = the enum variant name
pub fn variant_name(dbg: &str) -> String {
    dbg.chars().take_while(|c| c.is_alphanumeric() || *c == '_').collect()
}
/// `Outer(Inner(..))` -> `Outer.Inner`
pub fn nested_variant(dbg: &str) -> String {
    let a = variant_name(dbg);
    let rest = &dbg[a.len()..];
    if let Some(r) = rest.strip_prefix('(') {
        let b = variant_name(r);
        if !b.is_empty() {
            let rest2 = &r[b.len()..];
            if let Some(r2) = rest2.strip_prefix('(') {
                let c = variant_name(r2);
                if !c.is_empty() && c.chars().next().unwrap().is_uppercase() {
                    return format!("{}.{}.{}", a, b, c);
                }
            }
            if b.chars().next().unwrap().is_uppercase() {
                return format!("{}.{}", a, b);
            }
        }
    }
    a
}

/// (committed?, success?, error class) of a receipt
pub fn receipt_outcome(r: &TransactionReceipt) -> (String, String) {
    match &r.result {
        TransactionResult::Commit(c) => match &c.outcome {
            TransactionOutcome::Success(_) => ("success".into(), "".into()),
            TransactionOutcome::Failure(e) => ("failure".into(), error_class(e)),
        },
        TransactionResult::Reject(rj) => ("reject".into(), variant_name(&format!("{:?}", rj.reason))),
        TransactionResult::Abort(a) => ("abort".into(), variant_name(&format!("{:?}", a.reason))),
    }
}

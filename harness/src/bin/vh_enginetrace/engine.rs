//! Projection of the sink's events.  The harness decides nothing: it ranks the substates a
//! transaction mentions (by node id, partition number, database sort key - so that inside a
//! partition the integer order is the database order), numbers the values it sees (by hash) and
//! writes one abstract event per recorded operation.
//!
//! Track trace (per Track instance = per executed transaction):
//!   init {n, part: [pid of loc], node: [nid of loc], np, pnode: [nid of pid]}
//!   create {node, subs: [[loc, val]]} | get {loc, ret} | set {loc, v} | remove {loc, ret}
//!   scan {pid, limit, ret: [loc]} | drain {pid, limit, ret: [[loc, val]]} | sorted {pid, limit, ret: [[loc, val]]}
//!   force {loc} | delpart {pid} | transient {loc} | revert | finalize
//!   updates {upd: [[loc, val]], reset: [pid]}         (val 0 = none / delete)
//!   end {outcome}
//! Locks trace (per lock table = per kernel):
//!   new | lock {n, k, ro, ret: handle or -1} | unlock {h} | end {outcome}
use radix_engine::track::verif_sink::{self, VerifEvent};
use radix_substate_store_interface::db_key_mapper::{DatabaseKeyMapper, SpreadPrefixKeyMapper};
use radix_transaction_scenarios::executor::*;
use rand::prelude::*;
use scrypto_test::prelude::*;
use serde_json::{json, Value};
use std::collections::{BTreeMap, BTreeSet, HashMap};
use std::io::Write;
use vh::util::*;
use vh::Args;

type Loc = (NodeId, u8, Vec<u8>); // node, partition, database sort key

fn loc_of(n: &NodeId, p: &PartitionNumber, k: &SubstateKey) -> Loc {
    (*n, p.0, SpreadPrefixKeyMapper::to_db_sort_key(k).0)
}

const LIMIT_CAP: u64 = 1_000_000; // TLC integers are 32-bit; u32::MAX limits mean "all"

pub struct Sinks {
    track: std::io::BufWriter<std::fs::File>,
    locks: std::io::BufWriter<std::fs::File>,
    pub txs: u64,
    pub track_events: u64,
    pub lock_events: u64,
    pub ops: BTreeMap<String, u64>,
    pub outcomes: BTreeMap<String, u64>,
    pub max_locs: usize,
}

impl Sinks {
    fn new(args: &Args) -> Self {
        let t = args.str("track", "/dev/null");
        let l = args.str("locks", "/dev/null");
        Sinks {
            track: std::io::BufWriter::new(std::fs::File::create(t).expect("track file")),
            locks: std::io::BufWriter::new(std::fs::File::create(l).expect("locks file")),
            txs: 0,
            track_events: 0,
            lock_events: 0,
            ops: BTreeMap::new(),
            outcomes: BTreeMap::new(),
            max_locs: 0,
        }
    }
    fn t(&mut self, v: Value) {
        serde_json::to_writer(&mut self.track, &v).unwrap();
        self.track.write_all(b"\n").unwrap();
        self.track_events += 1;
    }
    fn l(&mut self, v: Value) {
        serde_json::to_writer(&mut self.locks, &v).unwrap();
        self.locks.write_all(b"\n").unwrap();
        self.lock_events += 1;
    }
    fn finish(&mut self) {
        self.track.flush().unwrap();
        self.locks.flush().unwrap();
    }

    /// One executed transaction: all events the sink collected while it ran.
    pub fn transaction(&mut self, events: Vec<VerifEvent>, outcome: &str, label: &str) {
        self.txs += 1;
        *self.outcomes.entry(outcome.to_string()).or_default() += 1;
        let (tr, lk): (Vec<VerifEvent>, Vec<VerifEvent>) =
            events.into_iter().partition(|e| !matches!(e.op, "locks_new" | "lock" | "unlock"));
        for e in tr.iter().chain(lk.iter()) {
            *self.ops.entry(e.op.to_string()).or_default() += 1;
        }
        // ---- track: one segment per Track instance
        let mut segs: Vec<Vec<&VerifEvent>> = vec![];
        for e in tr.iter() {
            if e.op == "track_new" || segs.is_empty() {
                segs.push(vec![]);
            }
            if e.op != "track_new" {
                segs.last_mut().unwrap().push(e);
            }
        }
        for seg in segs.iter() {
            if !seg.is_empty() {
                self.track_segment(seg, label);
            }
        }
        self.t(json!({"a": "end", "outcome": outcome}));
        // ---- locks
        self.locks_segment(&lk, label);
        self.l(json!({"a": "end", "outcome": outcome}));
    }

    fn track_segment(&mut self, seg: &[&VerifEvent], label: &str) {
        // every substate and partition mentioned
        let mut locs: BTreeSet<Loc> = BTreeSet::new();
        let mut parts: BTreeSet<(NodeId, u8)> = BTreeSet::new();
        for e in seg.iter() {
            if let (Some(n), Some(p)) = (&e.node, &e.partition) {
                parts.insert((*n, p.0));
                if let Some(k) = &e.key {
                    locs.insert(loc_of(n, p, k));
                }
            }
            for (n, p, k, _) in e.entries.iter() {
                parts.insert((*n, p.0));
                if let Some(k) = k {
                    locs.insert(loc_of(n, p, k));
                }
            }
        }
        let nodes: BTreeSet<NodeId> = parts.iter().map(|(n, _)| *n).collect();
        let nid: HashMap<NodeId, usize> = nodes.iter().enumerate().map(|(i, n)| (*n, i + 1)).collect();
        // partition ids start at 4: Track.tla reserves 1..3 for its own small model (3 = the new node)
        let pid: HashMap<(NodeId, u8), usize> = parts.iter().enumerate().map(|(i, p)| (*p, i + 4)).collect();
        let lid: HashMap<Loc, usize> = locs.iter().enumerate().map(|(i, l)| (l.clone(), i + 1)).collect();
        self.max_locs = self.max_locs.max(locs.len());
        let mut vals: HashMap<Hash, usize> = HashMap::new();
        let mut vid = |h: &Option<Hash>| -> usize {
            match h {
                None => 0,
                Some(h) => {
                    let n = vals.len() + 1;
                    *vals.entry(*h).or_insert(n)
                }
            }
        };
        let l_of = |n: &NodeId, p: &PartitionNumber, k: &SubstateKey| lid[&loc_of(n, p, k)];
        self.t(json!({"a": "init", "label": label, "n": locs.len(),
            "part": locs.iter().map(|l| pid[&(l.0, l.1)]).collect::<Vec<_>>(),
            "node": locs.iter().map(|l| nid[&l.0]).collect::<Vec<_>>(),
            "np": parts.len(),
            "pnode": parts.iter().map(|p| nid[&p.0]).collect::<Vec<_>>()}));
        for e in seg.iter() {
            let loc = match (&e.node, &e.partition, &e.key) {
                (Some(n), Some(p), Some(k)) => l_of(n, p, k),
                _ => 0,
            };
            let part = match (&e.node, &e.partition) {
                (Some(n), Some(p)) => pid[&(*n, p.0)],
                _ => 0,
            };
            let limit = e.num.unwrap_or(0).min(LIMIT_CAP);
            let pairs = |vid: &mut dyn FnMut(&Option<Hash>) -> usize| -> Vec<Value> {
                e.entries.iter().filter(|x| x.2.is_some()).map(|(n, p, k, h)| json!([l_of(n, p, k.as_ref().unwrap()), vid(h)])).collect()
            };
            let ev = match e.op {
                "create_node" => json!({"a": "create", "node": nid[&e.node.unwrap()], "subs": pairs(&mut vid)}),
                "get" => json!({"a": "get", "loc": loc, "ret": vid(&e.entries[0].3)}),
                "set" => json!({"a": "set", "loc": loc, "v": vid(&e.entries[0].3)}),
                "remove" => json!({"a": "remove", "loc": loc, "ret": vid(&e.entries[0].3)}),
                "scan_keys" => json!({"a": "scan", "pid": part, "limit": limit,
                    "ret": e.entries.iter().map(|(n, p, k, _)| l_of(n, p, k.as_ref().unwrap())).collect::<Vec<_>>()}),
                "drain" => json!({"a": "drain", "pid": part, "limit": limit, "ret": pairs(&mut vid)}),
                "scan_sorted" => json!({"a": "sorted", "pid": part, "limit": limit, "ret": pairs(&mut vid)}),
                "force_write" => json!({"a": "force", "loc": loc}),
                "delete_partition" => json!({"a": "delpart", "pid": part}),
                "transient" => json!({"a": "transient", "loc": loc}),
                "revert" => json!({"a": "revert"}),
                "finalize" => json!({"a": "finalize"}),
                "state_updates" => json!({"a": "updates", "upd": pairs(&mut vid),
                    "reset": e.entries.iter().filter(|x| x.2.is_none()).map(|(n, p, _, _)| pid[&(*n, p.0)]).collect::<Vec<_>>()}),
                other => panic!("unexpected track event {}", other),
            };
            self.t(ev);
        }
    }

    fn locks_segment(&mut self, lk: &[VerifEvent], _label: &str) {
        let mut locs: BTreeSet<Loc> = BTreeSet::new();
        for e in lk.iter() {
            if let (Some(n), Some(p), Some(k)) = (&e.node, &e.partition, &e.key) {
                locs.insert(loc_of(n, p, k));
            }
        }
        let nodes: BTreeSet<NodeId> = locs.iter().map(|l| l.0).collect();
        let nid: HashMap<NodeId, usize> = nodes.iter().enumerate().map(|(i, n)| (*n, i + 1)).collect();
        let lid: HashMap<Loc, usize> = locs.iter().enumerate().map(|(i, l)| (l.clone(), i + 1)).collect();
        for e in lk.iter() {
            let ev = match e.op {
                "locks_new" => json!({"a": "new"}),
                "lock" => {
                    let (n, p, k) = (e.node.as_ref().unwrap(), e.partition.as_ref().unwrap(), e.key.as_ref().unwrap());
                    json!({"a": "lock", "n": nid[n], "k": lid[&loc_of(n, p, k)], "ro": e.flag,
                           "ret": e.num.map(|h| h as i64).unwrap_or(-1)})
                }
                "unlock" => json!({"a": "unlock", "h": e.num.unwrap()}),
                other => panic!("unexpected lock event {}", other),
            };
            self.l(ev);
        }
    }
}

fn outcome_of(receipt: &TransactionReceipt) -> &'static str {
    match &receipt.result {
        TransactionResult::Commit(c) => match &c.outcome {
            TransactionOutcome::Success(_) => "success",
            TransactionOutcome::Failure(_) => "failure",
        },
        TransactionResult::Reject(_) => "reject",
        TransactionResult::Abort(_) => "abort",
    }
}

pub fn run(mode: &str, args: &Args) {
    let mut sinks = Sinks::new(args);
    match mode {
        "scenarios" => scenarios(args, &mut sinks),
        "ledger" => ledger(args, &mut sinks),
        _ => panic!("mode"),
    }
    sinks.finish();
    let mut out = Out::new();
    out.emit(&json!({"done": sinks.txs, "track_events": sinks.track_events, "lock_events": sinks.lock_events,
                     "ops": sinks.ops, "outcomes": sinks.outcomes, "max_locs": sinks.max_locs}));
    out.flush();
}

// ---------------------------------------------------------------------------------------------
// workload 1: the repository's transaction scenarios, every protocol version

struct Hooks<'a> {
    sinks: &'a mut Sinks,
    limit: u64,
    every: u64,
    seen: u64,
    scenarios: Vec<String>,
}
impl<'a> ScenarioExecutionHooks<InMemorySubstateDatabase> for Hooks<'a> {
    fn on_scenario_started(&mut self, event: OnScenarioStarted<InMemorySubstateDatabase>) {
        self.scenarios.push(event.metadata.logical_name.to_string());
        // whatever ran since the last transaction (protocol updates, flashes) is not a scenario transaction
        verif_sink::install();
    }
    fn on_transaction_executed(&mut self, event: OnScenarioTransactionExecuted<InMemorySubstateDatabase>) {
        let events = verif_sink::take();
        verif_sink::install();
        self.seen += 1;
        if (self.limit == 0 || self.sinks.txs < self.limit) && (self.seen % self.every == 0) {
            let label = format!("{}:{}", event.metadata.logical_name, event.transaction.logical_name);
            self.sinks.transaction(events, outcome_of(event.receipt), &label);
        }
    }
}

fn scenarios(args: &Args, sinks: &mut Sinks) {
    let db = InMemorySubstateDatabase::standard();
    let mut hooks = Hooks { sinks, limit: args.u64("limit", 0), every: args.u64("every", 1).max(1), seen: 0, scenarios: vec![] };
    let mut ex = TransactionScenarioExecutor::new(db, NetworkDefinition::simulator());
    let names = args.str("names", "");
    let skip = args.str("skip", "");
    if names.is_empty() && skip.is_empty() {
        // the repository's own full run: every protocol update, every scenario at the first version it is valid for
        ex.execute_every_protocol_update_and_scenario(&mut hooks).expect("scenarios");
    } else {
        // a chosen set of scenarios, run after all protocol updates (names=a,b or all but skip=a,b)
        let set: BTreeSet<String> = if !names.is_empty() {
            names.split(',').map(|x| x.to_string()).collect()
        } else {
            let sk: BTreeSet<&str> = skip.split(',').collect();
            radix_transaction_scenarios::scenarios::all_scenarios_iter()
                .map(|c| c.metadata().logical_name.to_string())
                .filter(|n| !sk.contains(n.as_str()))
                .collect()
        };
        ex.execute_protocol_updates_and_scenarios(
            |builder| builder.from_bootstrap_to_latest(),
            ScenarioTrigger::AfterCompletionOfAllProtocolUpdates,
            ScenarioFilter::SpecificScenariosByName(set),
            &mut hooks,
            &mut (),
            &VmModules::default(),
        )
        .expect("scenarios");
    }
    verif_sink::take();
}

// ---------------------------------------------------------------------------------------------
// workload 2: seeded LedgerSimulator history: transfers (succeeding and failing), non-fungible
// mints / withdrawals by amount (index drains), pools, staking, rounds and epoch changes (sorted
// index scans, transaction-tracker partition deletion)

struct L {
    ledger: DefaultLedgerSimulator,
    accts: Vec<ComponentAddress>,
    fung: ResourceAddress,
    nf: ResourceAddress,
    pool: ComponentAddress,
    pool_unit: ResourceAddress,
    validator: ComponentAddress,
    next_nf: u64,
    burst_done: bool,
}

fn exec(l: &mut L, sinks: &mut Sinks, label: &str, m: TransactionManifestV1) -> TransactionReceipt {
    verif_sink::install();
    let r = catch(|| l.ledger.execute_manifest(m, vec![]));
    let events = verif_sink::take();
    match r {
        Ok(receipt) => {
            sinks.transaction(events, outcome_of(&receipt), label);
            receipt
        }
        Err(e) => {
            sinks.transaction(events, "panic", label);
            panic!("engine panicked in {}: {}", label, e)
        }
    }
}

fn ledger(args: &Args, sinks: &mut Sinks) {
    use radix_engine::blueprints::pool::v1::constants::*;
    let seed = args.u64("seed", 1);
    let len = args.u64("len", 100);
    let burst = args.u64("burst", 1) == 1;
    let mut rng = StdRng::seed_from_u64(seed);
    let mut ledger = LedgerSimulatorBuilder::new().build();
    let accts: Vec<ComponentAddress> = (0..3).map(|_| ledger.new_account_advanced(OwnerRole::Fixed(rule!(allow_all)))).collect();
    let fung = ledger.create_freely_mintable_and_burnable_fungible_resource(OwnerRole::None, Some(dec!(100000)), 18, accts[0]);
    let nf = ledger.create_freely_mintable_and_burnable_non_fungible_resource(
        OwnerRole::None,
        NonFungibleIdType::Integer,
        Some((1..=12u64).map(|i| (NonFungibleLocalId::integer(i), EmptyNonFungibleData {})).collect::<Vec<_>>()),
        accts[0],
    );
    let (pool, pool_unit) = {
        let m = ManifestBuilder::new()
            .lock_fee_from_faucet()
            .call_function(
                POOL_PACKAGE,
                TWO_RESOURCE_POOL_BLUEPRINT_IDENT,
                TWO_RESOURCE_POOL_INSTANTIATE_IDENT,
                TwoResourcePoolInstantiateManifestInput {
                    resource_addresses: (fung.into(), XRD.into()),
                    pool_manager_rule: rule!(allow_all).into(),
                    owner_role: OwnerRole::None.into(),
                    address_reservation: None,
                },
            )
            .build();
        let r = ledger.execute_manifest(m, vec![]);
        let c = r.expect_commit_success();
        (c.new_component_addresses()[0], c.new_resource_addresses()[0])
    };
    let validator = {
        let st = ledger.get_consensus_manager_state();
        let _ = st;
        let comps = ledger.find_all_components();
        *comps.iter().find(|c| c.as_node_id().entity_type() == Some(EntityType::GlobalValidator)).expect("genesis validator")
    };
    let mut l = L { ledger, accts, fung, nf, pool, pool_unit, validator, next_nf: 100, burst_done: false };
    // ---- boundary block (always, before anything random): scan limits at count-1 / count / count+1 / 0 / 1 over a
    // vault that is untouched, has entries removed and re-inserted, removed, freshly minted, or was created in the
    // same transaction; withdrawals by amount of 1 / count-1 / count / count+1; a failing transaction after a
    // fee lock on an account vault (force write + revert); a jump of 100 epochs (tracker partition deletion)
    {
        let (a0, a1) = (l.accts[0], l.accts[1]);
        let nf = l.nf;
        let ids_call = |bld: ManifestBuilder, acct: ComponentAddress, limit: u32| {
            bld.call_method(acct, ACCOUNT_NON_FUNGIBLE_LOCAL_IDS_IDENT, AccountNonFungibleLocalIdsInput { resource_address: nf, limit })
        };
        let count = |l: &mut L, acct: ComponentAddress| -> u32 { l.ledger.get_component_balance(acct, nf).to_string().parse::<u32>().unwrap() };
        let k = count(&mut l, a0);
        for limit in [0u32, 1, k - 1, k, k + 1] {
            let m = ids_call(ManifestBuilder::new().lock_fee_from_faucet(), a0, limit).build();
            exec(&mut l, sinks, &format!("edge:list-untouched:{}", limit), m);
        }
        for limit in [1u32, k - 1, k, k + 1] {
            let m = ids_call(ManifestBuilder::new().lock_fee_from_faucet().withdraw_from_account(a0, nf, dec!(2)).try_deposit_entire_worktop_or_abort(a0, None), a0, limit).build();
            exec(&mut l, sinks, &format!("edge:list-after-out-and-in:{}", limit), m);
        }
        for d in [-1i64, 0, 1] {
            let k = count(&mut l, a0);
            let limit = ((k as i64 - 1) + d) as u32;
            let m = ids_call(ManifestBuilder::new().lock_fee_from_faucet().withdraw_from_account(a0, nf, dec!(1)).try_deposit_entire_worktop_or_abort(a1, None), a0, limit).build();
            exec(&mut l, sinks, &format!("edge:list-after-removal:{}", d), m);
        }
        for d in [-1i64, 0, 1] {
            let k = count(&mut l, a0);
            let ids: Vec<(NonFungibleLocalId, EmptyNonFungibleData)> = (0..2).map(|_| { l.next_nf += 1; (NonFungibleLocalId::integer(l.next_nf), EmptyNonFungibleData {}) }).collect();
            let limit = ((k as i64 + 2) + d) as u32;
            let m = ids_call(ManifestBuilder::new().lock_fee_from_faucet().mint_non_fungible(nf, ids).try_deposit_entire_worktop_or_abort(a0, None), a0, limit).build();
            exec(&mut l, sinks, &format!("edge:list-after-mint:{}", d), m);
        }
        // a vault created in the same transaction (new node: the database is not consulted)
        for limit in [1u32, 2, 3] {
            let fresh = l.ledger.new_account_advanced(OwnerRole::Fixed(rule!(allow_all)));
            let m = ids_call(ManifestBuilder::new().lock_fee_from_faucet().withdraw_from_account(a0, nf, dec!(2)).try_deposit_entire_worktop_or_abort(fresh, None), fresh, limit).build();
            exec(&mut l, sinks, &format!("edge:list-new-vault:{}", limit), m);
        }
        // withdrawals by amount (index drain) of 1 / count-1 / count / count+1, moving the ids to and fro
        let (mut from, mut to) = (a1, a0);
        for which in ["one", "all-but-one", "all", "one-too-many"] {
            let k = count(&mut l, from);
            let n = match which { "one" => 1, "all-but-one" => k.saturating_sub(1).max(1), "all" => k, _ => k + 1 };
            let m = ManifestBuilder::new().lock_fee_from_faucet().withdraw_from_account(from, nf, Decimal::from(n)).try_deposit_entire_worktop_or_abort(to, None).build();
            exec(&mut l, sinks, &format!("edge:drain:{}", which), m);
            std::mem::swap(&mut from, &mut to);
        }
        // fee locked on the account's own vault, then the transaction fails: only the force-written vault survives
        let m = ManifestBuilder::new().lock_fee(a0, dec!(20)).withdraw_from_account(a0, XRD, dec!(100000000)).try_deposit_entire_worktop_or_abort(a1, None).build();
        exec(&mut l, sinks, "edge:fail-after-account-fee-lock", m);
        let m = ManifestBuilder::new().lock_fee(a0, dec!(20)).withdraw_from_account(a0, l.fung, dec!(1)).try_deposit_entire_worktop_or_abort(a1, None).build();
        exec(&mut l, sinks, "edge:account-fee-lock", m);
        // a hundred epochs later the transaction tracker drops its oldest partition at the next committed transaction
        let e = l.ledger.get_current_epoch();
        l.ledger.set_current_epoch(Epoch::of(e.number() + 100));
        let m = ManifestBuilder::new().lock_fee_from_faucet().withdraw_from_account(a0, XRD, dec!(1)).try_deposit_entire_worktop_or_abort(a1, None).build();
        exec(&mut l, sinks, "edge:after-100-epochs", m);
    }
    // the first transactions are fixed (one of every kind, so that even a short history issues every Track
    // operation); after them the kinds are drawn at random
    let prelude: [u32; 10] = [45, 57, 5, 25, 35, 62, 70, 78, 85, 95];
    for i in 0..len {
        let a = l.accts[if i < 10 { 0 } else { rng.gen_range(0..3) }];
        let b = l.accts[rng.gen_range(0..3)];
        let roll = if (i as usize) < prelude.len() { prelude[i as usize] } else { rng.gen_range(0..100) };
        let label = format!("ledger:{}", i);
        if roll < 18 {
            // XRD transfer, sometimes more than there is (fails after the fee lock: revert path)
            let amt = if rng.gen_bool(0.25) { dec!(100000000) } else { Decimal::from(rng.gen_range(1..50u32)) };
            let m = ManifestBuilder::new().lock_fee_from_faucet().withdraw_from_account(a, XRD, amt).try_deposit_entire_worktop_or_abort(b, None).build();
            exec(&mut l, sinks, &label, m);
        } else if roll < 30 {
            // fee paid by the account itself (lock_fee on the account vault: force-write of the vault)
            let m = ManifestBuilder::new().lock_fee(a, dec!(20)).withdraw_from_account(a, l.fung, Decimal::from(rng.gen_range(1..200u32)))
                .try_deposit_entire_worktop_or_abort(b, None).build();
            exec(&mut l, sinks, &label, m);
        } else if roll < 40 {
            // mint non-fungibles into an account
            let ids: Vec<(NonFungibleLocalId, EmptyNonFungibleData)> = (0..rng.gen_range(1..4)).map(|_| { l.next_nf += 1; (NonFungibleLocalId::integer(l.next_nf), EmptyNonFungibleData {}) }).collect();
            let m = ManifestBuilder::new().lock_fee_from_faucet().mint_non_fungible(l.nf, ids).try_deposit_entire_worktop_or_abort(a, None).build();
            exec(&mut l, sinks, &label, m);
        } else if roll < 55 {
            // withdraw non-fungibles BY AMOUNT (index drain in the vault), possibly more than held
            let n = rng.gen_range(1..5u32);
            let m = ManifestBuilder::new().lock_fee_from_faucet().withdraw_from_account(a, l.nf, Decimal::from(n)).try_deposit_entire_worktop_or_abort(b, None).build();
            exec(&mut l, sinks, &label, m);
        } else if roll < 60 {
            // list the ids in a vault with a limit (scan_keys), after moving one id out and in again in the
            // same transaction so that tracked entries (removed / re-inserted) and database entries mix
            let n = if i < 10 { 2 } else { rng.gen_range(0..3u32) };
            let limit = [1u32, 2, 3, 5, 8, 100][rng.gen_range(0..6)];
            let mut bld = ManifestBuilder::new().lock_fee_from_faucet();
            if n > 0 {
                bld = bld.withdraw_from_account(a, l.nf, Decimal::from(n)).try_deposit_entire_worktop_or_abort(a, None);
            }
            let m = bld.call_method(a, ACCOUNT_NON_FUNGIBLE_LOCAL_IDS_IDENT, AccountNonFungibleLocalIdsInput { resource_address: l.nf, limit }).build();
            exec(&mut l, sinks, &label, m);
        } else if roll < 65 {
            // burn some non-fungibles taken by amount
            let m = ManifestBuilder::new().lock_fee_from_faucet().withdraw_from_account(a, l.nf, Decimal::from(1u32)).burn_all_from_worktop(l.nf).build();
            exec(&mut l, sinks, &label, m);
        } else if roll < 75 {
            // pool contribution
            let m = ManifestBuilder::new()
                .lock_fee_from_faucet()
                .withdraw_from_account(a, l.fung, Decimal::from(rng.gen_range(1..100u32)))
                .withdraw_from_account(a, XRD, Decimal::from(rng.gen_range(1..100u32)))
                .take_all_from_worktop(l.fung, "f")
                .take_all_from_worktop(XRD, "x")
                .with_name_lookup(|bld, lk| bld.call_method(l.pool, TWO_RESOURCE_POOL_CONTRIBUTE_IDENT, TwoResourcePoolContributeManifestInput { buckets: (lk.bucket("f"), lk.bucket("x")) }))
                .try_deposit_entire_worktop_or_abort(a, None)
                .build();
            exec(&mut l, sinks, &label, m);
        } else if roll < 82 {
            // redeem (fails when the account has no pool units)
            let m = ManifestBuilder::new()
                .lock_fee_from_faucet()
                .withdraw_from_account(a, l.pool_unit, Decimal::from(rng.gen_range(1..5u32)))
                .take_all_from_worktop(l.pool_unit, "u")
                .with_name_lookup(|bld, lk| bld.call_method(l.pool, TWO_RESOURCE_POOL_REDEEM_IDENT, TwoResourcePoolRedeemManifestInput { bucket: lk.bucket("u") }))
                .try_deposit_entire_worktop_or_abort(a, None)
                .build();
            exec(&mut l, sinks, &label, m);
        } else if roll < 90 {
            // stake
            let m = ManifestBuilder::new()
                .lock_fee_from_faucet()
                .withdraw_from_account(a, XRD, Decimal::from(rng.gen_range(1..100u32)))
                .take_all_from_worktop(XRD, "x")
                .with_name_lookup(|bld, lk| bld.stake_validator(l.validator, lk.bucket("x")))
                .try_deposit_entire_worktop_or_abort(a, None)
                .build();
            exec(&mut l, sinks, &label, m);
        } else if roll < 92 && i > len / 3 && !l.burst_done && burst {
            // a hundred epochs pass (one round each): the transaction tracker drops its oldest partition
            // (delete_partition) at the next committed user transaction
            l.burst_done = true;
            for j in 0..101 {
                verif_sink::install();
                let st = l.ledger.get_consensus_manager_state();
                let r = catch(|| l.ledger.advance_to_round(Round::of(st.round.number() + 1)));
                let events = verif_sink::take();
                match r {
                    Ok(receipt) => sinks.transaction(events, outcome_of(&receipt), &format!("{}:epoch{}", label, j)),
                    Err(e) => panic!("engine panicked in round change: {}", e),
                }
            }
        } else {
            // next round (the default configuration changes the epoch on every round): sorted index scan,
            // emissions, and - as epochs pass - transaction tracker partition deletion
            verif_sink::install();
            let st = l.ledger.get_consensus_manager_state();
            let r = catch(|| l.ledger.advance_to_round(Round::of(st.round.number() + 1)));
            let events = verif_sink::take();
            match r {
                Ok(receipt) => sinks.transaction(events, outcome_of(&receipt), &label),
                Err(e) => {
                    sinks.transaction(events, "panic", &label);
                    panic!("engine panicked in round change: {}", e)
                }
            }
        }
    }
}

//! vh_enginetrace — extension X02/X03 (DESIGN 7, hooks H2/H3): every transaction the real engine
//! executes (the repository's transaction scenarios under every protocol version, and seeded
//! LedgerSimulator histories) becomes a trace of spec/Track (what the transaction-wide substate
//! cache was asked and what it answered) and of spec/SubstateLocks (every lock / unlock of the
//! kernel's lock table), recorded by the cfg-guarded thread-local sink
//! radix_engine::track::verif_sink and projected into the specifications' abstract vocabulary.
//!
//!   vh_enginetrace engine scenarios track=<file> locks=<file> [names=a,b] [limit=N] [every=K]
//!   vh_enginetrace engine ledger    track=<file> locks=<file> seed=N len=L
#![allow(clippy::all)]
mod engine;

fn main() {
    let (module, mode, args) = vh::start();
    match module.as_str() {
        "engine" => engine::run(&mode, &args),
        m => vh::unknown(m),
    }
}

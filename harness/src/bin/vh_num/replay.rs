//! `vh_num replay replay`: recorded events (one JSON object per line on stdin, e.g. the `event` of
//! a replay file) are re-executed: the same call is made again with the recorded INPUTS and a
//! fresh event is written, to be validated by the TLA+ trace modules like a recording.
use crate::arith::{self, Rec};
use crate::dec::*;
use crate::{rootpow, round, text, time};
use radix_common::math::*;
use radix_common::time::UtcDateTime;
use radix_engine_interface::blueprints::resource::{ForWithdrawal, WithdrawStrategy};
use serde_json::{json, Value};
use vh::util::*;
use vh::Args;

fn val<T: Fx>(v: &Value) -> Option<T> {
    twos_from_limbs(v, T::BYTES).map(|b| T::from_twos(&b))
}
fn text_of(v: &Value) -> String {
    v.as_array().unwrap().iter().filter_map(|c| char::from_u32(c.as_u64().unwrap() as u32)).collect()
}
fn small(v: &Value) -> i64 {
    // a recorded big integer that fits i64
    let b = twos_from_limbs(v, 8).expect("i64");
    i64::from_le_bytes(b.try_into().unwrap())
}
fn mode_index(name: &str) -> Option<usize> {
    MODES.iter().position(|(_, n)| *n == name)
}

fn dec_event<T: Fx>(r: &mut Rec, ev: &Value) -> bool {
    let a = ev["a"].as_str().unwrap();
    let x = match val::<T>(&ev["x"]) {
        Some(x) => x,
        None => return false,
    };
    match a {
        "add" | "sub" | "mul" | "div" => match val::<T>(&ev["y"]) {
            Some(y) => arith::bin(r, a, x, y),
            None => return false,
        },
        "neg" | "abs" => arith::un(r, a, x),
        "round" => match mode_index(ev["mode"].as_str().unwrap()) {
            Some(mi) => round::round(r, x, ev["dp"].as_u64().unwrap() as u32, mi),
            None => return false,
        },
        "floor" | "ceiling" => round::floor_ceil(r, x),
        "root" => rootpow::root(r, x, ev["n"].as_u64().unwrap() as u32, ev["via"].as_str().unwrap()),
        "powi" => rootpow::powi(r, x, small(&ev["e"])),
        "print" => {
            text::print(r, x);
        }
        _ => return false,
    }
    true
}

pub fn run(_mode: &str, _args: &Args) {
    let mut r = Rec { out: Out::new(), n: 0 };
    let mut t = time::Rec { out: Out::new(), n: 0, pool: vec![] };
    for ev in read_lines() {
        let a = ev["a"].as_str().unwrap_or("").to_string();
        let ty = ev["ty"].as_str().unwrap_or("");
        let done = match a.as_str() {
            "parse" if !ty.is_empty() => {
                let s = text_of(&ev["cp"]);
                if ty == "d" { text::parse::<Decimal>(&mut r, &s) } else { text::parse::<PreciseDecimal>(&mut r, &s) }
                true
            }
            "widen" => match val::<Decimal>(&ev["x"]) {
                Some(d) => {
                    let (o, v) = opt_out(catch(|| Some(PreciseDecimal::from(d))));
                    r.emit(json!({"a": "widen", "x": d.limbs(), "out": o, "r": v}));
                    true
                }
                None => false,
            },
            "narrow" => match val::<PreciseDecimal>(&ev["x"]) {
                Some(p) => {
                    let (o, v) = opt_out(catch(|| Decimal::try_from(p).ok()));
                    r.emit(json!({"a": "narrow", "x": p.limbs(), "out": o, "r": v}));
                    true
                }
                None => false,
            },
            "truncate" => match (val::<PreciseDecimal>(&ev["x"]), mode_index(ev["mode"].as_str().unwrap_or(""))) {
                (Some(p), Some(mi)) => {
                    let (mode, name) = MODES[mi];
                    let (o, v) = opt_out(catch(|| p.checked_truncate(mode)));
                    r.emit(json!({"a": "truncate", "x": p.limbs(), "mode": name, "out": o, "r": v}));
                    true
                }
                _ => false,
            },
            "withdraw" => match val::<Decimal>(&ev["x"]) {
                Some(x) => {
                    let div = ev["dp"].as_u64().unwrap() as u8;
                    let name = ev["mode"].as_str().unwrap();
                    let strat = match mode_index(name) {
                        Some(mi) => WithdrawStrategy::Rounded(MODES[mi].0),
                        None => WithdrawStrategy::Exact,
                    };
                    let (o, v) = opt_out(catch(|| x.for_withdrawal(div, strat)));
                    r.emit(json!({"a": "withdraw", "ty": "d", "x": x.limbs(), "dp": div, "mode": name, "out": o, "r": v}));
                    true
                }
                None => false,
            },
            _ if ty == "d" => dec_event::<Decimal>(&mut r, &ev),
            _ if ty == "p" => dec_event::<PreciseDecimal>(&mut r, &ev),
            // calendar events
            "new" | "fields" => {
                t.new_dt(small(&ev["y"]) as u32, ev["mo"].as_u64().unwrap() as u8, ev["d"].as_u64().unwrap() as u8,
                         ev["h"].as_u64().unwrap() as u8, ev["mi"].as_u64().unwrap() as u8, ev["s"].as_u64().unwrap() as u8);
                true
            }
            "from_instant" => {
                t.from_instant(small(&ev["t"]));
                true
            }
            "mono" => {
                t.mono(small(&ev["t1"]), small(&ev["t2"]));
                true
            }
            "inst_add" => {
                t.inst_add(small(&ev["t"]), ev["u"].as_str().unwrap(), small(&ev["n"]));
                true
            }
            "parse" => {
                t.parse(&text_of(&ev["cp"]));
                true
            }
            "to_instant" | "dt_add" | "print" => {
                let d = &ev["dt"];
                match UtcDateTime::new(small(&d["y"]) as u32, d["mo"].as_u64().unwrap() as u8, d["d"].as_u64().unwrap() as u8,
                                       d["h"].as_u64().unwrap() as u8, d["mi"].as_u64().unwrap() as u8, d["s"].as_u64().unwrap() as u8) {
                    Ok(dt) => {
                        match a.as_str() {
                            "to_instant" => {
                                t.to_instant(&dt);
                            }
                            "dt_add" => t.dt_add(&dt, ev["u"].as_str().unwrap(), small(&ev["n"])),
                            _ => {
                                t.print(&dt);
                            }
                        }
                        true
                    }
                    Err(_) => false,
                }
            }
            _ => false,
        };
        if !done {
            r.emit(json!({"a": "unsupported", "orig": a}));
        }
        r.out.flush();
        t.out.flush();
    }
}

//! C25 — driver for checked_round / checked_floor / checked_ceiling of Decimal and PreciseDecimal,
//! Decimal::for_withdrawal and PreciseDecimal::checked_truncate.  mode `record`.
//! Inputs: exact multiples, exact ties (…5 followed by zeros) of both signs at every decimal
//! place, ties +- 1 sub-unit, values within one unit of MIN / MAX, boundary classes, random; x 7 modes.
use crate::arith::Rec;
use crate::dec::*;
use radix_common::math::*;
use radix_engine_interface::blueprints::resource::{ForWithdrawal, WithdrawStrategy};
use rand::prelude::*;
use serde_json::json;
use vh::util::*;
use vh::Args;

pub fn round<T: Fx>(r: &mut Rec, x: T, dp: u32, mi: usize) {
    let (mode, name) = MODES[mi];
    let res = catch(|| x.c_round(dp as i32, mode));
    let (o, v) = opt_out(res);
    r.emit(json!({"a": "round", "ty": T::TY, "x": x.limbs(), "dp": dp, "mode": name, "out": o, "r": v}));
}
pub fn floor_ceil<T: Fx>(r: &mut Rec, x: T) {
    let (o, v) = opt_out(catch(|| x.c_floor()));
    r.emit(json!({"a": "floor", "ty": T::TY, "x": x.limbs(), "out": o, "r": v}));
    let (o, v) = opt_out(catch(|| x.c_ceiling()));
    r.emit(json!({"a": "ceiling", "ty": T::TY, "x": x.limbs(), "out": o, "r": v}));
}

/// values that matter for rounding to dp places
fn interesting_boundary<T: Fx>(dp: u32) -> Vec<T> {
    let mut rng = StdRng::seed_from_u64(0);
    interesting_impl::<T>(dp, &mut rng, true, false)
}
fn interesting<T: Fx>(dp: u32, rng: &mut StdRng, quick: bool) -> Vec<T> {
    interesting_impl::<T>(dp, rng, quick, true)
}
fn interesting_impl<T: Fx>(dp: u32, rng: &mut StdRng, quick: bool, with_random: bool) -> Vec<T> {
    let j = T::SD - dp;
    let u = Big::pow10(j);
    let half = u.half(); // u/2 (0 for u = 1: no ties at full precision)
    let (min, max) = (T::min_big(), T::max_big());
    // largest multiples of u inside the range
    let mut top = max.clone();
    let mut bot = min.abs();
    for _ in 0..j {
        top = top.div_small(10);
        bot = bot.div_small(10);
    }
    let top = top.mul(&u);
    let bot = bot.mul(&u).neg();
    // boundary multiples first (quick keeps the FULL product with modes for everything derived from them),
    // random multiples last (the bulk: quick rotates modes over them)
    let mut ks: Vec<Big> = vec![Big::zero(), u.clone(), u.muli(2), top.clone(), top.sub(&u), bot.clone(), bot.add(&u)];
    if !quick && with_random {
        ks.push(u.muli(3));
        ks.push(u.muli(10));
    }
    let nr = if !with_random { 0 } else if quick { 1 } else { 6 };
    for _ in 0..nr {
        // a random multiple of u
        let mut q = random_value::<T>(rng).big();
        for _ in 0..j {
            q = q.div_small(10);
        }
        ks.push(q.mul(&u));
    }
    let mut v: Vec<T> = vec![];
    let mut add = |b: Big| {
        if let Some(x) = T::from_big(&b) {
            if !v.contains(&x) {
                v.push(x);
            }
        }
    };
    for k in &ks {
        for sgn in [1i128, -1] {
            let m = k.muli(sgn);
            add(m.clone()); // exact multiple
            add(m.addi(1));
            add(m.addi(-1));
            if j > 0 {
                for side in [1i128, -1] {
                    let tie = m.add(&half.muli(side)); // exact tie
                    add(tie.clone());
                    add(tie.addi(1));
                    add(tie.addi(-1));
                }
            }
        }
    }
    v
}
/// MIN / MAX and the values within one unit of them
fn range_ends<T: Fx>(dp: u32) -> Vec<T> {
    let j = T::SD - dp;
    let u = Big::pow10(j);
    let half = u.half();
    let (min, max) = (T::min_big(), T::max_big());
    let mut v: Vec<T> = vec![];
    for b in [min.clone(), min.addi(1), min.add(&half), min.add(&half).addi(1), min.add(&half).addi(-1), min.add(&u), max.clone(), max.addi(-1),
              max.sub(&half), max.sub(&half).addi(-1), max.sub(&half).addi(1), max.sub(&u)] {
        if let Some(x) = T::from_big(&b) {
            if !v.contains(&x) {
                v.push(x);
            }
        }
    }
    v
}
/// number of values of `interesting` that stem from the boundary multiples (each multiple contributes
/// at most 18 values: 2 signs x (3 around the multiple + 2 x 3 around its ties))
fn is_bulk<T: Fx>(x: &T, dp: u32, boundary: &[T]) -> bool {
    let _ = dp;
    !boundary.contains(x)
}

fn near_bounds<T: Fx>(x: &T, dp: u32) -> bool {
    let u2 = Big::pow10(T::SD - dp).muli(2);
    let b = x.big();
    b.sub(&T::min_big()).cmp_abs_le(&u2) || T::max_big().sub(&b).cmp_abs_le(&u2)
}

fn round_for<T: Fx>(r: &mut Rec, rng: &mut StdRng, scale: usize) {
    let quick = scale == 1;
    for dp in 0..=T::SD {
        // every value at / next to a limit (multiples 0, u, 2u and the largest / smallest representable ones, their exact
        // ties, +-1 sub-unit, MIN / MAX and their neighbourhood) gets ALL 7 modes in every tier; only values derived
        // from random multiples rotate 3 of 7 modes in quick runs
        let mut boundary = interesting_boundary::<T>(dp);
        for x in range_ends::<T>(dp) {
            if !boundary.contains(&x) {
                boundary.push(x);
            }
        }
        let all = interesting::<T>(dp, rng, quick);
        for x in &boundary {
            for mi in 0..7 {
                round(r, *x, dp, mi);
            }
            if dp == 0 {
                floor_ceil(r, *x);
            }
        }
        for (i, x) in all.iter().enumerate() {
            if !is_bulk::<T>(x, dp, &boundary) {
                continue;
            }
            for mi in 0..7 {
                if quick && !near_bounds::<T>(x, dp) && (i + mi + dp as usize) % 7 >= 3 {
                    continue;
                }
                round(r, *x, dp, mi);
            }
            if dp == 0 {
                floor_ceil(r, *x);
            }
        }
    }
    let bnd = boundary_values::<T>();
    for (i, x) in bnd.iter().enumerate() {
        if quick && i % 10 != 0 {
            continue;
        }
        round(r, *x, rng.gen_range(0..=T::SD), rng.gen_range(0..7));
        round(r, *x, rng.gen_range(0..=T::SD), i % 7);
        if i % 12 == 0 {
            floor_ceil(r, *x);
        }
    }
    for i in 0..(if quick { 300 } else { 600 * scale }) {
        let x = random_value::<T>(rng);
        round(r, x, rng.gen_range(0..=T::SD), i % 7);
        if i % 10 == 0 {
            floor_ceil(r, x);
        }
    }
}

fn withdraw_one(r: &mut Rec, x: Decimal, div: u8, strategy: Option<usize>) {
    let (strat, name) = match strategy {
        Some(mi) => (WithdrawStrategy::Rounded(MODES[mi].0), MODES[mi].1),
        None => (WithdrawStrategy::Exact, "Exact"),
    };
    let (o, v) = opt_out(catch(|| x.for_withdrawal(div, strat)));
    r.emit(json!({"a": "withdraw", "ty": "d", "x": x.limbs(), "dp": div, "mode": name, "out": o, "r": v}));
}

fn withdraw(r: &mut Rec, rng: &mut StdRng, scale: usize) {
    let quick = scale == 1;
    // every divisibility 0..18 x (values at / next to a limit FOR THAT divisibility) x (Exact + all 7 modes), in every tier:
    // MIN / MAX and their neighbourhood, the largest / smallest representable multiples, 0 / u / 2u, their exact ties, +-1 sub-unit
    for div in 0..=18u32 {
        let mut vals = range_ends::<Decimal>(div);
        for x in interesting_boundary::<Decimal>(div) {
            // quick: the multiples 2u (and their ties) only for the extreme divisibilities
            if !vals.contains(&x) {
                vals.push(x);
            }
        }
        for x in &vals {
            withdraw_one(r, *x, div as u8, None);
            for mi in 0..7 {
                withdraw_one(r, *x, div as u8, Some(mi));
            }
        }
    }
    // bulk: random values, random divisibility, rotating strategy
    for i in 0..(if quick { 60 } else { 300 * scale }) {
        let x = random_value::<Decimal>(rng);
        let div = rng.gen_range(0..=18) as u8;
        withdraw_one(r, x, div, if i % 8 == 7 { None } else { Some(i % 7) });
    }
}

fn truncate_one(r: &mut Rec, p: PreciseDecimal, mi: usize) {
    let (mode, name) = MODES[mi];
    let (o, v) = opt_out(catch(|| p.checked_truncate(mode)));
    r.emit(json!({"a": "truncate", "x": p.limbs(), "mode": name, "out": o, "r": v}));
}

fn truncate(r: &mut Rec, rng: &mut StdRng, scale: usize) {
    let quick = scale == 1;
    let k = Big::pow10(18); // PreciseDecimal sub-units per Decimal sub-unit: the rounding unit of checked_truncate
    // limits, ALL 7 modes in every tier: multiples / ties / +-1 around 0, u, 2u and around the ends of the PreciseDecimal
    // range, and - the overflow boundary of the conversion - everything within two units of Decimal::MIN / MAX
    let mut limits: Vec<PreciseDecimal> = interesting_boundary::<PreciseDecimal>(18);
    for x in range_ends::<PreciseDecimal>(18) {
        limits.push(x);
    }
    let h = k.half();
    for edge in [Decimal::max_big(), Decimal::min_big()] {
        let e = edge.mul(&k);
        for m in [-2i128, -1, 0, 1, 2] {
            let base = e.add(&k.muli(m));
            for d in [Big::zero(), Big::from_i128(1), Big::from_i128(-1), h.clone(), h.neg(), h.addi(1), h.addi(-1), h.neg().addi(1), h.neg().addi(-1)] {
                if let Some(p) = PreciseDecimal::from_big(&base.add(&d)) {
                    if !limits.contains(&p) {
                        limits.push(p);
                    }
                }
            }
        }
    }
    for p in &limits {
        for mi in 0..7 {
            truncate_one(r, *p, mi);
        }
    }
    // bulk: boundary classes and random values, rotating modes in quick runs
    let mut vals: Vec<PreciseDecimal> = vec![];
    for (i, p) in boundary_values::<PreciseDecimal>().iter().enumerate() {
        if !quick || i % 10 == 0 {
            vals.push(*p);
        }
    }
    for _ in 0..(if quick { 100 } else { 150 * scale }) {
        vals.push(random_value::<PreciseDecimal>(rng));
    }
    for (i, p) in vals.iter().enumerate() {
        for mi in 0..7 {
            if quick && (i + mi) % 7 >= 2 {
                continue;
            }
            truncate_one(r, *p, mi);
        }
    }
}

pub fn run(mode: &str, args: &Args) {
    match mode {
        "record" => {
            let seed = args.u64("seed", 1);
            let scale = args.u64("scale", 1) as usize;
            let mut rng = StdRng::seed_from_u64(seed);
            let mut r = Rec { out: Out::new(), n: 0 };
            round_for::<Decimal>(&mut r, &mut rng, scale);
            round_for::<PreciseDecimal>(&mut r, &mut rng, scale);
            withdraw(&mut r, &mut rng, scale);
            truncate(&mut r, &mut rng, scale);
            r.out.flush();
            eprintln!("events {}", r.n);
        }
        _ => panic!("mode"),
    }
}

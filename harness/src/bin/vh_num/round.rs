//! C25 — driver for checked_round / checked_floor / checked_ceiling of Decimal and PreciseDecimal,
//! Decimal::for_withdrawal and PreciseDecimal::checked_truncate.  mode `record`.
//! Inputs: exact multiples, exact ties (…5 followed by zeros) of both signs at every decimal
//! place, ties +- 1 sub-unit, values within one unit of MIN / MAX, boundary classes, random; x 7 modes.
use crate::arith::Rec;
use crate::dec::*;
use radix_common::math::*;
use radix_engine_interface::blueprints::resource::{ForWithdrawal, WithdrawStrategy};
use rand::prelude::*;
use serde_json::json;
use vh::util::*;
use vh::Args;

pub fn round<T: Fx>(r: &mut Rec, x: T, dp: u32, mi: usize) {
    let (mode, name) = MODES[mi];
    let res = catch(|| x.c_round(dp as i32, mode));
    let (o, v) = opt_out(res);
    r.emit(json!({"a": "round", "ty": T::TY, "x": x.limbs(), "dp": dp, "mode": name, "out": o, "r": v}));
}
pub fn floor_ceil<T: Fx>(r: &mut Rec, x: T) {
    let (o, v) = opt_out(catch(|| x.c_floor()));
    r.emit(json!({"a": "floor", "ty": T::TY, "x": x.limbs(), "out": o, "r": v}));
    let (o, v) = opt_out(catch(|| x.c_ceiling()));
    r.emit(json!({"a": "ceiling", "ty": T::TY, "x": x.limbs(), "out": o, "r": v}));
}

/// values that matter for rounding to dp places
fn interesting<T: Fx>(dp: u32, rng: &mut StdRng, quick: bool) -> Vec<T> {
    let j = T::SD - dp;
    let u = Big::pow10(j);
    let half = u.half(); // u/2 (0 for u = 1: no ties at full precision)
    let (min, max) = (T::min_big(), T::max_big());
    // largest multiples of u inside the range
    let mut top = max.clone();
    let mut bot = min.abs();
    for _ in 0..j {
        top = top.div_small(10);
        bot = bot.div_small(10);
    }
    let top = top.mul(&u);
    let bot = bot.mul(&u).neg();
    let mut ks: Vec<Big> = vec![Big::zero(), u.clone(), u.muli(2), u.muli(3), u.muli(10), top.clone(), top.sub(&u), bot.clone(), bot.add(&u)];
    let nr = if quick { 2 } else { 6 };
    for _ in 0..nr {
        // a random multiple of u
        let mut q = random_value::<T>(rng).big();
        for _ in 0..j {
            q = q.div_small(10);
        }
        ks.push(q.mul(&u));
    }
    let mut v: Vec<T> = vec![];
    let mut add = |b: Big| {
        if let Some(x) = T::from_big(&b) {
            if !v.contains(&x) {
                v.push(x);
            }
        }
    };
    for k in &ks {
        for sgn in [1i128, -1] {
            let m = k.muli(sgn);
            add(m.clone()); // exact multiple
            add(m.addi(1));
            add(m.addi(-1));
            if j > 0 {
                for side in [1i128, -1] {
                    let tie = m.add(&half.muli(side)); // exact tie
                    add(tie.clone());
                    add(tie.addi(1));
                    add(tie.addi(-1));
                }
            }
        }
    }
    for b in [min.clone(), min.addi(1), min.add(&half), min.add(&half).addi(1), min.add(&u), max.clone(), max.addi(-1),
              max.sub(&half), max.sub(&half).addi(-1), max.sub(&u)] {
        add(b);
    }
    v
}

fn near_bounds<T: Fx>(x: &T, dp: u32) -> bool {
    let u2 = Big::pow10(T::SD - dp).muli(2);
    let b = x.big();
    b.sub(&T::min_big()).cmp_abs_le(&u2) || T::max_big().sub(&b).cmp_abs_le(&u2)
}

fn round_for<T: Fx>(r: &mut Rec, rng: &mut StdRng, scale: usize) {
    let quick = scale == 1;
    for dp in 0..=T::SD {
        let vals = interesting::<T>(dp, rng, quick);
        for (i, x) in vals.iter().enumerate() {
            for mi in 0..7 {
                // quick: every value with 3 of the 7 modes (rotating); all modes for the first values and
                // for every value within two rounding steps of MIN / MAX (where the prescribed neighbour
                // may or may not be representable — the overflow boundary of every mode)
                if quick && i >= 12 && !near_bounds::<T>(x, dp) && (i + mi + dp as usize) % 7 >= 3 {
                    continue;
                }
                round(r, *x, dp, mi);
            }
            if dp == 0 && (i % 2 == 0 || !quick) {
                floor_ceil(r, *x);
            }
        }
    }
    let bnd = boundary_values::<T>();
    for (i, x) in bnd.iter().enumerate() {
        if quick && i % 6 != 0 {
            continue;
        }
        round(r, *x, rng.gen_range(0..=T::SD), rng.gen_range(0..7));
        round(r, *x, rng.gen_range(0..=T::SD), i % 7);
        if i % 12 == 0 {
            floor_ceil(r, *x);
        }
    }
    for i in 0..(600 * scale) {
        let x = random_value::<T>(rng);
        round(r, x, rng.gen_range(0..=T::SD), i % 7);
        if i % 10 == 0 {
            floor_ceil(r, x);
        }
    }
}

fn withdraw(r: &mut Rec, rng: &mut StdRng, scale: usize) {
    let quick = scale == 1;
    let mut vals: Vec<Decimal> = vec![];
    for dp in [0u32, 1, 2, 9, 17, 18] {
        vals.extend(interesting::<Decimal>(dp, rng, true).into_iter().take(if quick { 40 } else { 200 }));
    }
    for _ in 0..(100 * scale) {
        vals.push(random_value::<Decimal>(rng));
    }
    for (i, x) in vals.iter().enumerate() {
        let div = (i % 19) as u8;
        let (o, v) = opt_out(catch(|| x.for_withdrawal(div, WithdrawStrategy::Exact)));
        if i % 5 == 0 {
            r.emit(json!({"a": "withdraw", "ty": "d", "x": x.limbs(), "dp": div, "mode": "Exact", "out": o, "r": v}));
        }
        for k in 0..2 {
            let (mode, name) = MODES[(i + 3 * k) % 7];
            let (o, v) = opt_out(catch(|| x.for_withdrawal(div, WithdrawStrategy::Rounded(mode))));
            r.emit(json!({"a": "withdraw", "ty": "d", "x": x.limbs(), "dp": div, "mode": name, "out": o, "r": v}));
        }
    }
}

fn truncate(r: &mut Rec, rng: &mut StdRng, scale: usize) {
    let quick = scale == 1;
    let k = Big::pow10(18);
    let mut vals: Vec<PreciseDecimal> = interesting::<PreciseDecimal>(18, rng, quick);
    // around the ends of the Decimal range (in PreciseDecimal sub-units)
    for edge in [Decimal::max_big(), Decimal::min_big()] {
        let e = edge.mul(&k);
        for d in [Big::zero(), Big::from_i128(1), Big::from_i128(-1), k.half(), k.half().neg(), k.half().addi(1), k.half().addi(-1),
                  k.half().neg().addi(1), k.half().neg().addi(-1), k.clone(), k.neg(), k.addi(-1), k.addi(-1).neg()] {
            if let Some(p) = PreciseDecimal::from_big(&e.add(&d)) {
                vals.push(p);
            }
        }
    }
    for (i, p) in boundary_values::<PreciseDecimal>().iter().enumerate() {
        if !quick || i % 10 == 0 {
            vals.push(*p);
        }
    }
    for _ in 0..(150 * scale) {
        vals.push(random_value::<PreciseDecimal>(rng));
    }
    for (i, p) in vals.iter().enumerate() {
        for mi in 0..7 {
            if quick && i >= 30 && (i + mi) % 7 >= 2 {
                continue;
            }
            let (mode, name) = MODES[mi];
            let (o, v) = opt_out(catch(|| p.checked_truncate(mode)));
            r.emit(json!({"a": "truncate", "x": p.limbs(), "mode": name, "out": o, "r": v}));
        }
    }
}

pub fn run(mode: &str, args: &Args) {
    match mode {
        "record" => {
            let seed = args.u64("seed", 1);
            let scale = args.u64("scale", 1) as usize;
            let mut rng = StdRng::seed_from_u64(seed);
            let mut r = Rec { out: Out::new(), n: 0 };
            round_for::<Decimal>(&mut r, &mut rng, scale);
            round_for::<PreciseDecimal>(&mut r, &mut rng, scale);
            withdraw(&mut r, &mut rng, scale);
            truncate(&mut r, &mut rng, scale);
            r.out.flush();
            eprintln!("events {}", r.n);
        }
        _ => panic!("mode"),
    }
}

//! vh_num — numeric / calendar column: Decimal & PreciseDecimal arithmetic (C24), rounding (C25),
//! roots and powers (C26), text forms (C27) and UtcDateTime / Instant conversions (C29).
//! The harness only generates inputs, calls the real functions under catch_unwind and logs
//! operands/results (big integers as limbs computed from the byte representation); the TLA+
//! post-conditions under /verif/spec/{Decimal,Calendar} decide.
#![allow(clippy::all)]
mod arith;
mod dec;
mod replay;
mod rootpow;
mod round;
mod text;
mod time;

fn main() {
    let (module, mode, args) = vh::start();
    match module.as_str() {
        "time" => time::run(&mode, &args),
        "replay" => replay::run(&mode, &args),
        "arith" => arith::run(&mode, &args),
        "round" => round::run(&mode, &args),
        "rootpow" => rootpow::run(&mode, &args),
        "text" => text::run(&mode, &args),
        m => vh::unknown(m),
    }
}

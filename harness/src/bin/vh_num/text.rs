//! C27 — driver for FromStr / Display of Decimal and PreciseDecimal.  mode `record`.
//! Texts: all short token sequences over {-,+,0,1,9,.,e,space,_,non-ASCII digit}, templates padded
//! with digit runs of boundary lengths, the regression inputs with a sign inside the fraction,
//! the printed MIN / MAX and their neighbours; values: boundary classes and random values are
//! printed and the printed text (and padded / signed variants of it) parsed back.
use crate::arith::Rec;
use crate::dec::*;
use radix_common::math::*;
use rand::prelude::*;
use serde_json::json;
use vh::util::*;
use vh::Args;

fn cps(s: &str) -> Vec<u32> {
    s.chars().map(|c| c as u32).collect()
}
pub fn parse<T: Fx>(r: &mut Rec, s: &str) {
    let res = catch(|| T::parse(s));
    let (o, v) = match res {
        Ok(Ok(x)) => ("ok", x.limbs()),
        Ok(Err(_)) => ("err", json!({"s": 0, "l": []})),
        Err(_) => ("panic", json!({"s": 0, "l": []})),
    };
    r.emit(json!({"a": "parse", "ty": T::TY, "cp": cps(s), "out": o, "r": v}));
}
pub fn print<T: Fx>(r: &mut Rec, x: T) -> Option<String> {
    match catch(|| x.print()) {
        Ok(s) => {
            r.emit(json!({"a": "print", "ty": T::TY, "x": x.limbs(), "out": "ok", "cp": cps(&s)}));
            Some(s)
        }
        Err(_) => {
            r.emit(json!({"a": "print", "ty": T::TY, "x": x.limbs(), "out": "panic", "cp": []}));
            None
        }
    }
}

const TOKENS: &[&str] = &["-", "+", "0", "1", "9", ".", "e", " ", "_", "\u{0663}"];

fn digit_run(rng: &mut StdRng, len: usize, kind: usize) -> String {
    (0..len)
        .map(|i| match kind % 4 {
            0 => '9',
            1 => if i + 1 == len { '1' } else { '0' },
            2 => if i == 0 { '1' } else { '0' },
            _ => char::from(b'0' + rng.gen_range(0..10) as u8),
        })
        .collect()
}

fn texts_for<T: Fx>(r: &mut Rec, rng: &mut StdRng, scale: usize) {
    let quick = scale == 1;
    // 1. token sequences: exhaustive up to length 3 (4 in thorough runs), sampled up to length 6
    let exhaustive = if quick { 3 } else { 4 };
    let mut seqs: Vec<String> = vec![String::new()];
    let mut frontier: Vec<String> = vec![String::new()];
    for _ in 0..exhaustive {
        let mut next = vec![];
        for p in &frontier {
            for t in TOKENS {
                next.push(format!("{}{}", p, t));
            }
        }
        seqs.extend(next.iter().cloned());
        frontier = next;
    }
    for _ in 0..(if quick { 800 } else { 1500 * scale }) {
        let len = rng.gen_range(exhaustive + 1..=6);
        // biased towards well-formed shapes: mostly digits, some signs/points
        let s: String = (0..len)
            .map(|_| {
                let k = rng.gen_range(0..20);
                if k < 10 { TOKENS[2 + k % 3] } else { TOKENS[k % TOKENS.len()] }
            })
            .collect();
        seqs.push(s);
    }
    for s in &seqs {
        parse::<T>(r, s);
    }
    // 2. templates padded with digit runs of boundary lengths
    let sd = T::SD as usize;
    let maxint = T::bits() as usize * 30103 / 100000 + 1 - sd; // digits of the largest integer part
    let int_lens = [1usize, 2, sd - 1, sd, sd + 1, maxint - 1, maxint, maxint + 1, maxint + sd, 77, 78, 79, 100];
    let frac_lens = [1usize, 2, sd - 1, sd, sd + 1, 2 * sd, 2 * sd + 1];
    let templates = ["I", "-I", "+I", "I.F", "-I.F", "+I.F", "I.", "-I.", ".F", "-.F", "I.F.F", "I.-F", "I.+F", "-I.-F", "+I.+F", "IeF", " I.F",
                     "I.F ", "I_I", "I._F", "I.F_", "--I", "+-I", "-+I.F", "I,F", "I.F\u{0663}", "\u{0663}.F", "0xI", "I.Fe1", "\u{2212}I.F"];
    let fill = |rng: &mut StdRng, t: &str, il: usize, fl: usize, kind: usize| -> String {
        let mut s = String::new();
        for c in t.chars() {
            match c {
                'I' => s.push_str(&digit_run(rng, il, kind)),
                'F' => s.push_str(&digit_run(rng, fl, kind + 1)),
                c => s.push(c),
            }
        }
        s
    };
    for (ti, t) in templates.iter().enumerate() {
        for (ii, il) in int_lens.iter().enumerate() {
            for (fi, fl) in frac_lens.iter().enumerate() {
                // limits kept as a FULL product in every tier: the six well-formed shapes x all lengths; every malformed
                // shape x (shortest / longest representable integer part) x (1, SD, SD+1 fraction digits)
                let well_formed = ti < 6;
                let limit_len = (*il == 1 || *il == maxint) && (*fl == 1 || *fl == sd || *fl == sd + 1);
                if quick && !well_formed && !limit_len && (ti + ii + fi) % 5 != 0 {
                    continue;
                }
                let kind = ti + ii + fi;
                let s = fill(rng, t, *il, *fl, kind);
                parse::<T>(r, &s);
                // at the lengths where range overflow is decided by the digits, every digit pattern (99..9, 0..01, 10..0, random)
                if well_formed && *il + 1 >= maxint && *il <= maxint + 1 {
                    for k2 in 1..4 {
                        let s = fill(rng, t, *il, *fl, kind + k2);
                        parse::<T>(r, &s);
                    }
                }
            }
        }
    }
    // 3. regression inputs: a sign inside the fractional part (lead L12)
    for s in ["1.-5", "1.+5", "-1.-5", "+1.+5", "0.-0", "0.+0", "-0.-1", "1.-", "1.+", "12345.-678", "1.-000000000000000005", "1.+000000000000000005"] {
        parse::<T>(r, s);
    }
    // 4. the printed extremes and their textual neighbours
    let s1 = T::scale();
    for b in [T::max_big(), T::max_big().addi(-1), T::min_big(), T::min_big().addi(1), s1.clone(), s1.neg(), s1.addi(-1), s1.addi(-1).neg(),
              Big::from_i128(1), Big::from_i128(-1), Big::zero()] {
        let x = T::from_big(&b).unwrap();
        if let Some(p) = print(r, x) {
            parse::<T>(r, &p);
            variants::<T>(r, &p);
            // last digit + 1 (one sub-unit beyond for MAX / MIN), and a digit appended to each part
            let mut chars: Vec<char> = p.chars().collect();
            if let Some(last) = chars.last_mut() {
                if last.is_ascii_digit() && *last != '9' {
                    *last = char::from(*last as u8 + 1);
                    parse::<T>(r, &chars.iter().collect::<String>());
                }
            }
            parse::<T>(r, &format!("{}0", p));
            parse::<T>(r, &format!("{}1", p));
            if let Some(dot) = p.find('.') {
                parse::<T>(r, &format!("{}0{}", &p[..dot], &p[dot..]));
                // integer part + 1 in the last place
                let mut ip: Vec<char> = p[..dot].chars().collect();
                if let Some(l) = ip.last_mut() {
                    if *l != '9' && l.is_ascii_digit() {
                        *l = char::from(*l as u8 + 1);
                        parse::<T>(r, &format!("{}{}", ip.iter().collect::<String>(), &p[dot..]));
                        parse::<T>(r, &ip.iter().collect::<String>());
                    }
                }
            }
        }
    }
    // 5. values -> text -> value
    let bnd = boundary_values::<T>();
    for (i, x) in bnd.iter().enumerate() {
        let ncore = core_values::<T>().len();
        if quick && i >= ncore && i % 3 != 0 {
            continue;
        }
        if let Some(p) = print(r, *x) {
            parse::<T>(r, &p);
            if i < ncore || i % 6 == 0 {
                variants::<T>(r, &p);
            }
        }
    }
    for i in 0..(if quick { 400 } else { 700 * scale }) {
        let x = random_value::<T>(rng);
        if let Some(p) = print(r, x) {
            parse::<T>(r, &p);
            if i % 4 == 0 {
                variants::<T>(r, &p);
            }
        }
    }
}

/// non-canonical spellings of a printed value: explicit '+', leading zeros, fraction padded to full width
fn variants<T: Fx>(r: &mut Rec, p: &str) {
    let (sign, body) = if let Some(b) = p.strip_prefix('-') { ("-", b) } else { ("", p) };
    if sign.is_empty() {
        parse::<T>(r, &format!("+{}", body));
    }
    parse::<T>(r, &format!("{}000{}", sign, body));
    match body.find('.') {
        Some(dot) => {
            let frac = &body[dot + 1..];
            let pad = "0".repeat(T::SD as usize - frac.len().min(T::SD as usize));
            parse::<T>(r, &format!("{}{}{}", sign, body, pad));
            parse::<T>(r, &format!("{}{}{}0", sign, body, pad)); // one place too many
        }
        None => {
            parse::<T>(r, &format!("{}{}.0", sign, body));
            parse::<T>(r, &format!("{}{}.{}", sign, body, "0".repeat(T::SD as usize)));
            parse::<T>(r, &format!("{}{}.{}", sign, body, "0".repeat(T::SD as usize + 1)));
        }
    }
}

pub fn run(mode: &str, args: &Args) {
    match mode {
        "record" => {
            let seed = args.u64("seed", 1);
            let scale = args.u64("scale", 1) as usize;
            let mut rng = StdRng::seed_from_u64(seed);
            let mut r = Rec { out: Out::new(), n: 0 };
            texts_for::<Decimal>(&mut r, &mut rng, scale);
            texts_for::<PreciseDecimal>(&mut r, &mut rng, scale);
            r.out.flush();
            eprintln!("events {}", r.n);
        }
        _ => panic!("mode"),
    }
}

//! C29 — driver for radix_common::time::{UtcDateTime, Instant}.  mode `record`: ndjson call trace
//! validated by spec/Calendar/TraceCalendar.tla.  No calendar logic here: every input comes from
//! fixed boundary lists or the seeded generator, every field of every result is logged as is.
use radix_common::time::{Instant, UtcDateTime};
use rand::prelude::*;
use serde_json::{json, Value};
use std::str::FromStr;
use vh::util::*;
use vh::Args;

fn bi(v: i64) -> Value {
    limbs_from_le_bytes_signed(&v.to_le_bytes())
}
fn dtj(dt: &UtcDateTime) -> Value {
    json!({"y": bi(dt.year() as i64), "mo": dt.month(), "d": dt.day_of_month(),
           "h": dt.hour(), "mi": dt.minute(), "s": dt.second()})
}
fn nodt() -> Value {
    json!({"y": bi(0), "mo": 0, "d": 0, "h": 0, "mi": 0, "s": 0})
}
fn cps(s: &str) -> Vec<u32> {
    s.chars().map(|c| c as u32).collect()
}

pub struct Rec {
    pub out: Out,
    pub n: u64,
    /// valid date-times produced so far (inputs for later calls)
    pub pool: Vec<UtcDateTime>,
}
impl Rec {
    fn emit(&mut self, v: Value) {
        self.n += 1;
        self.out.emit(&v);
    }
    pub fn new_dt(&mut self, y: u32, mo: u8, d: u8, h: u8, mi: u8, s: u8) -> Option<UtcDateTime> {
        let r = catch(|| UtcDateTime::new(y, mo, d, h, mi, s));
        let (o, v) = match &r {
            Ok(Ok(dt)) => ("ok", Some(*dt)),
            Ok(Err(_)) => ("err", None),
            Err(_) => ("panic", None),
        };
        self.emit(json!({"a": "new", "y": bi(y as i64), "mo": mo, "d": d, "h": h, "mi": mi, "s": s, "out": o}));
        if let Some(dt) = v {
            // the getters must return the constructor's fields (projection sanity, decided by TLA+ too)
            self.emit(json!({"a": "fields", "dt": dtj(&dt), "y": bi(y as i64), "mo": mo, "d": d, "h": h, "mi": mi, "s": s}));
        }
        v
    }
    pub fn from_instant(&mut self, t: i64) -> Option<UtcDateTime> {
        let r = catch(|| UtcDateTime::from_instant(&Instant::new(t)));
        match r {
            Ok(Ok(dt)) => {
                self.emit(json!({"a": "from_instant", "t": bi(t), "out": "ok", "dt": dtj(&dt)}));
                Some(dt)
            }
            Ok(Err(_)) => {
                self.emit(json!({"a": "from_instant", "t": bi(t), "out": "err", "dt": nodt()}));
                None
            }
            Err(_) => {
                self.emit(json!({"a": "from_instant", "t": bi(t), "out": "panic", "dt": nodt()}));
                None
            }
        }
    }
    pub fn to_instant(&mut self, dt: &UtcDateTime) -> Option<i64> {
        match catch(|| dt.to_instant()) {
            Ok(i) => {
                self.emit(json!({"a": "to_instant", "dt": dtj(dt), "out": "ok", "t": bi(i.seconds_since_unix_epoch)}));
                Some(i.seconds_since_unix_epoch)
            }
            Err(_) => {
                self.emit(json!({"a": "to_instant", "dt": dtj(dt), "out": "panic", "t": bi(0)}));
                None
            }
        }
    }
    pub fn dt_add(&mut self, dt: &UtcDateTime, u: &str, n: i64) {
        let r = catch(|| match u {
            "days" => dt.add_days(n),
            "hours" => dt.add_hours(n),
            "minutes" => dt.add_minutes(n),
            _ => dt.add_seconds(n),
        });
        let (o, v) = match r {
            Ok(Some(x)) => ("some", dtj(&x)),
            Ok(None) => ("none", nodt()),
            Err(_) => ("panic", nodt()),
        };
        self.emit(json!({"a": "dt_add", "dt": dtj(dt), "u": u, "n": bi(n), "out": o, "r": v}));
    }
    pub fn inst_add(&mut self, t: i64, u: &str, n: i64) {
        let i = Instant::new(t);
        let r = catch(|| match u {
            "days" => i.add_days(n),
            "hours" => i.add_hours(n),
            "minutes" => i.add_minutes(n),
            _ => i.add_seconds(n),
        });
        let (o, v) = match r {
            Ok(Some(x)) => ("some", bi(x.seconds_since_unix_epoch)),
            Ok(None) => ("none", bi(0)),
            Err(_) => ("panic", bi(0)),
        };
        self.emit(json!({"a": "inst_add", "t": bi(t), "u": u, "n": bi(n), "out": o, "r": v}));
    }
    pub fn mono(&mut self, t1: i64, t2: i64) {
        let a = catch(|| UtcDateTime::from_instant(&Instant::new(t1)));
        let b = catch(|| UtcDateTime::from_instant(&Instant::new(t2)));
        if let (Ok(Ok(a)), Ok(Ok(b))) = (a, b) {
            let ord = match a.cmp(&b) {
                std::cmp::Ordering::Less => -1,
                std::cmp::Ordering::Equal => 0,
                std::cmp::Ordering::Greater => 1,
            };
            self.emit(json!({"a": "mono", "t1": bi(t1), "t2": bi(t2), "dt1": dtj(&a), "dt2": dtj(&b), "ord": ord}));
        }
    }
    pub fn print(&mut self, dt: &UtcDateTime) -> Option<String> {
        match catch(|| dt.to_string()) {
            Ok(s) => {
                self.emit(json!({"a": "print", "dt": dtj(dt), "out": "ok", "cp": cps(&s)}));
                Some(s)
            }
            Err(_) => {
                self.emit(json!({"a": "print", "dt": dtj(dt), "out": "panic", "cp": []}));
                None
            }
        }
    }
    pub fn parse(&mut self, s: &str) {
        let r = catch(|| UtcDateTime::from_str(s));
        let (o, v) = match r {
            Ok(Ok(dt)) => ("ok", dtj(&dt)),
            Ok(Err(_)) => ("err", nodt()),
            Err(_) => ("panic", nodt()),
        };
        self.emit(json!({"a": "parse", "cp": cps(s), "out": o, "dt": v}));
    }
    /// everything the property says about one valid date-time
    fn all_of(&mut self, dt: &UtcDateTime, with_text: bool) {
        if let Some(t) = self.to_instant(dt) {
            for d in [-1i64, 0, 1] {
                if let Some(t2) = t.checked_add(d) {
                    self.from_instant(t2);
                }
            }
            if let Some(t2) = t.checked_add(1) {
                self.mono(t, t2);
                self.mono(t2, t);
            }
        }
        if with_text {
            if let Some(s) = self.print(dt) {
                self.parse(&s);
            }
        }
    }
}

const YEARS: &[u32] = &[
    0, 1, 2, 3, 4, 5, 99, 100, 101, 399, 400, 401, 1582, 1599, 1600, 1601, 1699, 1700, 1800, 1899, 1900, 1901, 1967,
    1968, 1969, 1970, 1971, 1972, 1973, 1999, 2000, 2001, 2023, 2024, 2037, 2038, 2099, 2100, 2101, 2399, 2400, 2401,
    9998, 9999, 10000, 10001, 65535, 65536, 99999, 1000000, 2147483647, 2147483648, 2147483649, 4294967292,
    4294967293, 4294967294, 4294967295,
];
const MD: &[(u8, u8)] = &[
    (1, 1), (1, 31), (1, 32), (2, 1), (2, 28), (2, 29), (2, 30), (3, 1), (3, 31), (4, 30), (4, 31), (6, 0), (6, 30),
    (6, 31), (7, 31), (8, 31), (9, 30), (9, 31), (10, 31), (11, 30), (11, 31), (12, 1), (12, 31), (12, 32), (0, 1),
    (13, 1), (255, 255),
];
const HMS: &[(u8, u8, u8)] = &[(0, 0, 0), (23, 59, 59), (12, 34, 56), (24, 0, 0), (0, 60, 0), (0, 0, 60), (255, 255, 255)];
const UNITS: &[&str] = &["days", "hours", "minutes", "seconds"];
const MIN_TS: i64 = -62135596800; // input boundary only (the specification derives its own bounds)
const MAX_TS: i64 = 135536014634284799;

fn spread_i64(rng: &mut StdRng) -> i64 {
    let bits = rng.gen_range(0..=63);
    let v: i64 = if bits == 0 { 0 } else { (rng.gen::<u64>() >> (64 - bits)) as i64 };
    if rng.gen() { v } else { v.wrapping_neg() }
}

pub fn run(mode: &str, args: &Args) {
    match mode {
        "record" => record(args),
        _ => panic!("mode"),
    }
}

fn record(args: &Args) {
    let seed = args.u64("seed", 1);
    let scale = args.u64("scale", 1) as usize; // 1 = quick
    let mut rng = StdRng::seed_from_u64(seed);
    let mut r = Rec { out: Out::new(), n: 0, pool: vec![] };

    // 1. boundary field combinations through the constructor; everything about the valid ones
    for (yi, y) in YEARS.iter().enumerate() {
        for (mi_, (mo, d)) in MD.iter().enumerate() {
            for (hi, (h, mi, s)) in HMS.iter().enumerate() {
                // the constructor sees the FULL product year x month/day x time of day in every tier (limits of every
                // field against limits of every other field); every valid date at the first / last second of the day
                // (hi < 2) gets everything the property says; only the mid-day time (hi = 2) is thinned in quick runs
                if let Some(dt) = r.new_dt(*y, *mo, *d, *h, *mi, *s) {
                    r.pool.push(dt);
                    if scale == 1 && hi >= 2 && (yi + mi_) % 3 != 0 {
                        if let Some(t) = r.to_instant(&dt) {
                            r.from_instant(t);
                        }
                    } else {
                        r.all_of(&dt, true);
                    }
                }
            }
        }
    }
    // 2. boundary instants
    let mut inst: Vec<i64> = vec![i64::MIN, i64::MIN + 1, i64::MAX - 1, i64::MAX, 0, 1, -1, 59, 60, 61, 3599, 3600, 3601];
    for base in [MIN_TS, MAX_TS, 0, 86400, -86400, 951782400, 951868800, 946684800, 2147483647, -2147483648, 4294967296,
                 -2208988800, 253402300799, 253402300800, 67767976233532799, 67768036191676799] {
        for d in -2i64..=2 {
            inst.push(base + d);
        }
    }
    for k in 0..63 {
        inst.push(1i64 << k);
        inst.push(-(1i64 << k));
    }
    for t in inst.clone() {
        if let Some(dt) = r.from_instant(t) {
            r.pool.push(dt);
            r.to_instant(&dt);
            if let Some(s) = r.print(&dt) {
                r.parse(&s);
            }
        }
    }
    // 3. seeded random instants: whole i64 range by bit length, uniform over the supported range,
    //    uniform over years 1..10000, around day / year boundaries
    let n_rand = if scale == 1 { 400 } else { 700 * scale };
    for i in 0..n_rand {
        let t = match i % 4 {
            0 => spread_i64(&mut rng),
            1 => rng.gen_range(MIN_TS..=MAX_TS),
            2 => rng.gen_range(MIN_TS..=253402300799),
            _ => rng.gen_range(-4000000i64..4000000) * 86400 + [-1i64, 0, 1, 43200][rng.gen_range(0..4)],
        };
        inst.push(t);
        if let Some(dt) = r.from_instant(t) {
            if i % 3 == 0 {
                r.pool.push(dt);
            }
            r.to_instant(&dt);
            if i % 5 == 0 {
                if let Some(s) = r.print(&dt) {
                    r.parse(&s);
                }
            }
            if let Some(t2) = t.checked_add(rng.gen_range(1..100000)) {
                r.mono(t, t2);
            }
        }
    }
    // sorted neighbours: strictly increasing conversion
    let mut sorted: Vec<i64> = inst.iter().cloned().filter(|t| *t >= MIN_TS && *t <= MAX_TS).collect();
    sorted.sort();
    sorted.dedup();
    for w in sorted.windows(2) {
        r.mono(w[0], w[1]);
    }
    // 4. arithmetic: date-times from the pool x units x boundary / random amounts, including the
    //    amounts that land exactly on and just beyond the supported range
    let pool = r.pool.clone();
    let n_arith = (if scale == 1 { 60 } else { 120 * scale }).min(pool.len());
    for i in 0..n_arith {
        let dt = if i < 40 { pool[(i * pool.len() / 40) % pool.len()] } else { pool[rng.gen_range(0..pool.len())] };
        let t = match catch(|| dt.to_instant()) {
            Ok(t) => t.seconds_since_unix_epoch,
            Err(_) => continue,
        };
        for u in UNITS {
            let us: i64 = match *u { "days" => 86400, "hours" => 3600, "minutes" => 60, _ => 1 };
            let mut ns: Vec<i64> = vec![0, 1, -1, 59, 60, -60, 365, 366, -366, 146097, -146097, i64::MAX, i64::MIN,
                                        i64::MAX / us, (i64::MAX / us).saturating_add(1), i64::MIN / us, (i64::MIN / us).saturating_sub(1)];
            // landing on the edges of the supported range (computed with wide integers: inputs only)
            for edge in [MIN_TS as i128, MAX_TS as i128] {
                let delta = (edge - t as i128) / us as i128;
                for d in -1i128..=1 {
                    if let Ok(n) = i64::try_from(delta + d) {
                        ns.push(n);
                    }
                }
            }
            ns.push(spread_i64(&mut rng));
            ns.push(rng.gen_range(-100000..100000));
            ns.push(rng.gen_range(-100000..100000));
            // quick: beyond the first 12 date-times only the limit amounts (0, +-1, the i64 ends, the amounts landing on
            // the ends of the supported range +-1 - positions 0..3 and 11.. of the list) plus 3 others
            if scale == 1 && i >= 12 {
                let mut keep: Vec<i64> = ns.iter().enumerate().filter(|(k, _)| *k < 3 || (*k >= 11 && *k < ns.len() - 3)).map(|(_, n)| *n).collect();
                let mut rest: Vec<i64> = ns.iter().enumerate().filter(|(k, _)| !(*k < 3 || (*k >= 11 && *k < ns.len() - 3))).map(|(_, n)| *n).collect();
                rest.shuffle(&mut rng);
                keep.extend(rest.into_iter().take(3));
                ns = keep;
            }
            for n in ns.into_iter() {
                r.dt_add(&dt, u, n);
                r.inst_add(t, u, n);
            }
            r.inst_add(spread_i64(&mut rng), u, spread_i64(&mut rng));
        }
    }
    // 5. text: documented-form strings with every field at / beyond its limits
    let base = "2023-01-27T12:17:25Z";
    let mut texts: Vec<String> = vec![base.to_string(), "".into(), "Z".into(), "2023-01-27T12:17:25".into(),
        "2023-01-27T12:17:25ZZ".into(), "2023-01-27t12:17:25z".into(), "2023-01-27 12:17:25Z".into(),
        "+023-01-27T12:17:25Z".into(), "2023-+1-27T12:17:25Z".into(), "2023-01-+7T12:17:25Z".into(),
        "-023-01-27T12:17:25Z".into(), "2023-01-27T+2:17:25Z".into(), "2023-01-27T12:+7:25Z".into(),
        "2023-01-27T12:17:+5Z".into(), "0000-01-01T00:00:00Z".into(), "0001-01-01T00:00:00Z".into(),
        "9999-12-31T23:59:59Z".into(), "10000-01-01T00:00:00Z".into(), "999-12-31T23:59:59Z".into(),
        "2023-1-27T12:17:25Z".into(), "2023-01-27T12:17:25.0Z".into(), "2023-01-27T12:17:25+00".into(),
        "  23-01-27T12:17:25Z".into(), "2023-01-27T12:17:25Z\n".into(), "\u{feff}2023-01-27T12:17:25Z".into()];
    for y in ["0000", "0001", "0004", "0100", "0400", "1900", "2000", "2023", "2024", "2100", "9999"] {
        for (mo, d) in [("00", "01"), ("01", "00"), ("01", "31"), ("01", "32"), ("02", "28"), ("02", "29"), ("02", "30"),
                        ("04", "30"), ("04", "31"), ("12", "31"), ("12", "32"), ("13", "01"), ("99", "99")] {
            for hms in ["00:00:00", "23:59:59", "24:00:00", "00:60:00", "00:00:60", "99:99:99"] {
                texts.push(format!("{}-{}-{}T{}Z", y, mo, d, hms));
            }
        }
    }
    // non-ASCII / special characters at every position of a 20-character string (lead L4)
    let subs: &[char] = &['€', 'é', '٣', '０', '😀', '\u{0}', '+', '-', ' ', 'T', 'Z', ':', 'a', '.', '\u{7f}', '\u{80}', 'ß'];
    let bases = [base, "202€-01-01T00:00:00Z", "0001-01-01T00:00:00Z", "9999-12-31T23:59:59Z"];
    for b in bases {
        let chars: Vec<char> = b.chars().collect();
        for pos in 0..chars.len() {
            for c in subs {
                let mut v = chars.clone();
                v[pos] = *c;
                texts.push(v.iter().collect());
            }
        }
        // two multi-byte characters, and byte-length-20 strings with fewer characters
        for p1 in 0..chars.len() {
            let mut v = chars.clone();
            v[p1] = '€';
            v[(p1 + 7) % 20] = 'é';
            texts.push(v.iter().collect());
            let mut w = chars.clone();
            w[p1] = '€';
            w.truncate(18.max(p1 + 1));
            texts.push(w.iter().collect());
        }
    }
    // random strings over the format alphabet and random unicode
    let alpha: Vec<char> = "0123456789-T:Z+ €é٣".chars().collect();
    for i in 0..(300 * scale) {
        let len = if i % 2 == 0 { 20 } else { rng.gen_range(0..26) };
        let s: String = (0..len)
            .map(|p| {
                if rng.gen_range(0..10) < 7 && p < 20 { base.chars().nth(p).unwrap() } else { alpha[rng.gen_range(0..alpha.len())] }
            })
            .collect();
        texts.push(s);
    }
    for t in &texts {
        r.parse(t);
    }
    // random valid date-times: print, parse back
    for _ in 0..(200 * scale) {
        let dt = pool[rng.gen_range(0..pool.len())];
        if let Some(s) = r.print(&dt) {
            r.parse(&s);
        }
    }
    r.out.flush();
    eprintln!("events {}", r.n);
}

//! C26 — driver for checked_sqrt / checked_cbrt / checked_nth_root / checked_powi of Decimal and
//! PreciseDecimal.  mode `record`.  Inputs: perfect powers +- 1 sub-unit, 0, +-1 sub-unit, +-ONE,
//! MIN, MAX, boundary classes, random values; degrees 0..; exponents 0, +-1, +-2, ... +-64,
//! i64::MIN / MAX.
use crate::arith::Rec;
use crate::dec::*;
use radix_common::math::*;
use rand::prelude::*;
use serde_json::json;
use vh::util::*;
use vh::Args;

pub fn root<T: Fx>(r: &mut Rec, x: T, n: u32, via: &str) {
    let res = catch(|| match via {
        "sqrt" => x.c_sqrt(),
        "cbrt" => x.c_cbrt(),
        _ => x.c_nth_root(n),
    });
    let (o, v) = opt_out(res);
    r.emit(json!({"a": "root", "ty": T::TY, "x": x.limbs(), "n": n, "via": via, "out": o, "r": v}));
}
fn roots_of<T: Fx>(r: &mut Rec, x: T, degrees: &[u32]) {
    for n in degrees {
        root(r, x, *n, "nth_root");
        if *n == 2 {
            root(r, x, 2, "sqrt");
        }
        if *n == 3 {
            root(r, x, 3, "cbrt");
        }
    }
}
pub fn powi<T: Fx>(r: &mut Rec, x: T, e: i64) {
    let (o, v) = opt_out(catch(|| x.c_powi(e)));
    let big = e.unsigned_abs() > 100000;
    r.emit(json!({"a": "powi", "ty": T::TY, "x": x.limbs(), "e": limbs_from_le_bytes_signed(&e.to_le_bytes()),
                  "es": if big { 0 } else { e }, "big": big, "out": o, "r": v}));
}

fn roots_for<T: Fx>(r: &mut Rec, rng: &mut StdRng, scale: usize) {
    let quick = scale == 1;
    let s = T::scale();
    let f = |b: &Big| T::from_big(b);
    let special: Vec<T> = [Big::zero(), Big::from_i128(1), Big::from_i128(-1), Big::from_i128(2), s.clone(), s.neg(), s.addi(1), s.addi(-1),
                           s.muli(2), s.muli(4), s.muli(-8), s.half(), T::max_big(), T::max_big().addi(-1), T::min_big(), T::min_big().addi(1)]
        .iter().filter_map(|b| f(b)).collect();
    let small: &[u32] = &[0, 1, 2, 3, 4, 5];
    let all: &[u32] = &[0, 1, 2, 3, 4, 5, 6, 7, 10, 17, 18, 19];
    let big: &[u32] = &[20, 36, 37];
    for (i, x) in special.iter().enumerate() {
        roots_of(r, *x, all);
        // degrees beyond 19 only on a few values (each costs seconds to check: numbers of thousands of digits)
        if !quick && i % 4 == 0 {
            roots_of(r, *x, big);
        }
    }
    if quick {
        roots_of(r, special[8], &[20]);
        roots_of(r, special[1], &[37]);
    }
    // perfect powers t^n (value) and (t / 10^j)^n, +- 1 sub-unit
    let ts: &[i128] = if quick { &[2, 3, 10, 12345] } else { &[2, 3, 5, 7, 9, 10, 11, 99, 100, 12345, 999983] };
    for n in if quick { vec![2u32, 3, 4, 5, 10] } else { vec![2u32, 3, 4, 5, 7, 10, 17] } {
        for t in ts {
            for j in [0u32, 1, 2, T::SD / n] {
                if j * n > T::SD {
                    continue;
                }
                let p = Big::from_i128(*t).pow(n).mul(&Big::pow10(T::SD - j * n)); // (t/10^j)^n in sub-units
                for d in [-1i128, 0, 1] {
                    for sg in [1i128, -1] {
                        if let Some(x) = f(&p.addi(d).muli(sg)) {
                            root(r, x, n, "nth_root");
                            if n == 2 && sg == 1 {
                                root(r, x, 2, "sqrt");
                            }
                            if n == 3 {
                                root(r, x, 3, "cbrt");
                            }
                        }
                    }
                }
            }
        }
    }
    // squares / cubes of sub-unit roots: r^2 / S exactly representable
    for i in 0..(if quick { 30 } else { 300 }) {
        let root_v = random_value::<T>(rng).big().abs().shr(T::bits() / 2 + 2 + (i % 8));
        let sq = root_v.mul(&root_v);
        // x = root^2 / S only when divisible; otherwise use the product itself as a value
        if let Some(x) = f(&sq) {
            roots_of(r, x, &[2]);
        }
    }
    let bnd = boundary_values::<T>();
    for (i, x) in bnd.iter().enumerate() {
        if quick && i % 16 != 0 {
            continue;
        }
        let n = if i % 5 == 0 { all[rng.gen_range(0..all.len())] } else { small[rng.gen_range(0..small.len())] };
        roots_of(r, *x, &[n, 2 + (i % 2) as u32]);
    }
    for i in 0..(if quick { 80 } else { 250 * scale }) {
        let x = random_value::<T>(rng);
        let n = match i % 10 {
            0 => all[rng.gen_range(0..all.len())],
            1 => rng.gen_range(6..24),
            _ => rng.gen_range(1..6),
        };
        roots_of(r, x, &[n]);
        if i % 3 == 0 {
            roots_of(r, x, &[2, 3]);
        }
    }
}

fn powi_for<T: Fx>(r: &mut Rec, rng: &mut StdRng, scale: usize) {
    let quick = scale == 1;
    let s = T::scale();
    let f = |b: &Big| T::from_big(b);
    let mut bases: Vec<T> = vec![];
    let mut addb = |b: Big| {
        if let Some(x) = T::from_big(&b) {
            if !bases.contains(&x) {
                bases.push(x);
            }
        }
    };
    for b in [Big::zero(), Big::from_i128(1), Big::from_i128(-1), Big::from_i128(2), Big::from_i128(10), s.clone(), s.neg(), s.addi(1),
              s.addi(-1), s.addi(1).neg(), s.addi(-1).neg(), s.muli(2), s.muli(-2), s.muli(3), s.muli(-3), s.muli(10), s.muli(-10),
              s.half(), s.half().neg(), s.div_small(10), s.div_small(10).neg(), s.div_small(4), s.div_small(8), s.div_small(5),
              s.muli(3).half(), s.muli(-3).half(), s.muli(16).div_small(10), s.muli(125).div_small(100), s.muli(1024),
              T::max_big(), T::max_big().addi(-1), T::min_big(), T::min_big().addi(1)] {
        addb(b);
    }
    // bases whose square / cube sits at the edge of the range (via the code's own roots: inputs only)
    let vmax = f(&T::max_big()).unwrap();
    for n in [2u32, 3, 4, 5] {
        if let Ok(Some(rt)) = catch(|| vmax.c_nth_root(n)) {
            for d in [-1i128, 0, 1] {
                addb(rt.big().addi(d));
                addb(rt.big().addi(d).neg());
            }
        }
    }
    for k in (1..T::bits() - 60).step_by(if quick { 17 } else { 5 }) {
        addb(Big::pow2(k).mul(&s)); // 2^k as a value
    }
    let exps: Vec<i64> = vec![0, 1, -1, 2, -2, 3, -3, 4, -4, 5, -5, 7, -7, 8, -8, 15, 16, -16, 17, 18, -18, 19, -19, 31, 32, -32, 36, 37, 63, -63,
                              64, -64, 100, -100, 127, 128, 131, 132, -131, 255, 256, 1000, -1000, 65536, i64::MAX, i64::MIN, i64::MIN + 1,
                              i64::MAX - 1, -(1 << 32), 1 << 33];
    // the bases whose powers are known for every exponent: 0, +-ONE with the extreme exponents
    for b in [Big::zero(), s.clone(), s.neg()] {
        let x = f(&b).unwrap();
        for e in [i64::MIN, i64::MIN + 1, i64::MAX, i64::MAX - 1, -(1i64 << 32), (1i64 << 33) + 1, 100001, -100001] {
            powi(r, x, e);
        }
    }
    // limit exponents: the FULL product with every base in every tier
    let limit_exps: &[i64] = &[0, 1, -1, 2, -2, 3, -3, i64::MAX, i64::MIN, i64::MIN + 1, i64::MAX - 1];
    for (i, x) in bases.iter().enumerate() {
        for (j, e) in exps.iter().enumerate() {
            // quick: the other exponents are thinned out, except for the first bases (0, +-1 sub-unit, +-ONE and
            // its neighbours, +-2) where the exponents at the overflow / precision edges matter most
            if quick && !limit_exps.contains(e) && !(i < 13 && (i + j) % 3 == 0) && (i + 2 * j) % 11 != 0 {
                continue;
            }
            powi(r, *x, *e);
        }
    }
    let bnd = boundary_values::<T>();
    for (i, x) in bnd.iter().enumerate() {
        if quick && i % 16 != 0 {
            continue;
        }
        powi(r, *x, exps[rng.gen_range(0..14)]);
        powi(r, *x, exps[rng.gen_range(0..exps.len())]);
    }
    for i in 0..(if quick { 100 } else { 300 * scale }) {
        let x = random_value::<T>(rng);
        let e = match i % 6 {
            0 => rng.gen_range(-40..40),
            1 => rng.gen::<i64>() >> rng.gen_range(0..63),
            _ => rng.gen_range(-6..7),
        };
        powi(r, x, e);
        // values close to one, where large exponents stay in range
        let near = s.add(&random_value::<T>(rng).big().shr(T::bits() - (i as u32 % 50) - 4));
        if let Some(y) = f(&near) {
            powi(r, y, rng.gen_range(-70..70));
        }
    }
}

pub fn run(mode: &str, args: &Args) {
    match mode {
        "record" => {
            let seed = args.u64("seed", 1);
            let scale = args.u64("scale", 1) as usize;
            let mut rng = StdRng::seed_from_u64(seed);
            let mut r = Rec { out: Out::new(), n: 0 };
            roots_for::<Decimal>(&mut r, &mut rng, scale);
            roots_for::<PreciseDecimal>(&mut r, &mut rng, scale);
            powi_for::<Decimal>(&mut r, &mut rng, scale);
            powi_for::<PreciseDecimal>(&mut r, &mut rng, scale);
            r.out.flush();
            eprintln!("events {}", r.n);
        }
        _ => panic!("mode"),
    }
}

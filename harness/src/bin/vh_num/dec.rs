//! Shared by the Decimal / PreciseDecimal drivers (C24-C27): the two types behind one trait, a
//! small signed big integer used ONLY to construct inputs (never to judge results), boundary
//! value classes and seeded random values.  Results are logged as limbs computed from the inner
//! bnum digits (two's-complement little-endian bytes), never through Display / conversions.
use radix_common::math::*;
use rand::prelude::*;
use serde_json::{json, Value};
use vh::util::*;

// ---------------------------------------------------------------------------------------------
// input-construction big integer (sign + magnitude, base 2^32)
#[derive(Clone, Debug, PartialEq, Eq)]
pub struct Big {
    pub neg: bool,
    pub mag: Vec<u32>,
}
impl Big {
    fn norm(mut self) -> Self {
        while self.mag.last() == Some(&0) {
            self.mag.pop();
        }
        if self.mag.is_empty() {
            self.neg = false;
        }
        self
    }
    pub fn zero() -> Self {
        Big { neg: false, mag: vec![] }
    }
    pub fn from_i128(v: i128) -> Self {
        let neg = v < 0;
        let mut m = v.unsigned_abs();
        let mut mag = vec![];
        while m != 0 {
            mag.push(m as u32);
            m >>= 32;
        }
        Big { neg, mag }.norm()
    }
    pub fn is_zero(&self) -> bool {
        self.mag.is_empty()
    }
    /// |self| <= |o|
    pub fn cmp_abs_le(&self, o: &Big) -> bool {
        Self::cmp_mag(&self.mag, &o.mag) != std::cmp::Ordering::Greater
    }
    fn cmp_mag(a: &[u32], b: &[u32]) -> std::cmp::Ordering {
        if a.len() != b.len() {
            return a.len().cmp(&b.len());
        }
        for i in (0..a.len()).rev() {
            if a[i] != b[i] {
                return a[i].cmp(&b[i]);
            }
        }
        std::cmp::Ordering::Equal
    }
    fn add_mag(a: &[u32], b: &[u32]) -> Vec<u32> {
        let mut r = vec![];
        let mut c = 0u64;
        for i in 0..a.len().max(b.len()) {
            let s = *a.get(i).unwrap_or(&0) as u64 + *b.get(i).unwrap_or(&0) as u64 + c;
            r.push(s as u32);
            c = s >> 32;
        }
        if c != 0 {
            r.push(c as u32);
        }
        r
    }
    fn sub_mag(a: &[u32], b: &[u32]) -> Vec<u32> {
        // a >= b
        let mut r = vec![];
        let mut br = 0i64;
        for i in 0..a.len() {
            let mut d = a[i] as i64 - *b.get(i).unwrap_or(&0) as i64 - br;
            if d < 0 {
                d += 1 << 32;
                br = 1;
            } else {
                br = 0;
            }
            r.push(d as u32);
        }
        r
    }
    pub fn neg(&self) -> Self {
        Big { neg: !self.neg, mag: self.mag.clone() }.norm()
    }
    pub fn abs(&self) -> Self {
        Big { neg: false, mag: self.mag.clone() }
    }
    pub fn add(&self, o: &Big) -> Self {
        if self.neg == o.neg {
            return Big { neg: self.neg, mag: Self::add_mag(&self.mag, &o.mag) }.norm();
        }
        match Self::cmp_mag(&self.mag, &o.mag) {
            std::cmp::Ordering::Equal => Big::zero(),
            std::cmp::Ordering::Greater => Big { neg: self.neg, mag: Self::sub_mag(&self.mag, &o.mag) }.norm(),
            std::cmp::Ordering::Less => Big { neg: o.neg, mag: Self::sub_mag(&o.mag, &self.mag) }.norm(),
        }
    }
    pub fn sub(&self, o: &Big) -> Self {
        self.add(&o.neg())
    }
    pub fn addi(&self, v: i128) -> Self {
        self.add(&Big::from_i128(v))
    }
    pub fn mul(&self, o: &Big) -> Self {
        let mut r = vec![0u32; self.mag.len() + o.mag.len() + 1];
        for (i, a) in self.mag.iter().enumerate() {
            let mut c = 0u64;
            for (j, b) in o.mag.iter().enumerate() {
                let cur = r[i + j] as u64 + (*a as u64) * (*b as u64) + c;
                r[i + j] = cur as u32;
                c = cur >> 32;
            }
            let mut k = i + o.mag.len();
            while c != 0 {
                let cur = r[k] as u64 + c;
                r[k] = cur as u32;
                c = cur >> 32;
                k += 1;
            }
        }
        Big { neg: self.neg != o.neg, mag: r }.norm()
    }
    pub fn muli(&self, v: i128) -> Self {
        self.mul(&Big::from_i128(v))
    }
    pub fn pow(&self, e: u32) -> Self {
        let mut r = Big::from_i128(1);
        for _ in 0..e {
            r = r.mul(self);
        }
        r
    }
    pub fn pow10(k: u32) -> Self {
        Big::from_i128(10).pow(k)
    }
    pub fn pow2(k: u32) -> Self {
        let mut mag = vec![0u32; (k / 32) as usize];
        mag.push(1 << (k % 32));
        Big { neg: false, mag }
    }
    /// magnitude halved (toward zero)
    pub fn half(&self) -> Self {
        let mut mag = self.mag.clone();
        let mut c = 0u32;
        for w in mag.iter_mut().rev() {
            let n = (*w >> 1) | (c << 31);
            c = *w & 1;
            *w = n;
        }
        Big { neg: self.neg, mag }.norm()
    }
    pub fn shr(&self, k: u32) -> Self {
        let mut r = self.clone();
        for _ in 0..k {
            r = r.half();
        }
        r
    }
    /// magnitude divided by a small number (toward zero)
    pub fn div_small(&self, d: u32) -> Self {
        let mut mag = self.mag.clone();
        let mut rem = 0u64;
        for w in mag.iter_mut().rev() {
            let cur = (rem << 32) | *w as u64;
            *w = (cur / d as u64) as u32;
            rem = cur % d as u64;
        }
        Big { neg: self.neg, mag }.norm()
    }
    pub fn bits(&self) -> u32 {
        match self.mag.last() {
            None => 0,
            Some(w) => 32 * (self.mag.len() as u32 - 1) + (32 - w.leading_zeros()),
        }
    }
    /// two's complement little-endian of `n` bytes; None if it does not fit the signed range
    pub fn to_twos(&self, n: usize) -> Option<Vec<u8>> {
        let mut bytes: Vec<u8> = vec![];
        for w in &self.mag {
            bytes.extend_from_slice(&w.to_le_bytes());
        }
        while bytes.len() < n {
            bytes.push(0);
        }
        if bytes[n..].iter().any(|b| *b != 0) {
            return None;
        }
        bytes.truncate(n);
        let top = bytes[n - 1] & 0x80 != 0;
        if !self.neg {
            return if top { None } else { Some(bytes) };
        }
        if top && !(bytes[n - 1] == 0x80 && bytes[..n - 1].iter().all(|b| *b == 0)) {
            return None;
        }
        let mut carry = 1u16;
        for b in bytes.iter_mut() {
            let v = (!*b) as u16 + carry;
            *b = v as u8;
            carry = v >> 8;
        }
        Some(bytes)
    }
    pub fn from_twos(bytes: &[u8]) -> Self {
        let neg = bytes.last().map(|b| b & 0x80 != 0).unwrap_or(false);
        let mut m = bytes.to_vec();
        if neg {
            let mut carry = 1u16;
            for b in m.iter_mut() {
                let v = (!*b) as u16 + carry;
                *b = v as u8;
                carry = v >> 8;
            }
        }
        let mag = m
            .chunks(4)
            .map(|c| {
                let mut w = 0u32;
                for (i, b) in c.iter().enumerate() {
                    w |= (*b as u32) << (8 * i);
                }
                w
            })
            .collect();
        Big { neg, mag }.norm()
    }
    /// limbs JSON (for logging integer INPUTS that never went through the library)
    pub fn json(&self) -> Value {
        let mut bytes: Vec<u8> = vec![];
        for w in &self.mag {
            bytes.extend_from_slice(&w.to_le_bytes());
        }
        limbs_from_le_magnitude(&bytes, self.neg)
    }
}

// ---------------------------------------------------------------------------------------------
// the two fixed-point types
pub trait Fx: Copy + PartialEq + std::fmt::Debug + std::panic::UnwindSafe + std::panic::RefUnwindSafe {
    const BYTES: usize;
    const SD: u32;
    const TY: &'static str;
    fn from_twos(b: &[u8]) -> Self;
    /// two's-complement little-endian bytes taken from the inner bnum's digits
    fn twos(&self) -> Vec<u8>;
    fn c_add(self, o: Self) -> Option<Self>;
    fn c_sub(self, o: Self) -> Option<Self>;
    fn c_mul(self, o: Self) -> Option<Self>;
    fn c_div(self, o: Self) -> Option<Self>;
    fn c_neg(self) -> Option<Self>;
    fn c_abs(self) -> Option<Self>;
    fn c_round(self, dp: i32, mode: RoundingMode) -> Option<Self>;
    fn c_floor(self) -> Option<Self>;
    fn c_ceiling(self) -> Option<Self>;
    fn c_sqrt(self) -> Option<Self>;
    fn c_cbrt(self) -> Option<Self>;
    fn c_nth_root(self, n: u32) -> Option<Self>;
    fn c_powi(self, e: i64) -> Option<Self>;
    fn parse(s: &str) -> Result<Self, String>;
    fn print(&self) -> String;
    fn limbs(&self) -> Value {
        limbs_from_le_bytes_signed(&self.twos())
    }
    fn big(&self) -> Big {
        Big::from_twos(&self.twos())
    }
    fn from_big(b: &Big) -> Option<Self> {
        b.to_twos(Self::BYTES).map(|t| Self::from_twos(&t))
    }
    fn bits() -> u32 {
        Self::BYTES as u32 * 8
    }
    fn scale() -> Big {
        Big::pow10(Self::SD)
    }
    fn max_big() -> Big {
        Big::pow2(Self::bits() - 1).addi(-1)
    }
    fn min_big() -> Big {
        Big::pow2(Self::bits() - 1).neg()
    }
}

fn digits_bytes(d: &[u64]) -> Vec<u8> {
    d.iter().flat_map(|w| w.to_le_bytes()).collect()
}

macro_rules! impl_fx {
    ($t:ident, $inner:ident, $bytes:expr, $sd:expr, $ty:expr, $ctor:ident, $getter:ident) => {
        impl Fx for $t {
            const BYTES: usize = $bytes;
            const SD: u32 = $sd;
            const TY: &'static str = $ty;
            fn from_twos(b: &[u8]) -> Self {
                $t::$ctor($inner::from_le_bytes(b))
            }
            fn twos(&self) -> Vec<u8> {
                digits_bytes(self.$getter().0.to_bits().digits())
            }
            fn c_add(self, o: Self) -> Option<Self> {
                self.checked_add(o)
            }
            fn c_sub(self, o: Self) -> Option<Self> {
                self.checked_sub(o)
            }
            fn c_mul(self, o: Self) -> Option<Self> {
                self.checked_mul(o)
            }
            fn c_div(self, o: Self) -> Option<Self> {
                self.checked_div(o)
            }
            fn c_neg(self) -> Option<Self> {
                self.checked_neg()
            }
            fn c_abs(self) -> Option<Self> {
                self.checked_abs()
            }
            fn c_round(self, dp: i32, mode: RoundingMode) -> Option<Self> {
                self.checked_round(dp, mode)
            }
            fn c_floor(self) -> Option<Self> {
                self.checked_floor()
            }
            fn c_ceiling(self) -> Option<Self> {
                self.checked_ceiling()
            }
            fn c_sqrt(self) -> Option<Self> {
                self.checked_sqrt()
            }
            fn c_cbrt(self) -> Option<Self> {
                self.checked_cbrt()
            }
            fn c_nth_root(self, n: u32) -> Option<Self> {
                self.checked_nth_root(n)
            }
            fn c_powi(self, e: i64) -> Option<Self> {
                self.checked_powi(e)
            }
            fn parse(s: &str) -> Result<Self, String> {
                <$t as std::str::FromStr>::from_str(s).map_err(|e| format!("{:?}", e))
            }
            fn print(&self) -> String {
                self.to_string()
            }
        }
    };
}
impl_fx!(Decimal, I192, 24, 18, "d", from_attos, attos);
impl_fx!(PreciseDecimal, I256, 32, 36, "p", from_precise_subunits, precise_subunits);

pub const MODES: &[(RoundingMode, &str)] = &[
    (RoundingMode::ToPositiveInfinity, "ToPositiveInfinity"),
    (RoundingMode::ToNegativeInfinity, "ToNegativeInfinity"),
    (RoundingMode::ToZero, "ToZero"),
    (RoundingMode::AwayFromZero, "AwayFromZero"),
    (RoundingMode::ToNearestMidpointTowardZero, "ToNearestMidpointTowardZero"),
    (RoundingMode::ToNearestMidpointAwayFromZero, "ToNearestMidpointAwayFromZero"),
    (RoundingMode::ToNearestMidpointToEven, "ToNearestMidpointToEven"),
];

/// (outcome, result limbs) of an Option-returning call made under catch_unwind
pub fn opt_out<T: Fx>(r: Result<Option<T>, String>) -> (&'static str, Value) {
    match r {
        Ok(Some(v)) => ("some", v.limbs()),
        Ok(None) => ("none", json!({"s": 0, "l": []})),
        Err(_) => ("panic", json!({"s": 0, "l": []})),
    }
}

// ---------------------------------------------------------------------------------------------
// value classes

fn push<T: Fx>(v: &mut Vec<T>, b: Big) {
    if let Some(x) = T::from_big(&b) {
        if !v.contains(&x) {
            v.push(x);
        }
    }
}

/// the small core set that is crossed with itself completely
pub fn core_values<T: Fx>() -> Vec<T> {
    let s = T::scale();
    let (min, max) = (T::min_big(), T::max_big());
    let mut v: Vec<T> = vec![];
    for b in [min.clone(), min.addi(1), min.half(), max.clone(), max.addi(-1), max.half()] {
        push(&mut v, b);
    }
    for k in [-2i128, -1, 0, 1, 2] {
        push(&mut v, Big::from_i128(k));
    }
    for m in [1i128, 2, 10] {
        for d in [-1i128, 0, 1] {
            push(&mut v, s.muli(m).addi(d));
            push(&mut v, s.muli(m).addi(d).neg());
        }
    }
    push(&mut v, s.half());
    push(&mut v, s.half().neg());
    push(&mut v, s.div_small(10));
    // square root of MAX*S (so that x*x/S sits at the edge of the range), via the code's own sqrt: inputs only
    if let Ok(Some(r)) = catch(|| T::from_big(&max).unwrap().c_sqrt()) {
        for d in [-1i128, 0, 1] {
            push(&mut v, r.big().addi(d));
            push(&mut v, r.big().addi(d).neg());
        }
    }
    push(&mut v, Big::pow2(T::bits() / 2));
    push(&mut v, Big::pow2(T::bits() / 2).neg());
    push(&mut v, Big::pow10(T::SD + (T::bits() * 3 / 10 - T::SD) / 2));
    v
}

/// the extended boundary classes: +-10^k, +-2^k, +-(2^k +- 1), MIN/2^j, MAX/2^j, scale neighbours
pub fn boundary_values<T: Fx>() -> Vec<T> {
    let mut v = core_values::<T>();
    let (min, max) = (T::min_big(), T::max_big());
    let digits = T::bits() * 30103 / 100000 + 1;
    for k in 0..=digits {
        push(&mut v, Big::pow10(k));
        push(&mut v, Big::pow10(k).neg());
        push(&mut v, Big::pow10(k).addi(-1));
        push(&mut v, Big::pow10(k).muli(5)); // ...5000: ties
        push(&mut v, Big::pow10(k).muli(-5));
    }
    for k in 0..T::bits() {
        let p = Big::pow2(k);
        for d in [-1i128, 0, 1] {
            push(&mut v, p.addi(d));
            push(&mut v, p.addi(d).neg());
        }
    }
    for j in 1..T::bits() - 1 {
        push(&mut v, min.shr(j));
        push(&mut v, max.shr(j));
    }
    v
}

/// seeded random value with the bit length spread over the whole width
pub fn random_value<T: Fx>(rng: &mut StdRng) -> T {
    let bits = rng.gen_range(0..T::bits());
    let mut bytes = vec![0u8; T::BYTES];
    rng.fill_bytes(&mut bytes);
    // keep `bits` low bits
    for (i, b) in bytes.iter_mut().enumerate() {
        let lo = (i * 8) as u32;
        if lo >= bits {
            *b = 0;
        } else if lo + 8 > bits {
            *b &= (1u16 << (bits - lo)) as u8 - 1;
        }
    }
    let mag = Big::from_twos(&bytes);
    let shaped = match rng.gen_range(0..10) {
        // multiples of a power of ten (values with few decimals)
        0 | 1 => {
            let k = rng.gen_range(0..=T::SD);
            mag.div_small(10u32.pow(k.min(9))).mul(&Big::pow10(k.min(9)))
        }
        _ => mag,
    };
    let b = if rng.gen() { shaped } else { shaped.neg() };
    T::from_big(&b).unwrap_or_else(|| T::from_big(&Big::zero()).unwrap())
}

//! C24 — driver for checked add/sub/mul/div/neg/abs of Decimal and PreciseDecimal, conversions
//! between them and from integer types.  mode `record`: ndjson call trace validated by
//! spec/Decimal/TraceDecimal.tla.  Inputs: boundary classes crossed pairwise, operand pairs whose
//! exact result is exactly MIN / MIN+1 / MAX / MAX+1, seeded random values of every bit length.
use crate::dec::*;
use radix_common::math::*;
use rand::prelude::*;
use serde_json::{json, Value};
use vh::util::*;
use vh::Args;

pub struct Rec {
    pub out: Out,
    pub n: u64,
}
impl Rec {
    pub fn emit(&mut self, v: Value) {
        self.n += 1;
        self.out.emit(&v);
    }
}

const OPS: &[&str] = &["add", "sub", "mul", "div"];

pub fn bin<T: Fx>(r: &mut Rec, op: &str, x: T, y: T) {
    let res = catch(|| match op {
        "add" => x.c_add(y),
        "sub" => x.c_sub(y),
        "mul" => x.c_mul(y),
        _ => x.c_div(y),
    });
    let (o, v) = opt_out(res);
    r.emit(json!({"a": op, "ty": T::TY, "x": x.limbs(), "y": y.limbs(), "out": o, "r": v}));
}
pub fn un<T: Fx>(r: &mut Rec, op: &str, x: T) {
    let res = catch(|| if op == "neg" { x.c_neg() } else { x.c_abs() });
    let (o, v) = opt_out(res);
    r.emit(json!({"a": op, "ty": T::TY, "x": x.limbs(), "out": o, "r": v}));
}

/// operand pairs whose exact result sits exactly on / next to the ends of the range
fn edge_pairs<T: Fx>(r: &mut Rec, rng: &mut StdRng, quick: bool) {
    let (min, max, s) = (T::min_big(), T::max_big(), T::scale());
    let f = |b: &Big| T::from_big(b);
    let mut ks: Vec<Big> = vec![Big::zero(), Big::from_i128(1), Big::from_i128(2), s.clone(), s.addi(1), max.half(), max.clone()];
    for _ in 0..(if quick { 6 } else { 40 }) {
        ks.push(random_value::<T>(rng).big().abs());
    }
    for k in &ks {
        for d in [-1i128, 0, 1] {
            // x + y = MIN + d, MAX + d ;  x - y likewise
            if let (Some(a), Some(b)) = (f(&min.add(k).addi(d)), f(&k.neg())) {
                bin(r, "add", a, b);
                bin(r, "add", b, a);
            }
            if let (Some(a), Some(b)) = (f(&max.sub(k).addi(d)), f(k)) {
                bin(r, "add", a, b);
            }
            if let (Some(a), Some(b)) = (f(&min.add(k).addi(d)), f(k)) {
                bin(r, "sub", a, b);
            }
            if let (Some(a), Some(b)) = (f(&max.sub(k).addi(d)), f(&k.neg())) {
                bin(r, "sub", a, b);
            }
        }
    }
    // products / quotients that are exactly MIN, MAX-ish: (2^j * ONE) * (MIN / 2^j), MIN / ONE ...
    let one = f(&s).unwrap();
    let mone = f(&s.neg()).unwrap();
    let vmin = f(&min).unwrap();
    let vmax = f(&max).unwrap();
    for (a, b) in [(one, vmin), (vmin, one), (mone, vmin), (vmin, mone), (one, vmax), (mone, vmax), (vmax, mone)] {
        bin(r, "mul", a, b);
        bin(r, "div", a, b);
        bin(r, "div", b, a);
    }
    // quick: every 7th shift, plus the first and last three (the ends of the sweep)
    let last_j = T::bits() - 3;
    let js: Vec<u32> = (1..=last_j).filter(|j| !quick || *j <= 3 || *j + 3 > last_j || *j % 7 == 1 || *j == T::SD || *j == T::SD + 1).collect();
    for j in js {
        let p = Big::pow2(j).mul(&s); // 2^j as a value
        for base in [&min, &max] {
            for d in [-1i128, 0, 1] {
                if let (Some(a), Some(b)) = (f(&p), f(&base.shr(j).addi(d))) {
                    bin(r, "mul", a, b);
                    bin(r, "mul", b, a);
                }
                if let (Some(a), Some(b)) = (f(&p.neg()), f(&base.shr(j).addi(d))) {
                    bin(r, "mul", a, b);
                }
                // (base / 2^j) / (1 / 2^j): exact while 2^-j has at most SD decimals
                if j <= T::SD {
                    let inv = Big::from_i128(5).pow(j).mul(&Big::pow10(T::SD - j)); // 2^-j
                    if let (Some(a), Some(b)) = (f(&base.shr(j).addi(d)), f(&inv)) {
                        bin(r, "div", a, b);
                    }
                    if let (Some(a), Some(b)) = (f(&base.shr(j).addi(d)), f(&inv.neg())) {
                        bin(r, "div", a, b);
                    }
                }
            }
        }
    }
    // 10^k * 10^m at the decimal edge of the range, and x * (1/x)-like pairs
    let digits = T::bits() * 30103 / 100000;
    for k in (0..=digits).filter(|k| !quick || *k % 5 == 0 || *k <= 1 || *k + 1 >= digits || *k == T::SD) {
        for m in [digits - k, digits + 1 - k, (digits + T::SD).saturating_sub(k), (digits + T::SD + 1).saturating_sub(k)] {
            if let (Some(a), Some(b)) = (f(&Big::pow10(k)), f(&Big::pow10(m))) {
                bin(r, "mul", a, b);
                bin(r, "div", a, b);
                bin(r, "div", b, a);
            }
        }
    }
}

fn arith_for<T: Fx>(r: &mut Rec, rng: &mut StdRng, scale: usize) {
    let quick = scale == 1;
    let core = core_values::<T>();
    let bnd = boundary_values::<T>();
    // 1. core x core x 4 operations
    for (i, x) in core.iter().enumerate() {
        for (j, y) in core.iter().enumerate() {
            // the FULL product (limit value x limit value x operation) in every tier
            for op in OPS.iter() {
                bin(r, op, *x, *y);
            }
        }
        un(r, "neg", *x);
        un(r, "abs", *x);
    }
    // 2. exact results at the ends of the range
    edge_pairs::<T>(r, rng, quick);
    // 3. every boundary value against a core value, another boundary value and a random value
    for (i, x) in bnd.iter().enumerate() {
        if quick && i % 8 != 0 {
            continue;
        }
        let partners = [core[rng.gen_range(0..core.len())], bnd[rng.gen_range(0..bnd.len())], random_value::<T>(rng)];
        for (k, y) in partners.iter().enumerate() {
            let op = OPS[(i + k) % 4];
            bin(r, op, *x, *y);
            bin(r, OPS[(i + k + 2) % 4], *y, *x);
        }
        if i % 8 == 0 {
            un(r, "neg", *x);
            un(r, "abs", *x);
        }
    }
    // 4. seeded random pairs, bit lengths spread over the whole width (wide intermediate products)
    for i in 0..(if quick { 400 } else { 1200 * scale }) {
        let x = random_value::<T>(rng);
        let y = if i % 7 == 0 { x } else { random_value::<T>(rng) };
        bin(r, OPS[i % 4], x, y);
        if i % 3 == 0 {
            bin(r, OPS[(i + 2) % 4], x, y);
        }
        if i % 16 == 0 {
            un(r, "neg", x);
            un(r, "abs", y);
        }
    }
}

// ---------------------------------------------------------------------------------------------
// conversions from integers

macro_rules! prim_from {
    ($r:expr, $rng:expr, $n:expr, $t:ident, $($it:ident),*) => {$(
        {
            let mut vals: Vec<$it> = vec![$it::MIN, $it::MAX, 0 as $it, 1 as $it, $it::MAX / 2, $it::MIN / 2 + 1 as $it];
            if ($it::MIN as i128) < 0 { vals.push((0 as $it).wrapping_sub(1 as $it)); }
            for _ in 0..$n { vals.push($rng.gen::<$it>() >> $rng.gen_range(0..(std::mem::size_of::<$it>() * 8) as u32)); }
            for v in vals {
                let res = catch(|| Some(<$t>::from(v)));
                let (o, rv) = opt_out(res);
                let x = if ($it::MIN as i128) < 0 { Big::from_i128(v as i128) } else { big_from_u128(v as u128) };
                $r.emit(json!({"a": "from_int", "ty": <$t as Fx>::TY, "ity": stringify!($it), "x": x.json(), "out": o, "r": rv}));
            }
        }
    )*};
}
fn big_from_u128(v: u128) -> Big {
    let hi = Big::from_i128((v >> 64) as i128).mul(&Big::pow2(64));
    hi.add(&Big::from_i128((v & 0xffff_ffff_ffff_ffff) as i128))
}

macro_rules! bnum_from {
    ($r:expr, $rng:expr, $n:expr, $t:ident, $(($it:ident, $bytes:expr, $signed:expr)),*) => {$(
        {
            let s = <$t as Fx>::scale();
            let maxint = approx_max_int::<$t>();
            let mut vals: Vec<Big> = vec![Big::zero(), Big::from_i128(1), Big::from_i128(-1), Big::from_i128(2)];
            for d in [-2i128, -1, 0, 1, 2] {
                vals.push(maxint.addi(d));
                vals.push(maxint.addi(d).neg());
            }
            // ends of the source type
            let bits = $bytes * 8;
            if $signed {
                vals.push(Big::pow2(bits - 1).neg());
                vals.push(Big::pow2(bits - 1).addi(-1));
                vals.push(Big::pow2(bits - 1).neg().addi(1));
            } else {
                vals.push(Big::pow2(bits).addi(-1));
                vals.push(Big::pow2(bits - 1));
            }
            vals.push(<$t as Fx>::max_big());
            vals.push(<$t as Fx>::min_big());
            for _ in 0..$n {
                let b = Big::pow2($rng.gen_range(0..bits)).addi($rng.gen::<i64>() as i128);
                vals.push(if $signed && $rng.gen::<bool>() { b.neg() } else { b.abs() });
            }
            let _ = &s;
            for v in vals {
                // source value from bytes (skip what the source type cannot hold)
                let bytes = if $signed { v.to_twos($bytes) } else if v.neg { None } else { v.to_twos($bytes + 1).map(|mut b| { b.truncate($bytes); b }) };
                let bytes = match bytes { Some(b) => b, None => continue };
                let src = $it::from_le_bytes(&bytes);
                let res = catch(|| <$t>::try_from(src).ok());
                let (o, rv) = opt_out(res);
                $r.emit(json!({"a": "from_int", "ty": <$t as Fx>::TY, "ity": stringify!($it), "x": v.json(), "out": o, "r": rv}));
            }
        }
    )*};
}
/// floor(MAX / S) obtained from the code's own division (input construction only)
fn approx_max_int<T: Fx>() -> Big {
    let max = T::from_big(&T::max_big()).unwrap();
    let one = T::from_big(&T::scale()).unwrap();
    // MAX rounded down to an integer value, divided by S by stripping SD decimal digits
    let fl = catch(|| max.c_floor()).ok().flatten().unwrap_or(one);
    let mut b = fl.big();
    for _ in 0..T::SD {
        b = b.div_small(10);
    }
    b
}

fn conversions(r: &mut Rec, rng: &mut StdRng, scale: usize) {
    let n = 6 * scale;
    prim_from!(r, rng, n, Decimal, i8, i16, i32, i64, i128, isize, u8, u16, u32, u64, u128, usize);
    prim_from!(r, rng, n, PreciseDecimal, i8, i16, i32, i64, i128, isize, u8, u16, u32, u64, u128, usize);
    bnum_from!(r, rng, n, Decimal, (I192, 24, true), (I256, 32, true), (I320, 40, true), (I448, 56, true), (I512, 64, true),
               (U192, 24, false), (U256, 32, false), (U320, 40, false), (U448, 56, false), (U512, 64, false));
    bnum_from!(r, rng, n, PreciseDecimal, (I192, 24, true), (I256, 32, true), (I320, 40, true), (I384, 48, true), (I448, 56, true),
               (I512, 64, true), (U192, 24, false), (U256, 32, false), (U320, 40, false), (U384, 48, false), (U448, 56, false),
               (U512, 64, false));
    // Decimal -> PreciseDecimal (exact), PreciseDecimal -> Decimal (truncating or failing)
    let quick = scale == 1;
    let dvals = boundary_values::<Decimal>();
    let dcore = core_values::<Decimal>().len();
    let k = Big::pow10(18);
    let mut pvals: Vec<PreciseDecimal> = vec![];
    for (i, d) in dvals.iter().enumerate() {
        if quick && i % 5 != 0 && i >= dcore {
            continue;
        }
        let res = catch(|| Some(PreciseDecimal::from(*d)));
        let (o, rv) = opt_out(res);
        r.emit(json!({"a": "widen", "x": d.limbs(), "out": o, "r": rv}));
        let w = d.big().mul(&k);
        for delta in [Big::zero(), Big::from_i128(1), Big::from_i128(-1), k.addi(-1), k.addi(-1).neg(), k.clone(), k.neg()] {
            if (i % 3 == 0 || i < dcore) || delta.is_zero() {
                if let Some(p) = PreciseDecimal::from_big(&w.add(&delta)) {
                    pvals.push(p);
                }
            }
        }
    }
    // just beyond the Decimal range, and the PreciseDecimal classes themselves
    for b in [Decimal::max_big().addi(1).mul(&k), Decimal::max_big().addi(1).mul(&k).addi(-1), Decimal::min_big().addi(-1).mul(&k),
              Decimal::min_big().addi(-1).mul(&k).addi(1), Decimal::min_big().mul(&k).addi(-1)] {
        if let Some(p) = PreciseDecimal::from_big(&b) {
            pvals.push(p);
        }
    }
    let pb = boundary_values::<PreciseDecimal>();
    let ncore = core_values::<PreciseDecimal>().len();
    for (i, p) in pb.iter().enumerate() {
        if !quick || i < ncore || i % 6 == 0 {
            pvals.push(*p);
        }
    }
    for _ in 0..(if quick { 200 } else { 400 * scale }) {
        pvals.push(random_value::<PreciseDecimal>(rng));
    }
    for p in pvals {
        let res = catch(|| Decimal::try_from(p).ok());
        let (o, rv) = opt_out(res);
        r.emit(json!({"a": "narrow", "x": p.limbs(), "out": o, "r": rv}));
    }
}

pub fn run(mode: &str, args: &Args) {
    match mode {
        "record" => {
            let seed = args.u64("seed", 1);
            let scale = args.u64("scale", 1) as usize;
            let mut rng = StdRng::seed_from_u64(seed);
            let mut r = Rec { out: Out::new(), n: 0 };
            arith_for::<Decimal>(&mut r, &mut rng, scale);
            arith_for::<PreciseDecimal>(&mut r, &mut rng, scale);
            conversions(&mut r, &mut rng, scale);
            r.out.flush();
            eprintln!("events {}", r.n);
        }
        _ => panic!("mode"),
    }
}

//! C22, T — engine types: generated Scrypto schemas exported with an own exporter, values built
//! here (and, mode harvest=1, event payloads harvested from the executed transaction scenarios),
//! each encoded, decoded untyped into a value tree, validated against the schema, typed-decoded;
//! and the same observations for seeded mutants of every payload.  TraceSborSchema decides.
//!
//! usage: vh_mtext schema types seed=N mutants=M [harvest=1] schemas=<path>  (events on stdout,
//!        one schema per line in <path>)
use crate::lex::unexpand;
use radix_common::prelude::*;
use radix_engine_interface::prelude::*;
use rand::prelude::*;
use sbor::schema::*;
use serde_json::{json, Value as J};
use std::io::Write;
use vh::util::*;
use vh::Args;

type S = ScryptoCustomSchema;

// ---------------------------------------------------------------------------------------------
// schema exporter: flat list of definitions, 1-based references, well-known types appended

fn big(neg: bool, mag: u128) -> J {
    let mut limbs = Vec::new();
    let mut m = mag;
    while m > 0 {
        limbs.push((m % 10000) as u64);
        m /= 10000;
    }
    json!({"s": if mag == 0 { 0 } else if neg { -1 } else { 1 }, "l": limbs})
}
fn bound_i(x: Option<i128>) -> J {
    match x {
        None => json!({"some": false, "s": 0, "l": []}),
        Some(v) => {
            let b = big(v < 0, v.unsigned_abs());
            json!({"some": true, "s": b["s"], "l": b["l"]})
        }
    }
}
fn bound_u(x: Option<u128>) -> J {
    match x {
        None => json!({"some": false, "s": 0, "l": []}),
        Some(v) => {
            let b = big(false, v);
            json!({"some": true, "s": b["s"], "l": b["l"]})
        }
    }
}

struct Exporter<'a> {
    schema: &'a SchemaV1<S>,
    well_known: Vec<WellKnownTypeId>,
}
impl<'a> Exporter<'a> {
    fn reference(&mut self, id: LocalTypeId) -> i64 {
        match id {
            LocalTypeId::SchemaLocalIndex(i) => i as i64 + 1,
            LocalTypeId::WellKnown(w) => {
                let pos = match self.well_known.iter().position(|x| *x == w) {
                    Some(p) => p,
                    None => {
                        self.well_known.push(w);
                        self.well_known.len() - 1
                    }
                };
                (self.schema.type_kinds.len() + pos) as i64 + 1
            }
        }
    }
    fn def(&mut self, kind: &LocalTypeKind<S>, meta: &TypeMetadata, val: &TypeValidation<ScryptoCustomTypeValidation>) -> J {
        let none = json!({"some": false, "s": 0, "l": []});
        let mut d = json!({"k": "", "c": [], "v": [], "lo": none, "hi": none, "ck": "", "cv": "",
                           "nm": meta.get_name().map(unexpand).unwrap_or_default(), "fn": []});
        match kind {
            TypeKind::Any => d["k"] = json!("Any"),
            TypeKind::Bool => d["k"] = json!("Bool"),
            TypeKind::I8 => d["k"] = json!("I8"),
            TypeKind::I16 => d["k"] = json!("I16"),
            TypeKind::I32 => d["k"] = json!("I32"),
            TypeKind::I64 => d["k"] = json!("I64"),
            TypeKind::I128 => d["k"] = json!("I128"),
            TypeKind::U8 => d["k"] = json!("U8"),
            TypeKind::U16 => d["k"] = json!("U16"),
            TypeKind::U32 => d["k"] = json!("U32"),
            TypeKind::U64 => d["k"] = json!("U64"),
            TypeKind::U128 => d["k"] = json!("U128"),
            TypeKind::String => d["k"] = json!("String"),
            TypeKind::Array { element_type } => {
                d["k"] = json!("Array");
                d["c"] = json!([self.reference(*element_type)]);
            }
            TypeKind::Tuple { field_types } => {
                d["k"] = json!("Tuple");
                d["c"] = json!(field_types.iter().map(|t| self.reference(*t)).collect::<Vec<_>>());
            }
            TypeKind::Enum { variants } => {
                d["k"] = json!("Enum");
                let mut vs = Vec::new();
                for (disc, fields) in variants.iter() {
                    let nm = meta.get_enum_variant_data(*disc).and_then(|m| m.get_name()).map(unexpand).unwrap_or_default();
                    vs.push(json!({"d": disc, "f": fields.iter().map(|t| self.reference(*t)).collect::<Vec<_>>(), "nm": nm}));
                }
                d["v"] = json!(vs);
            }
            TypeKind::Map { key_type, value_type } => {
                d["k"] = json!("Map");
                d["c"] = json!([self.reference(*key_type), self.reference(*value_type)]);
            }
            TypeKind::Custom(c) => {
                d["k"] = json!("Custom");
                d["ck"] = json!(match c {
                    ScryptoCustomTypeKind::Reference => "Reference",
                    ScryptoCustomTypeKind::Own => "Own",
                    ScryptoCustomTypeKind::Decimal => "Decimal",
                    ScryptoCustomTypeKind::PreciseDecimal => "PreciseDecimal",
                    ScryptoCustomTypeKind::NonFungibleLocalId => "NonFungibleLocalId",
                });
            }
        }
        match val {
            TypeValidation::None => {}
            TypeValidation::I8(v) => { d["lo"] = bound_i(v.min.map(|x| x as i128)); d["hi"] = bound_i(v.max.map(|x| x as i128)); }
            TypeValidation::I16(v) => { d["lo"] = bound_i(v.min.map(|x| x as i128)); d["hi"] = bound_i(v.max.map(|x| x as i128)); }
            TypeValidation::I32(v) => { d["lo"] = bound_i(v.min.map(|x| x as i128)); d["hi"] = bound_i(v.max.map(|x| x as i128)); }
            TypeValidation::I64(v) => { d["lo"] = bound_i(v.min.map(|x| x as i128)); d["hi"] = bound_i(v.max.map(|x| x as i128)); }
            TypeValidation::I128(v) => { d["lo"] = bound_i(v.min); d["hi"] = bound_i(v.max); }
            TypeValidation::U8(v) => { d["lo"] = bound_u(v.min.map(|x| x as u128)); d["hi"] = bound_u(v.max.map(|x| x as u128)); }
            TypeValidation::U16(v) => { d["lo"] = bound_u(v.min.map(|x| x as u128)); d["hi"] = bound_u(v.max.map(|x| x as u128)); }
            TypeValidation::U32(v) => { d["lo"] = bound_u(v.min.map(|x| x as u128)); d["hi"] = bound_u(v.max.map(|x| x as u128)); }
            TypeValidation::U64(v) => { d["lo"] = bound_u(v.min.map(|x| x as u128)); d["hi"] = bound_u(v.max.map(|x| x as u128)); }
            TypeValidation::U128(v) => { d["lo"] = bound_u(v.min); d["hi"] = bound_u(v.max); }
            TypeValidation::String(l) | TypeValidation::Array(l) | TypeValidation::Map(l) => {
                d["lo"] = bound_u(l.min.map(|x| x as u128));
                d["hi"] = bound_u(l.max.map(|x| x as u128));
            }
            TypeValidation::Custom(c) => {
                d["cv"] = json!(match c {
                    ScryptoCustomTypeValidation::Reference(r) => match r {
                        ReferenceValidation::IsGlobal => "IsGlobal",
                        ReferenceValidation::IsGlobalPackage => "IsGlobalPackage",
                        ReferenceValidation::IsGlobalComponent => "IsGlobalComponent",
                        ReferenceValidation::IsGlobalResourceManager => "IsGlobalResourceManager",
                        ReferenceValidation::IsGlobalTyped(_, _) => "IsGlobalTyped",
                        ReferenceValidation::IsInternal => "IsInternal",
                        ReferenceValidation::IsInternalTyped(_, _) => "IsInternalTyped",
                    },
                    ScryptoCustomTypeValidation::Own(o) => match o {
                        OwnValidation::IsBucket => "IsBucket",
                        OwnValidation::IsProof => "IsProof",
                        OwnValidation::IsVault => "IsVault",
                        OwnValidation::IsKeyValueStore => "IsKeyValueStore",
                        OwnValidation::IsGlobalAddressReservation => "IsGlobalAddressReservation",
                        OwnValidation::IsTypedObject(_, _) => "IsTypedObject",
                    },
                });
            }
        }
        d
    }
}

pub fn export_schema(schema: &SchemaV1<S>, root: LocalTypeId) -> (J, i64) {
    let mut ex = Exporter { schema, well_known: Vec::new() };
    let mut defs = Vec::new();
    for i in 0..schema.type_kinds.len() {
        defs.push(ex.def(&schema.type_kinds[i], &schema.type_metadata[i], &schema.type_validations[i]));
    }
    let root_ref = ex.reference(root);
    // well-known types referenced so far (their own children are well-known too: loop until closed)
    let mut done = 0;
    while done < ex.well_known.len() {
        let w = ex.well_known[done];
        let data = <S as CustomSchema>::resolve_well_known_type(w).expect("well-known type");
        let d = ex.def(&data.kind, &data.metadata, &data.validation);
        defs.push(d);
        done += 1;
    }
    (json!(defs), root_ref)
}

// ---------------------------------------------------------------------------------------------
// untyped value tree

fn vk_name(k: &ValueKind<ScryptoCustomValueKind>) -> &'static str {
    match k {
        ValueKind::Bool => "Bool",
        ValueKind::I8 => "I8",
        ValueKind::I16 => "I16",
        ValueKind::I32 => "I32",
        ValueKind::I64 => "I64",
        ValueKind::I128 => "I128",
        ValueKind::U8 => "U8",
        ValueKind::U16 => "U16",
        ValueKind::U32 => "U32",
        ValueKind::U64 => "U64",
        ValueKind::U128 => "U128",
        ValueKind::String => "String",
        ValueKind::Enum => "Enum",
        ValueKind::Array => "Array",
        ValueKind::Tuple => "Tuple",
        ValueKind::Map => "Map",
        ValueKind::Custom(ScryptoCustomValueKind::Reference) => "Reference",
        ValueKind::Custom(ScryptoCustomValueKind::Own) => "Own",
        ValueKind::Custom(ScryptoCustomValueKind::Decimal) => "Decimal",
        ValueKind::Custom(ScryptoCustomValueKind::PreciseDecimal) => "PreciseDecimal",
        ValueKind::Custom(ScryptoCustomValueKind::NonFungibleLocalId) => "NonFungibleLocalId",
    }
}
fn x0(k: &str) -> J {
    json!({"k": k, "n": {"s": 0, "l": []}, "len": 0, "d": 0, "ek": "", "vk": "", "lo": 0, "hi": 0, "bytes": false, "et": "", "c": []})
}
fn entity_name(n: &NodeId) -> String {
    n.entity_type().map(|e| format!("{:?}", e)).unwrap_or_else(|| "None".to_string())
}
pub fn tree(v: &ScryptoValue) -> J {
    let int = |k: &str, neg: bool, mag: u128| {
        let mut x = x0(k);
        x["n"] = big(neg, mag);
        x
    };
    match v {
        Value::Bool { .. } => x0("Bool"),
        Value::I8 { value } => int("I8", *value < 0, value.unsigned_abs() as u128),
        Value::I16 { value } => int("I16", *value < 0, value.unsigned_abs() as u128),
        Value::I32 { value } => int("I32", *value < 0, value.unsigned_abs() as u128),
        Value::I64 { value } => int("I64", *value < 0, value.unsigned_abs() as u128),
        Value::I128 { value } => int("I128", *value < 0, value.unsigned_abs()),
        Value::U8 { value } => int("U8", false, *value as u128),
        Value::U16 { value } => int("U16", false, *value as u128),
        Value::U32 { value } => int("U32", false, *value as u128),
        Value::U64 { value } => int("U64", false, *value as u128),
        Value::U128 { value } => int("U128", false, *value),
        Value::String { value } => {
            let mut x = x0("String");
            x["len"] = json!(value.len());
            x
        }
        Value::Tuple { fields } => {
            let mut x = x0("Tuple");
            x["c"] = json!(fields.iter().map(tree).collect::<Vec<_>>());
            x
        }
        Value::Enum { discriminator, fields } => {
            let mut x = x0("Enum");
            x["d"] = json!(discriminator);
            x["c"] = json!(fields.iter().map(tree).collect::<Vec<_>>());
            x
        }
        Value::Array { element_value_kind, elements } => {
            let mut x = x0("Array");
            x["ek"] = json!(vk_name(element_value_kind));
            if *element_value_kind == ValueKind::U8 {
                // byte arrays in summarised form: length, smallest and largest byte
                let bytes: Vec<u8> = elements.iter().map(|e| if let Value::U8 { value } = e { *value } else { 0 }).collect();
                x["bytes"] = json!(true);
                x["len"] = json!(bytes.len());
                x["lo"] = json!(bytes.iter().min().copied().unwrap_or(0));
                x["hi"] = json!(bytes.iter().max().copied().unwrap_or(0));
            } else {
                x["c"] = json!(elements.iter().map(tree).collect::<Vec<_>>());
            }
            x
        }
        Value::Map { key_value_kind, value_value_kind, entries } => {
            let mut x = x0("Map");
            x["ek"] = json!(vk_name(key_value_kind));
            x["vk"] = json!(vk_name(value_value_kind));
            let mut c = Vec::new();
            for (k, v) in entries {
                c.push(tree(k));
                c.push(tree(v));
            }
            x["c"] = json!(c);
            x
        }
        Value::Custom { value } => match value {
            ScryptoCustomValue::Reference(r) => {
                let mut x = x0("Reference");
                x["et"] = json!(entity_name(&r.0));
                x
            }
            ScryptoCustomValue::Own(o) => {
                let mut x = x0("Own");
                x["et"] = json!(entity_name(&o.0));
                x
            }
            ScryptoCustomValue::Decimal(_) => x0("Decimal"),
            ScryptoCustomValue::PreciseDecimal(_) => x0("PreciseDecimal"),
            ScryptoCustomValue::NonFungibleLocalId(_) => x0("NonFungibleLocalId"),
        },
    }
}

// ---------------------------------------------------------------------------------------------

pub(crate) struct Run {
    out: Out,
    schemas: std::io::BufWriter<std::fs::File>,
    nschemas: usize,
    mutants: usize,
    rng: StdRng,
    max_payload: usize,
    skipped_large: usize,
}

fn mutate(p: &[u8], rng: &mut StdRng) -> Vec<u8> {
    let mut b = p.to_vec();
    let edits = if rng.gen_bool(0.7) { 1 } else { rng.gen_range(2..4) };
    for _ in 0..edits {
        if b.len() <= 1 {
            break;
        }
        let j = rng.gen_range(1..b.len()); // keep the payload prefix byte most of the time
        match rng.gen_range(0..8) {
            0 => b[j] = rng.gen(),
            1 => b[j] = b[j].wrapping_add(1),
            2 => b[j] = b[j].wrapping_sub(1),
            3 => b[j] ^= 1 << rng.gen_range(0..8),
            4 => b[j] = [0u8, 1, 2, 0x7f, 0x80, 0xff, 0x20, 0x21, 0x22, 0x23, 0x40, 0x41, 0x5c][rng.gen_range(0..13)],
            5 => {
                b.remove(j);
            }
            6 => b.insert(j, rng.gen()),
            _ => {
                let k = rng.gen_range(1..b.len());
                b.swap(j, k);
            }
        }
    }
    b
}

impl Run {
    fn observe<T: ScryptoDecode + ScryptoEncode + PartialEq>(&mut self, name: &str, schema_idx: usize, root: i64, schema: &VersionedSchema<S>, type_id: LocalTypeId, payload: &[u8], origin: &str, original: Option<&T>) {
        let untyped = catch(|| scrypto_decode::<ScryptoValue>(payload));
        let (tree_j, has_tree) = match &untyped {
            Ok(Ok(v)) => (tree(v), true),
            _ => (x0(""), false),
        };
        let validator = catch(|| validate_payload_against_schema::<ScryptoCustomExtension, ()>(payload, schema.v1(), type_id, &(), SCRYPTO_SBOR_V1_MAX_DEPTH).is_ok());
        let typed = catch(|| scrypto_decode::<T>(payload));
        let cls = |ok: Option<bool>| match ok {
            Some(true) => "ok",
            Some(false) => "err",
            None => "panic",
        };
        let roundtrip = match (&typed, original) {
            (Ok(Ok(v)), Some(o)) => v == o && scrypto_encode(v).ok().as_deref() == Some(payload),
            _ => false,
        };
        self.out.emit(&json!({"type": name, "schema": schema_idx, "root": root, "origin": origin, "tree": tree_j, "has_tree": has_tree,
            "untyped": cls(untyped.as_ref().ok().map(|r| r.is_ok())),
            "validator": cls(validator.ok()), "typed": cls(typed.as_ref().ok().map(|r| r.is_ok())), "roundtrip": roundtrip,
            "size": payload.len()}));
    }

    fn ty<T: ScryptoDecode + ScryptoEncode + ScryptoDescribe + PartialEq>(&mut self, name: &str, values: Vec<T>) {
        self.ty_p::<T>(name, values, vec![])
    }

    /// `probes`: fixed damaged payloads observed in addition to the seeded mutants
    fn ty_p<T: ScryptoDecode + ScryptoEncode + ScryptoDescribe + PartialEq>(&mut self, name: &str, values: Vec<T>, probes: Vec<Vec<u8>>) {
        let (type_id, schema) = generate_full_schema_from_single_type::<T, S>();
        let (defs, root) = export_schema(schema.v1(), type_id);
        self.nschemas += 1;
        let idx = self.nschemas;
        serde_json::to_writer(&mut self.schemas, &json!({"name": name, "defs": defs, "root": root})).unwrap();
        self.schemas.write_all(b"\n").unwrap();
        for v in values.iter() {
            let payload = scrypto_encode(v).expect("encodable instance");
            if payload.len() > self.max_payload {
                self.skipped_large += 1;
                continue;
            }
            self.observe::<T>(name, idx, root, &schema, type_id, &payload, "encoded", Some(v));
            // deterministic boundary mutants of every value: one byte short / one byte long, and every one
            // of the first 8 bytes (value kinds, discriminators, lengths at the head) one up and one down
            let mut det: Vec<Vec<u8>> = vec![payload[..payload.len() - 1].to_vec(), [payload.as_slice(), &[0u8]].concat()];
            for j in 1..payload.len().min(9) {
                for d in [1u8, 255u8] {
                    let mut m = payload.clone();
                    m[j] = m[j].wrapping_add(d);
                    det.push(m);
                }
            }
            for m in det.iter() {
                self.observe::<T>(name, idx, root, &schema, type_id, m, "mutant", None);
            }
            for _ in 0..self.mutants {
                let m = mutate(&payload, &mut self.rng);
                self.observe::<T>(name, idx, root, &schema, type_id, &m, "mutant", None);
            }
        }
        for p in probes.iter() {
            self.observe::<T>(name, idx, root, &schema, type_id, p, "mutant", None);
        }
    }
}

// ---- instances -------------------------------------------------------------------------------

fn node(entity: EntityType, fill: u8) -> NodeId {
    let mut b = [fill; NodeId::LENGTH];
    b[0] = entity as u8;
    NodeId(b)
}
fn res_f() -> ResourceAddress {
    ResourceAddress::new_or_panic(node(EntityType::GlobalFungibleResourceManager, 3).0)
}
fn res_nf() -> ResourceAddress {
    ResourceAddress::new_or_panic(node(EntityType::GlobalNonFungibleResourceManager, 5).0)
}
fn comp() -> ComponentAddress {
    ComponentAddress::new_or_panic(node(EntityType::GlobalGenericComponent, 7).0)
}
fn pkg() -> PackageAddress {
    PackageAddress::new_or_panic(node(EntityType::GlobalPackage, 9).0)
}
fn decs() -> Vec<Decimal> {
    vec![Decimal::ZERO, Decimal::ONE, -Decimal::ONE, Decimal::MAX, Decimal::MIN, Decimal::from_attos(I192::ONE)]
}
fn nfls() -> Vec<NonFungibleLocalId> {
    vec![
        NonFungibleLocalId::integer(0),
        NonFungibleLocalId::integer(u64::MAX),
        NonFungibleLocalId::string("abc_1").unwrap(),
        NonFungibleLocalId::string("a".repeat(64)).unwrap(),
        NonFungibleLocalId::bytes(vec![1u8, 2, 255]).unwrap(),
        NonFungibleLocalId::ruid([7u8; 32]),
    ]
}

#[derive(ScryptoSbor, PartialEq, Eq, Debug, Clone)]
struct AllPrimitives {
    a: bool,
    b: i8,
    c: i16,
    d: i32,
    e: i64,
    f: i128,
    g: u8,
    h: u16,
    i: u32,
    j: u64,
    k: u128,
    l: String,
    m: (),
    n: (u8, String),
    o: Option<Box<AllPrimitivesInner>>,
}
#[derive(ScryptoSbor, PartialEq, Eq, Debug, Clone)]
enum AllPrimitivesInner {
    #[sbor(discriminator(0))]
    Unit,
    #[sbor(discriminator(1))]
    Named { x: u8, y: Vec<String> },
    #[sbor(discriminator(7))]
    Tuple(i64, BTreeMap<u16, bool>),
    #[sbor(discriminator(200))]
    Far(Vec<u8>),
}

fn instances(r: &mut Run) {
    use radix_engine::blueprints::consensus_manager::*;
    use radix_engine::blueprints::resource::*;
    use radix_engine_interface::blueprints::resource::*;
    use radix_engine_interface::object_modules::metadata::*;

    r.ty::<Decimal>("Decimal", decs());
    r.ty::<PreciseDecimal>("PreciseDecimal", vec![PreciseDecimal::ZERO, PreciseDecimal::MAX, PreciseDecimal::MIN, PreciseDecimal::ONE]);
    r.ty::<NonFungibleLocalId>("NonFungibleLocalId", nfls());
    r.ty::<NonFungibleGlobalId>("NonFungibleGlobalId", nfls().into_iter().map(|l| NonFungibleGlobalId::new(res_nf(), l)).collect());
    r.ty::<ResourceAddress>("ResourceAddress", vec![XRD, res_f(), res_nf()]);
    r.ty::<PackageAddress>("PackageAddress", vec![PACKAGE_PACKAGE, pkg()]);
    r.ty::<ComponentAddress>("ComponentAddress", vec![FAUCET, comp(), ComponentAddress::new_or_panic(node(EntityType::GlobalAccount, 1).0)]);
    r.ty::<GlobalAddress>("GlobalAddress", vec![XRD.into(), pkg().into(), comp().into(), CONSENSUS_MANAGER.into()]);
    r.ty::<InternalAddress>("InternalAddress", vec![
        InternalAddress::new_or_panic(node(EntityType::InternalFungibleVault, 2).0),
        InternalAddress::new_or_panic(node(EntityType::InternalKeyValueStore, 4).0),
        InternalAddress::new_or_panic(node(EntityType::InternalGenericComponent, 6).0),
    ]);
    r.ty::<Own>("Own", vec![Own(node(EntityType::InternalFungibleVault, 8)), Own(node(EntityType::InternalGenericComponent, 1)), Own(node(EntityType::InternalKeyValueStore, 3))]);
    r.ty::<Reference>("Reference", vec![Reference(node(EntityType::GlobalAccount, 8)), Reference(node(EntityType::InternalNonFungibleVault, 1))]);
    // deterministic probes: an Own wrapper whose node id carries a global / no entity type
    // (payload = prefix 0x5c, value kind Own 0x90, 30 bytes node id)
    let own_probe = |entity_byte: u8| {
        let mut p = scrypto_encode(&Own(node(EntityType::InternalFungibleVault, 8))).unwrap();
        p[2] = entity_byte;
        p
    };
    r.ty_p::<Vault>("Vault", vec![Vault(Own(node(EntityType::InternalFungibleVault, 8))), Vault(Own(node(EntityType::InternalNonFungibleVault, 9)))],
        vec![own_probe(EntityType::GlobalIdentity as u8), own_probe(0x00), own_probe(EntityType::InternalKeyValueStore as u8)]);
    r.ty_p::<Bucket>("Bucket", vec![Bucket(Own(node(EntityType::InternalGenericComponent, 8)))],
        vec![own_probe(EntityType::GlobalAccount as u8), own_probe(0x00)]);
    r.ty::<BlueprintId>("BlueprintId", vec![BlueprintId::new(&pkg(), "Faucet"), BlueprintId::new(&PACKAGE_PACKAGE, "")]);
    r.ty::<Hash>("Hash", vec![hash("a"), Hash([0u8; 32]), Hash([255u8; 32])]);
    r.ty::<PublicKey>("PublicKey", vec![PublicKey::Secp256k1(Secp256k1PublicKey([2u8; 33])), PublicKey::Ed25519(Ed25519PublicKey([9u8; 32]))]);
    r.ty::<PublicKeyHash>("PublicKeyHash", vec![PublicKeyHash::Secp256k1(Secp256k1PublicKeyHash([1u8; 29])), PublicKeyHash::Ed25519(Ed25519PublicKeyHash([3u8; 29]))]);
    r.ty::<Epoch>("Epoch", vec![Epoch::zero(), Epoch::of(u64::MAX)]);
    r.ty::<Round>("Round", vec![Round::zero(), Round::of(77)]);
    r.ty::<Instant>("Instant", vec![Instant::new(0), Instant::new(i64::MIN), Instant::new(i64::MAX)]);
    r.ty::<AccessRule>("AccessRule", vec![
        AccessRule::AllowAll,
        AccessRule::DenyAll,
        rule!(require(XRD)),
        rule!(require(NonFungibleGlobalId::new(res_nf(), NonFungibleLocalId::integer(1)))),
        rule!(require_any_of(vec![XRD, res_f()]) && require_amount(Decimal::ONE, XRD) || require_n_of(2, vec![XRD, res_f(), res_nf()])),
    ]);
    r.ty::<OwnerRole>("OwnerRole", vec![OwnerRole::None, OwnerRole::Fixed(rule!(require(XRD))), OwnerRole::Updatable(AccessRule::AllowAll)]);
    r.ty::<RoleKey>("RoleKey", vec![RoleKey::new("minter"), RoleKey::new("")]);
    r.ty::<ModuleId>("ModuleId", vec![ModuleId::Main, ModuleId::Metadata, ModuleId::Royalty, ModuleId::RoleAssignment]);
    r.ty::<RoyaltyAmount>("RoyaltyAmount", vec![RoyaltyAmount::Free, RoyaltyAmount::Xrd(Decimal::ONE), RoyaltyAmount::Usd(Decimal::MAX)]);
    r.ty::<ResourceOrNonFungible>("ResourceOrNonFungible", vec![ResourceOrNonFungible::Resource(XRD), ResourceOrNonFungible::NonFungible(NonFungibleGlobalId::new(res_nf(), NonFungibleLocalId::integer(5)))]);
    r.ty::<MetadataValue>("MetadataValue", vec![
        MetadataValue::String("hello \u{e9}\u{1F600}".to_string()),
        MetadataValue::Bool(true),
        MetadataValue::U8(255),
        MetadataValue::U32(0),
        MetadataValue::U64(u64::MAX),
        MetadataValue::I32(i32::MIN),
        MetadataValue::I64(i64::MAX),
        MetadataValue::Decimal(Decimal::MIN),
        MetadataValue::GlobalAddress(XRD.into()),
        MetadataValue::PublicKey(PublicKey::Ed25519(Ed25519PublicKey([9u8; 32]))),
        MetadataValue::NonFungibleGlobalId(NonFungibleGlobalId::new(res_nf(), NonFungibleLocalId::integer(5))),
        MetadataValue::NonFungibleLocalId(NonFungibleLocalId::string("x").unwrap()),
        MetadataValue::Instant(Instant::new(1)),
        MetadataValue::Url(UncheckedUrl::of("https://example.invalid/a?b=c")),
        MetadataValue::Origin(UncheckedOrigin::of("https://example.invalid")),
        MetadataValue::PublicKeyHash(PublicKeyHash::Ed25519(Ed25519PublicKeyHash([3u8; 29]))),
        MetadataValue::StringArray(vec!["a".to_string(), "".to_string()]),
        MetadataValue::BoolArray(vec![]),
        MetadataValue::U8Array(vec![0, 1, 255]),
        MetadataValue::DecimalArray(decs()),
        MetadataValue::GlobalAddressArray(vec![XRD.into(), pkg().into()]),
        MetadataValue::NonFungibleLocalIdArray(nfls()),
    ]);
    r.ty::<LiquidFungibleResource>("LiquidFungibleResource", decs().into_iter().map(LiquidFungibleResource::new).collect());
    r.ty::<LockedFungibleResource>("LockedFungibleResource", vec![LockedFungibleResource::default(), LockedFungibleResource { amounts: [(Decimal::ONE, 2usize), (Decimal::MAX, 1usize)].into_iter().collect() }]);
    r.ty::<LiquidNonFungibleVault>("LiquidNonFungibleVault", vec![LiquidNonFungibleVault { amount: Decimal::ONE }, LiquidNonFungibleVault { amount: Decimal::ZERO }]);
    r.ty::<ConsensusManagerConfig>("ConsensusManagerConfig", vec![ConsensusManagerConfig::test_default(), ConsensusManagerConfig::mainnet_genesis()]);
    r.ty::<EpochChangeCondition>("EpochChangeCondition", vec![EpochChangeCondition { min_round_count: 0, max_round_count: u64::MAX, target_duration_millis: 1 }]);
    r.ty::<fungible_vault::DepositEvent>("FungibleVault::DepositEvent", decs().into_iter().map(fungible_vault::DepositEvent::new).collect());
    r.ty::<fungible_vault::WithdrawEvent>("FungibleVault::WithdrawEvent", decs().into_iter().map(fungible_vault::WithdrawEvent::new).collect());
    r.ty::<non_fungible_vault::DepositEvent>("NonFungibleVault::DepositEvent", vec![non_fungible_vault::DepositEvent::new(nfls().into_iter().collect()), non_fungible_vault::DepositEvent::new(Default::default())]);
    r.ty::<VaultCreationEvent>("VaultCreationEvent", vec![VaultCreationEvent { vault_id: node(EntityType::InternalFungibleVault, 8) }]);
    r.ty::<MintFungibleResourceEvent>("MintFungibleResourceEvent", decs().into_iter().map(|amount| MintFungibleResourceEvent { amount }).collect());
    r.ty::<radix_engine::transaction::CostingParameters>("CostingParameters", vec![radix_engine::transaction::CostingParameters::babylon_genesis()]);
    r.ty::<radix_engine::transaction::FeeLocks>("FeeLocks", vec![radix_engine::transaction::FeeLocks::default(), radix_engine::transaction::FeeLocks { lock: Decimal::ONE, contingent_lock: Decimal::MAX }]);
    // std composites over Scrypto types: every composite kind
    r.ty::<BTreeMap<String, Vec<u8>>>("BTreeMap<String,Vec<u8>>", vec![BTreeMap::new(), [("a".to_string(), vec![1u8, 2]), ("".to_string(), vec![])].into_iter().collect()]);
    r.ty::<Option<(u8, String)>>("Option<(u8,String)>", vec![None, Some((0, "".to_string())), Some((255, "xyz".to_string()))]);
    r.ty::<Vec<Option<Decimal>>>("Vec<Option<Decimal>>", vec![vec![], vec![None, Some(Decimal::ONE), None]]);
    r.ty::<IndexMap<NonFungibleLocalId, Own>>("IndexMap<NonFungibleLocalId,Own>", vec![IndexMap::new(), nfls().into_iter().map(|l| (l, Own(node(EntityType::InternalFungibleVault, 1)))).collect()]);
    r.ty::<[u16; 3]>("[u16;3]", vec![[0, 1, u16::MAX]]);
    r.ty::<Result<u128, i128>>("Result<u128,i128>", vec![Ok(u128::MAX), Ok(0), Err(i128::MIN), Err(i128::MAX)]);
    r.ty::<Vec<Vec<(bool, ())>>>("Vec<Vec<(bool,())>>", vec![vec![], vec![vec![], vec![(true, ()), (false, ())]]]);
    r.ty::<AllPrimitives>("AllPrimitives", vec![
        AllPrimitives { a: true, b: i8::MIN, c: i16::MAX, d: i32::MIN, e: i64::MAX, f: i128::MIN, g: u8::MAX, h: 0, i: u32::MAX, j: u64::MAX, k: u128::MAX, l: "s\u{20ac}".to_string(), m: (), n: (1, "t".to_string()), o: None },
        AllPrimitives { a: false, b: 0, c: 0, d: 0, e: 0, f: i128::MAX, g: 0, h: u16::MAX, i: 0, j: 0, k: 0, l: String::new(), m: (), n: (0, String::new()),
            o: Some(Box::new(AllPrimitivesInner::Named { x: 9, y: vec!["p".to_string(), "q".to_string()] })) },
        AllPrimitives { a: false, b: 1, c: 1, d: 1, e: 1, f: 1, g: 1, h: 1, i: 1, j: 1, k: 1, l: "x".to_string(), m: (), n: (0, String::new()),
            o: Some(Box::new(AllPrimitivesInner::Tuple(-5, [(1u16, true), (2u16, false)].into_iter().collect()))) },
        AllPrimitives { a: false, b: 1, c: 1, d: 1, e: 1, f: 1, g: 1, h: 1, i: 1, j: 1, k: 1, l: "x".to_string(), m: (), n: (0, String::new()),
            o: Some(Box::new(AllPrimitivesInner::Far(vec![0, 255, 7]))) },
        AllPrimitives { a: false, b: 1, c: 1, d: 1, e: 1, f: 1, g: 1, h: 1, i: 1, j: 1, k: 1, l: "x".to_string(), m: (), n: (0, String::new()), o: Some(Box::new(AllPrimitivesInner::Unit)) },
    ]);
}

pub fn run(args: &Args) {
    let path = args.str("schemas", "");
    if path.is_empty() {
        eprintln!("schemas=<path> required");
        std::process::exit(2);
    }
    let mut r = Run {
        out: Out::new(),
        schemas: std::io::BufWriter::new(std::fs::File::create(&path).expect("schemas file")),
        nschemas: 0,
        mutants: args.u64("mutants", 20) as usize,
        rng: StdRng::seed_from_u64(args.u64("seed", 1)),
        max_payload: args.u64("max_payload", 2048) as usize,
        skipped_large: 0,
    };
    instances(&mut r);
    if args.u64("harvest", 0) == 1 {
        crate::harvest::run(&mut r);
    }
    r.schemas.flush().unwrap();
    let (n, s) = (r.nschemas, r.skipped_large);
    r.out.emit(&json!({"end": true, "types": n, "skipped_large": s}));
    r.out.flush();
}

// make `Run::ty` reachable from the harvest module
pub(crate) type TypeRun = Run;
impl Run {
    pub(crate) fn payloads<T: ScryptoDecode + ScryptoEncode + ScryptoDescribe + PartialEq>(&mut self, name: &str, payloads: Vec<Vec<u8>>) {
        // harvested payloads: typed-decode first (skip what is not of this type), then treat the
        // decoded value as an instance
        let values: Vec<T> = payloads.iter().filter_map(|p| scrypto_decode::<T>(p).ok()).collect();
        if !values.is_empty() {
            self.ty::<T>(name, values);
        }
    }
}

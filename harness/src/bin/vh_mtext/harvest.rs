//! C22, T — event payloads harvested from the executed transaction scenarios, typed-decoded
//! into the engine's event types and pushed through the same observation loop as built values.
use crate::types::TypeRun;
use radix_common::prelude::*;
use radix_engine::blueprints::consensus_manager::*;
use radix_engine::blueprints::resource::*;
use radix_substate_store_impls::memory_db::InMemorySubstateDatabase;
use radix_transaction_scenarios::executor::*;
use std::cell::RefCell;
use std::collections::BTreeMap as Map;
use std::rc::Rc;

struct Hooks {
    events: Rc<RefCell<Map<String, Vec<Vec<u8>>>>>,
}
impl<S: radix_substate_store_interface::interface::SubstateDatabase> ScenarioExecutionHooks<S> for Hooks {
    fn on_transaction_executed(&mut self, event: OnScenarioTransactionExecuted<S>) {
        if let radix_engine::transaction::TransactionResult::Commit(c) = &event.receipt.result {
            for (id, payload) in c.application_events.iter() {
                let mut m = self.events.borrow_mut();
                let v = m.entry(id.1.clone()).or_default();
                if v.len() < 40 && !v.contains(payload) {
                    v.push(payload.clone());
                }
            }
        }
    }
}

pub fn run(r: &mut TypeRun) {
    let events = Rc::new(RefCell::new(Map::new()));
    TransactionScenarioExecutor::new(InMemorySubstateDatabase::standard(), NetworkDefinition::simulator())
        .execute_every_protocol_update_and_scenario(&mut Hooks { events: events.clone() })
        .expect("scenarios execute");
    let ev = events.borrow();
    let get = |n: &str| ev.get(n).cloned().unwrap_or_default();
    r.payloads::<fungible_vault::DepositEvent>("harvest:FungibleVault::DepositEvent", get("DepositEvent"));
    r.payloads::<non_fungible_vault::DepositEvent>("harvest:NonFungibleVault::DepositEvent", get("DepositEvent"));
    r.payloads::<fungible_vault::WithdrawEvent>("harvest:FungibleVault::WithdrawEvent", get("WithdrawEvent"));
    r.payloads::<non_fungible_vault::WithdrawEvent>("harvest:NonFungibleVault::WithdrawEvent", get("WithdrawEvent"));
    r.payloads::<fungible_vault::LockFeeEvent>("harvest:FungibleVault::LockFeeEvent", get("LockFeeEvent"));
    r.payloads::<fungible_vault::PayFeeEvent>("harvest:FungibleVault::PayFeeEvent", get("PayFeeEvent"));
    r.payloads::<VaultCreationEvent>("harvest:VaultCreationEvent", get("VaultCreationEvent"));
    r.payloads::<MintFungibleResourceEvent>("harvest:MintFungibleResourceEvent", get("MintFungibleResourceEvent"));
    r.payloads::<BurnFungibleResourceEvent>("harvest:BurnFungibleResourceEvent", get("BurnFungibleResourceEvent"));
    r.payloads::<MintNonFungibleResourceEvent>("harvest:MintNonFungibleResourceEvent", get("MintNonFungibleResourceEvent"));
    r.payloads::<BurnNonFungibleResourceEvent>("harvest:BurnNonFungibleResourceEvent", get("BurnNonFungibleResourceEvent"));
    r.payloads::<RoundChangeEvent>("harvest:RoundChangeEvent", get("RoundChangeEvent"));
    r.payloads::<EpochChangeEvent>("harvest:EpochChangeEvent", get("EpochChangeEvent"));
}

//! C22 / C23 — binding of spec/SborSchema to the real SBOR schema code.
//!
//! mode `compare`  (C23): stdin = schema pairs printed by GenSborSchema; builds both real basic
//!                 schemas, checks they are valid schemas, runs compare_single_type_schemas with
//!                 require_equality() and allow_extension(); stdout = the pair + verdicts.
//! mode `validate` (C22, G): stdin = {"schema":..,"root":..,"x": value tree,"exp": bool}; builds
//!                 the real schema and a real basic SBOR payload for the tree, runs
//!                 validate_payload_against_schema; mismatch lines where verdict != exp.
//! mode `types`    (C22, T): see types.rs (engine types, Scrypto schema).
use crate::lex::unexpand;
use sbor::basic_well_known_types::*;
use sbor::prelude::*;
use sbor::schema::*;
use sbor::*;
use serde_json::{json, Value as J};
use vh::util::*;
use vh::Args;

pub type BS = NoCustomSchema;

pub fn big_to_u128(v: &J) -> Option<u128> {
    // [s, l]: sign and limbs base 10^4 little endian
    let mut x: u128 = 0;
    for limb in v["l"].as_array()?.iter().rev() {
        x = x.checked_mul(10000)?.checked_add(limb.as_u64()? as u128)?;
    }
    Some(x)
}
fn bound_u128(b: &J) -> Option<u128> {
    if b["some"].as_bool() == Some(true) {
        big_to_u128(b)
    } else {
        None
    }
}
fn bound_i128(b: &J) -> Option<i128> {
    if b["some"].as_bool() == Some(true) {
        let m = big_to_u128(b)? as i128;
        Some(if b["s"].as_i64() == Some(-1) { -m } else { m })
    } else {
        None
    }
}

fn type_ref(n: i64) -> LocalTypeId {
    match n {
        0 => LocalTypeId::WellKnown(ANY_TYPE),
        -1 => LocalTypeId::WellKnown(BOOL_TYPE),
        -2 => LocalTypeId::WellKnown(U8_TYPE),
        -3 => LocalTypeId::WellKnown(STRING_TYPE),
        -4 => LocalTypeId::WellKnown(UNIT_TYPE),
        n if n >= 1 => LocalTypeId::SchemaLocalIndex((n - 1) as usize),
        _ => panic!("unknown well-known reference {}", n),
    }
}
fn refs(v: &J) -> Vec<LocalTypeId> {
    v.as_array().unwrap().iter().map(|x| type_ref(x.as_i64().unwrap())).collect()
}
fn cow(s: &str) -> Cow<'static, str> {
    Cow::Owned(s.to_string())
}

macro_rules! numeric {
    ($d:expr, $variant:ident, $ty:ty, $conv:ident) => {{
        let lo = $conv(&$d["lo"]).map(|x| x as $ty);
        let hi = $conv(&$d["hi"]).map(|x| x as $ty);
        if lo.is_none() && hi.is_none() {
            TypeValidation::None
        } else {
            TypeValidation::$variant(NumericValidation::with_bounds(lo, hi))
        }
    }};
}
fn length(d: &J) -> Option<LengthValidation> {
    let lo = bound_u128(&d["lo"]).map(|x| x as u32);
    let hi = bound_u128(&d["hi"]).map(|x| x as u32);
    if lo.is_none() && hi.is_none() {
        None
    } else {
        Some(LengthValidation { min: lo, max: hi })
    }
}

/// schema JSON (sequence of uniform definitions) -> real basic schema
pub fn build_basic(s: &J) -> VersionedSchema<BS> {
    let mut kinds: Vec<LocalTypeKind<BS>> = Vec::new();
    let mut metas: Vec<TypeMetadata> = Vec::new();
    let mut vals: Vec<TypeValidation<NoCustomTypeValidation>> = Vec::new();
    for (i, d) in s.as_array().unwrap().iter().enumerate() {
        let name = d["nm"].as_str().unwrap_or("");
        let type_name = if name.is_empty() { None } else { Some(cow(name)) };
        let k = d["k"].as_str().unwrap();
        let (kind, meta, val): (LocalTypeKind<BS>, TypeMetadata, TypeValidation<NoCustomTypeValidation>) = match k {
            "Any" => (TypeKind::Any, TypeMetadata { type_name, child_names: None }, TypeValidation::None),
            "Bool" => (TypeKind::Bool, TypeMetadata { type_name, child_names: None }, TypeValidation::None),
            "I8" => (TypeKind::I8, TypeMetadata { type_name, child_names: None }, numeric!(d, I8, i8, bound_i128)),
            "I16" => (TypeKind::I16, TypeMetadata { type_name, child_names: None }, numeric!(d, I16, i16, bound_i128)),
            "I32" => (TypeKind::I32, TypeMetadata { type_name, child_names: None }, numeric!(d, I32, i32, bound_i128)),
            "I64" => (TypeKind::I64, TypeMetadata { type_name, child_names: None }, numeric!(d, I64, i64, bound_i128)),
            "I128" => (TypeKind::I128, TypeMetadata { type_name, child_names: None }, numeric!(d, I128, i128, bound_i128)),
            "U8" => (TypeKind::U8, TypeMetadata { type_name, child_names: None }, numeric!(d, U8, u8, bound_u128)),
            "U16" => (TypeKind::U16, TypeMetadata { type_name, child_names: None }, numeric!(d, U16, u16, bound_u128)),
            "U32" => (TypeKind::U32, TypeMetadata { type_name, child_names: None }, numeric!(d, U32, u32, bound_u128)),
            "U64" => (TypeKind::U64, TypeMetadata { type_name, child_names: None }, numeric!(d, U64, u64, bound_u128)),
            "U128" => (TypeKind::U128, TypeMetadata { type_name, child_names: None }, numeric!(d, U128, u128, bound_u128)),
            "String" => (TypeKind::String, TypeMetadata { type_name, child_names: None }, length(d).map(TypeValidation::String).unwrap_or(TypeValidation::None)),
            "Array" => (TypeKind::Array { element_type: refs(&d["c"])[0] }, TypeMetadata { type_name, child_names: None }, length(d).map(TypeValidation::Array).unwrap_or(TypeValidation::None)),
            "Map" => {
                let r = refs(&d["c"]);
                (TypeKind::Map { key_type: r[0], value_type: r[1] }, TypeMetadata { type_name, child_names: None }, length(d).map(TypeValidation::Map).unwrap_or(TypeValidation::None))
            }
            "Tuple" => {
                let r = refs(&d["c"]);
                let f = d["fn"].as_array().unwrap();
                let child_names = if !f.is_empty() && f.len() == r.len() {
                    Some(ChildNames::NamedFields(f.iter().map(|x| cow(x.as_str().unwrap())).collect()))
                } else {
                    None
                };
                (TypeKind::Tuple { field_types: r }, TypeMetadata { type_name, child_names }, TypeValidation::None)
            }
            "Enum" => {
                let mut variants: IndexMap<u8, Vec<LocalTypeId>> = IndexMap::new();
                let mut names: IndexMap<u8, TypeMetadata> = IndexMap::new();
                for v in d["v"].as_array().unwrap() {
                    let disc = v["d"].as_u64().unwrap() as u8;
                    variants.insert(disc, refs(&v["f"]));
                    let vn = v["nm"].as_str().unwrap_or("");
                    // variant names must be present and unique in a valid schema
                    let vn = if vn.is_empty() || names.values().any(|m| m.type_name.as_deref() == Some(vn)) { format!("{}V{}", vn, disc) } else { vn.to_string() };
                    names.insert(disc, TypeMetadata { type_name: Some(cow(&vn)), child_names: None });
                }
                let tn = type_name.unwrap_or_else(|| cow(&format!("Enum{}", i)));
                (TypeKind::Enum { variants }, TypeMetadata { type_name: Some(tn), child_names: Some(ChildNames::EnumVariants(names)) }, TypeValidation::None)
            }
            k => panic!("unknown kind {}", k),
        };
        kinds.push(kind);
        metas.push(meta);
        vals.push(val);
    }
    SchemaV1 { type_kinds: kinds, type_metadata: metas, type_validations: vals }.into()
}

fn compare(pairs: Vec<J>) {
    let mut o = Out::new();
    for (i, p) in pairs.iter().enumerate() {
        let base = build_basic(&p["base"]["s"]);
        let new = build_basic(&p["new"]["s"]);
        let v1 = validate_schema(base.v1()).is_ok();
        let v2 = validate_schema(new.v1()).is_ok();
        let b = SingleTypeSchema::<BS>::new(base, type_ref(p["base"]["root"].as_i64().unwrap()));
        let n = SingleTypeSchema::<BS>::new(new, type_ref(p["new"]["root"].as_i64().unwrap()));
        let eq = catch(|| compare_single_type_schemas::<BS>(&SchemaComparisonSettings::require_equality(), &b, &n).is_valid());
        let ext = catch(|| compare_single_type_schemas::<BS>(&SchemaComparisonSettings::allow_extension(), &b, &n).is_valid());
        // the same with name changes allowed (names never influence payload validity)
        let eqn = catch(|| compare_single_type_schemas::<BS>(&SchemaComparisonSettings::require_equality().allow_all_name_changes(), &b, &n).is_valid());
        let extn = catch(|| compare_single_type_schemas::<BS>(&SchemaComparisonSettings::allow_extension().allow_all_name_changes(), &b, &n).is_valid());
        let cls = |r: &Result<bool, String>| match r {
            Ok(true) => "valid",
            Ok(false) => "invalid",
            Err(_) => "panic",
        };
        o.emit(&json!({"i": i, "base": p["base"], "new": p["new"], "schemas_valid": [v1, v2],
                       "eq": cls(&eq), "ext": cls(&ext), "eqn": cls(&eqn), "extn": cls(&extn)}));
    }
    o.flush();
}

// ---------------------------------------------------------------------------------------------
// value tree -> real basic SBOR value

fn value_kind(name: &str) -> ValueKind<NoCustomValueKind> {
    match name {
        "Bool" => ValueKind::Bool,
        "I8" => ValueKind::I8,
        "I16" => ValueKind::I16,
        "I32" => ValueKind::I32,
        "I64" => ValueKind::I64,
        "I128" => ValueKind::I128,
        "U8" => ValueKind::U8,
        "U16" => ValueKind::U16,
        "U32" => ValueKind::U32,
        "U64" => ValueKind::U64,
        "U128" => ValueKind::U128,
        "String" => ValueKind::String,
        "Enum" => ValueKind::Enum,
        "Array" => ValueKind::Array,
        "Tuple" => ValueKind::Tuple,
        "Map" => ValueKind::Map,
        k => panic!("unknown value kind {}", k),
    }
}
pub fn basic_value(x: &J) -> BasicValue {
    let kids = || -> Vec<BasicValue> { x["c"].as_array().unwrap().iter().map(basic_value).collect() };
    let num = || -> i128 {
        let m = big_to_u128(&x["n"]).unwrap() as i128;
        if x["n"]["s"].as_i64() == Some(-1) { -m } else { m }
    };
    match x["k"].as_str().unwrap() {
        "Bool" => Value::Bool { value: true },
        "I8" => Value::I8 { value: num() as i8 },
        "I16" => Value::I16 { value: num() as i16 },
        "I32" => Value::I32 { value: num() as i32 },
        "I64" => Value::I64 { value: num() as i64 },
        "I128" => Value::I128 { value: num() },
        "U8" => Value::U8 { value: num() as u8 },
        "U16" => Value::U16 { value: num() as u16 },
        "U32" => Value::U32 { value: num() as u32 },
        "U64" => Value::U64 { value: num() as u64 },
        "U128" => Value::U128 { value: big_to_u128(&x["n"]).unwrap() },
        "String" => Value::String { value: "s".repeat(x["len"].as_u64().unwrap() as usize) },
        "Tuple" => Value::Tuple { fields: kids() },
        "Enum" => Value::Enum { discriminator: x["d"].as_u64().unwrap() as u8, fields: kids() },
        "Array" => Value::Array { element_value_kind: value_kind(x["ek"].as_str().unwrap()), elements: kids() },
        "Map" => {
            let mut entries = Vec::new();
            let mut it = kids().into_iter();
            while let (Some(k), Some(v)) = (it.next(), it.next()) {
                entries.push((k, v));
            }
            Value::Map { key_value_kind: value_kind(x["ek"].as_str().unwrap()), value_value_kind: value_kind(x["vk"].as_str().unwrap()), entries }
        }
        k => panic!("unknown value kind {}", k),
    }
}

fn validate(cases: Vec<J>) {
    let mut o = Out::new();
    let mut steps = 0usize;
    // consecutive cases usually share the schema: build once
    let mut last: Option<(String, VersionedSchema<BS>)> = None;
    for (i, c) in cases.iter().enumerate() {
        let key = c["schema"].to_string();
        if last.as_ref().map(|(k, _)| k != &key).unwrap_or(true) {
            let s = build_basic(&c["schema"]);
            if validate_schema(s.v1()).is_err() {
                o.mismatch(i, 0, "schema-not-valid", json!(true), json!(false));
            }
            last = Some((key, s));
        }
        let schema = &last.as_ref().unwrap().1;
        let v = basic_value(&c["x"]);
        let payload = basic_encode(&v).expect("encodable value");
        let got = catch(|| {
            validate_payload_against_schema::<NoCustomExtension, ()>(&payload, schema.v1(), type_ref(c["root"].as_i64().unwrap()), &(), 64).is_ok()
        });
        steps += 1;
        let exp = c["exp"].as_bool().unwrap();
        match got {
            Ok(g) if g == exp => {}
            Ok(g) => o.mismatch(i, 0, "validator-verdict", json!(exp), json!(g)),
            Err(p) => o.mismatch(i, 0, "validator-panic", json!(exp), json!(unexpand(&p))),
        }
    }
    o.done(cases.len(), steps);
}

pub fn run(mode: &str, args: &Args) {
    match mode {
        "compare" => compare(read_lines()),
        "validate" => validate(read_lines()),
        "types" => crate::types::run(args),
        m => {
            eprintln!("unknown mode {}", m);
            std::process::exit(2);
        }
    }
}

//! C30 — binding of spec/ManifestText (abstract syntax layer, ManifestAst.tla) to the real
//! decompiler and compiler.
//!
//! mode `run`    : stdin = cases printed by GenManifestAst; for every manifest kind of the case's
//!                 family the harness builds the real manifest object from the abstract
//!                 instructions (direct instruction structs), calls decompile, compiles the text
//!                 with the same network and blob provider and records what it sees (equalities,
//!                 the object names of the compiled manifest); TraceManifestAst decides.
//! mode `corpus` : stdin = {"files":[...]}; every .rtm compiled (all kinds) -> decompile -> compile.
//! mode `scenarios` : runs the transaction scenarios, every executed transaction's manifest(s)
//!                 through decompile -> compile.
//!
//! Concretisation of the symbolic atoms of the specification (fixed mapping, see `addr`, `dec`,
//! `int_value`, `nfl`): the specification chooses shapes and classes, the harness picks the
//! documented representative.
use crate::lex::{expand, unexpand};
use radix_common::prelude::*;
use radix_engine_interface::prelude::*;
use radix_transactions::manifest::*;
use radix_transactions::prelude::*;
use serde_json::{json, Value as J};
use vh::util::*;
use vh::Args;

type MV = ManifestValue;

fn js<'a>(v: &'a J, k: &str) -> &'a str {
    v[k].as_str().unwrap_or("")
}
fn jn(v: &J, k: &str) -> i64 {
    v[k].as_i64().unwrap_or(0)
}

// ---------------------------------------------------------------------------------------------
// symbolic atoms -> concrete values

fn node(entity: EntityType, fill: u8) -> NodeId {
    let mut b = [fill; NodeId::LENGTH];
    b[0] = entity as u8;
    for i in 1..NodeId::LENGTH {
        b[i] = fill.wrapping_mul(i as u8).wrapping_add(7 * i as u8);
    }
    NodeId(b)
}

/// static address classes
fn addr(tag: &str) -> NodeId {
    match tag {
        "xrd" => XRD.into_node_id(),
        "res2" => node(EntityType::GlobalFungibleResourceManager, 3),
        "nfres" => node(EntityType::GlobalNonFungibleResourceManager, 5),
        "account" => node(EntityType::GlobalAccount, 9),
        "vaccount" => node(EntityType::GlobalPreallocatedEd25519Account, 11),
        "identity" => node(EntityType::GlobalIdentity, 13),
        "package" => PACKAGE_PACKAGE.into_node_id(),
        "package2" => node(EntityType::GlobalPackage, 17),
        "accountpkg" => ACCOUNT_PACKAGE.into_node_id(),
        "identitypkg" => IDENTITY_PACKAGE.into_node_id(),
        "acpkg" => ACCESS_CONTROLLER_PACKAGE.into_node_id(),
        "resourcepkg" => RESOURCE_PACKAGE.into_node_id(),
        "faucet" => FAUCET.into_node_id(),
        "component" => node(EntityType::GlobalGenericComponent, 19),
        "consensus" => CONSENSUS_MANAGER.into_node_id(),
        "validator" => node(EntityType::GlobalValidator, 23),
        "accesscontroller" => node(EntityType::GlobalAccessController, 29),
        "pool" => node(EntityType::GlobalOneResourcePool, 31),
        "locker" => node(EntityType::GlobalAccountLocker, 37),
        "vault" => node(EntityType::InternalFungibleVault, 41),
        "nfvault" => node(EntityType::InternalNonFungibleVault, 43),
        "kvstore" => node(EntityType::InternalKeyValueStore, 47),
        "internal" => node(EntityType::InternalGenericComponent, 53),
        // not an entity type at all (only ever used inside free argument values)
        "badentity" => NodeId([0u8; NodeId::LENGTH]),
        t => panic!("unknown address tag {}", t),
    }
}
fn res(tag: &str) -> ResourceAddress {
    ResourceAddress::try_from(addr(tag).0.as_ref()).expect("resource tag")
}
fn pkg(tag: &str) -> PackageAddress {
    PackageAddress::try_from(addr(tag).0.as_ref()).expect("package tag")
}
fn global(tag: &str) -> GlobalAddress {
    GlobalAddress::try_from(addr(tag).0.as_ref()).expect("global tag")
}
fn internal(tag: &str) -> InternalAddress {
    InternalAddress::try_from(addr(tag).0.as_ref()).expect("internal tag")
}

fn dec(tag: &str) -> Decimal {
    match tag {
        "zero" => Decimal::ZERO,
        "one" => Decimal::ONE,
        "neg_one" => -Decimal::ONE,
        "max" => Decimal::MAX,
        "min" => Decimal::MIN,
        "smallest" => Decimal::from_attos(I192::ONE),
        "neg_smallest" => Decimal::from_attos(-I192::ONE),
        "frac" => Decimal::from_attos(I192::from(1234567890123456789i128)),
        "big_frac" => Decimal::MAX.checked_sub(Decimal::ONE).unwrap(),
        t => panic!("unknown decimal tag {}", t),
    }
}
fn pdec(tag: &str) -> PreciseDecimal {
    match tag {
        "zero" => PreciseDecimal::ZERO,
        "one" => PreciseDecimal::ONE,
        "neg_one" => -PreciseDecimal::ONE,
        "max" => PreciseDecimal::MAX,
        "min" => PreciseDecimal::MIN,
        "smallest" => PreciseDecimal::from_precise_subunits(I256::ONE),
        "neg_smallest" => PreciseDecimal::from_precise_subunits(-I256::ONE),
        "frac" => PreciseDecimal::from_precise_subunits(I256::from(123456789012345678901234567890123456i128)),
        t => panic!("unknown precise decimal tag {}", t),
    }
}
fn nfl(tag: &str) -> NonFungibleLocalId {
    match tag {
        "int0" => NonFungibleLocalId::integer(0),
        "int1" => NonFungibleLocalId::integer(1),
        "intmax" => NonFungibleLocalId::integer(u64::MAX),
        "str" => NonFungibleLocalId::string("abc_XYZ_09").unwrap(),
        "str1" => NonFungibleLocalId::string("a").unwrap(),
        "str64" => NonFungibleLocalId::string("a".repeat(64)).unwrap(),
        "bytes" => NonFungibleLocalId::bytes(vec![0u8, 255, 16]).unwrap(),
        "bytes64" => NonFungibleLocalId::bytes(vec![0xabu8; 64]).unwrap(),
        "ruid" => NonFungibleLocalId::ruid([0x5au8; 32]),
        "ruid0" => NonFungibleLocalId::ruid([0u8; 32]),
        t => panic!("unknown non-fungible local id tag {}", t),
    }
}
fn mnfl(tag: &str) -> ManifestNonFungibleLocalId {
    radix_transactions::data::from_non_fungible_local_id(nfl(tag))
}
pub fn blob_content(i: i64) -> Vec<u8> {
    vec![(i as u8).wrapping_mul(37).wrapping_add(1); (i as usize) * 3 + 1]
}

fn value_kind(name: &str) -> ManifestValueKind {
    match name {
        "Bool" => ValueKind::Bool,
        "I8" => ValueKind::I8,
        "I16" => ValueKind::I16,
        "I32" => ValueKind::I32,
        "I64" => ValueKind::I64,
        "I128" => ValueKind::I128,
        "U8" => ValueKind::U8,
        "U16" => ValueKind::U16,
        "U32" => ValueKind::U32,
        "U64" => ValueKind::U64,
        "U128" => ValueKind::U128,
        "String" => ValueKind::String,
        "Enum" => ValueKind::Enum,
        "Array" => ValueKind::Array,
        "Tuple" => ValueKind::Tuple,
        "Map" => ValueKind::Map,
        "Address" | "NamedAddress" => ValueKind::Custom(ManifestCustomValueKind::Address),
        "Bucket" => ValueKind::Custom(ManifestCustomValueKind::Bucket),
        "Proof" => ValueKind::Custom(ManifestCustomValueKind::Proof),
        "Expression" => ValueKind::Custom(ManifestCustomValueKind::Expression),
        "Blob" => ValueKind::Custom(ManifestCustomValueKind::Blob),
        "Decimal" => ValueKind::Custom(ManifestCustomValueKind::Decimal),
        "PreciseDecimal" => ValueKind::Custom(ManifestCustomValueKind::PreciseDecimal),
        "NonFungibleLocalId" => ValueKind::Custom(ManifestCustomValueKind::NonFungibleLocalId),
        "AddressReservation" => ValueKind::Custom(ManifestCustomValueKind::AddressReservation),
        t => panic!("unknown value kind {}", t),
    }
}

macro_rules! int_leaf {
    ($v:expr, $ty:ty, $variant:ident) => {{
        let x: $ty = match js($v, "s") {
            "min" => <$ty>::MIN,
            "max" => <$ty>::MAX,
            _ => jn($v, "n") as $ty,
        };
        Value::$variant { value: x }
    }};
}

/// abstract value tree {"t","s","n","k"} -> ManifestValue
pub fn value(v: &J) -> MV {
    let kids = || -> Vec<MV> { v["k"].as_array().map(|a| a.iter().map(value).collect()).unwrap_or_default() };
    let custom = |c: ManifestCustomValue| Value::Custom { value: c };
    match js(v, "t") {
        "Bool" => Value::Bool { value: jn(v, "n") != 0 },
        "I8" => int_leaf!(v, i8, I8),
        "I16" => int_leaf!(v, i16, I16),
        "I32" => int_leaf!(v, i32, I32),
        "I64" => int_leaf!(v, i64, I64),
        "I128" => int_leaf!(v, i128, I128),
        "U8" => int_leaf!(v, u8, U8),
        "U16" => int_leaf!(v, u16, U16),
        "U32" => int_leaf!(v, u32, U32),
        "U64" => int_leaf!(v, u64, U64),
        "U128" => int_leaf!(v, u128, U128),
        "String" => Value::String { value: expand(js(v, "s")) },
        "Tuple" => Value::Tuple { fields: kids() },
        "Enum" => Value::Enum { discriminator: jn(v, "n") as u8, fields: kids() },
        "Array" => Value::Array { element_value_kind: value_kind(js(v, "s")), elements: kids() },
        "Map" => {
            let (a, b) = js(v, "s").split_once(',').expect("map kinds");
            let ks = kids();
            let mut entries = Vec::new();
            let mut it = ks.into_iter();
            while let (Some(k), Some(x)) = (it.next(), it.next()) {
                entries.push((k, x));
            }
            Value::Map { key_value_kind: value_kind(a), value_value_kind: value_kind(b), entries }
        }
        "Address" => custom(ManifestCustomValue::Address(ManifestAddress::Static(addr(js(v, "s"))))),
        "NamedAddress" => custom(ManifestCustomValue::Address(ManifestAddress::Named(ManifestNamedAddress(jn(v, "n") as u32)))),
        "Bucket" => custom(ManifestCustomValue::Bucket(ManifestBucket(jn(v, "n") as u32))),
        "Proof" => custom(ManifestCustomValue::Proof(ManifestProof(jn(v, "n") as u32))),
        "AddressReservation" => custom(ManifestCustomValue::AddressReservation(ManifestAddressReservation(jn(v, "n") as u32))),
        "Expression" => custom(ManifestCustomValue::Expression(match js(v, "s") {
            "ENTIRE_WORKTOP" => ManifestExpression::EntireWorktop,
            _ => ManifestExpression::EntireAuthZone,
        })),
        "Blob" => custom(ManifestCustomValue::Blob(ManifestBlobRef(hash(blob_content(jn(v, "n"))).0))),
        "Decimal" => custom(ManifestCustomValue::Decimal(radix_transactions::data::from_decimal(dec(js(v, "s"))))),
        "PreciseDecimal" => custom(ManifestCustomValue::PreciseDecimal(radix_transactions::data::from_precise_decimal(pdec(js(v, "s"))))),
        "NonFungibleLocalId" => custom(ManifestCustomValue::NonFungibleLocalId(mnfl(js(v, "s")))),
        // nest(n, leaf): the only child wrapped in n single-field tuples (depth boundary shapes)
        "Nest" => {
            let mut x = kids().into_iter().next().expect("nest child");
            for i in 0..jn(v, "n") {
                x = match i % 3 {
                    0 => Value::Tuple { fields: vec![x] },
                    1 => Value::Enum { discriminator: 1, fields: vec![x] },
                    _ => Value::Array { element_value_kind: kind_of(&x), elements: vec![x] },
                };
            }
            x
        }
        t => panic!("unknown value tag {}", t),
    }
}
fn kind_of(v: &MV) -> ManifestValueKind {
    match v {
        Value::Bool { .. } => ValueKind::Bool,
        Value::I8 { .. } => ValueKind::I8,
        Value::I16 { .. } => ValueKind::I16,
        Value::I32 { .. } => ValueKind::I32,
        Value::I64 { .. } => ValueKind::I64,
        Value::I128 { .. } => ValueKind::I128,
        Value::U8 { .. } => ValueKind::U8,
        Value::U16 { .. } => ValueKind::U16,
        Value::U32 { .. } => ValueKind::U32,
        Value::U64 { .. } => ValueKind::U64,
        Value::U128 { .. } => ValueKind::U128,
        Value::String { .. } => ValueKind::String,
        Value::Enum { .. } => ValueKind::Enum,
        Value::Array { .. } => ValueKind::Array,
        Value::Tuple { .. } => ValueKind::Tuple,
        Value::Map { .. } => ValueKind::Map,
        Value::Custom { value } => ValueKind::Custom(value.get_custom_value_kind()),
    }
}

fn args_of(i: &J) -> MV {
    if i["raw"].as_bool() == Some(true) {
        // not a tuple: the single listed value IS the argument payload
        return value(&i["args"][0]);
    }
    Value::Tuple { fields: i["args"].as_array().map(|a| a.iter().map(value).collect()).unwrap_or_default() }
}
fn dyn_global(a: &J) -> ManifestGlobalAddress {
    if a["named"].as_i64().unwrap_or(-1) >= 0 {
        ManifestGlobalAddress::Named(ManifestNamedAddress(a["named"].as_u64().unwrap() as u32))
    } else {
        ManifestGlobalAddress::Static(global(a["static"].as_str().unwrap()))
    }
}
fn dyn_package(a: &J) -> ManifestPackageAddress {
    if a["named"].as_i64().unwrap_or(-1) >= 0 {
        ManifestPackageAddress::Named(ManifestNamedAddress(a["named"].as_u64().unwrap() as u32))
    } else {
        ManifestPackageAddress::Static(pkg(a["static"].as_str().unwrap()))
    }
}
fn ids_of(i: &J) -> Vec<NonFungibleLocalId> {
    i["ids"].as_array().map(|a| a.iter().map(|t| nfl(t.as_str().unwrap())).collect()).unwrap_or_default()
}
fn rule(tag: &str) -> AccessRule {
    match tag {
        "allow_all" => AccessRule::AllowAll,
        "deny_all" => AccessRule::DenyAll,
        "require" => rule!(require(XRD)),
        "require_nf" => rule!(require(NonFungibleGlobalId::new(res("nfres"), nfl("str")))),
        _ => rule!(require_any_of(vec![XRD, res("res2")]) && require_amount(dec("frac"), XRD)),
    }
}
fn constraint(tag: &str) -> ManifestResourceConstraint {
    match tag {
        "nonzero" => ManifestResourceConstraint::NonZeroAmount,
        "exact" => ManifestResourceConstraint::ExactAmount(dec("frac")),
        "atleast" => ManifestResourceConstraint::AtLeastAmount(dec("max")),
        "exact_nf" => ManifestResourceConstraint::ExactNonFungibles([nfl("int1"), nfl("str")].into_iter().collect()),
        "atleast_nf" => ManifestResourceConstraint::AtLeastNonFungibles([nfl("ruid")].into_iter().collect()),
        _ => ManifestResourceConstraint::General(GeneralResourceConstraint {
            required_ids: [nfl("bytes")].into_iter().collect(),
            lower_bound: LowerBound::Inclusive(dec("one")),
            upper_bound: UpperBound::Inclusive(dec("max")),
            allowed_ids: AllowedIds::Any,
        }),
    }
}
fn constraints(tag: &str) -> ManifestResourceConstraints {
    match tag {
        "empty" => ManifestResourceConstraints::new(),
        "one" => ManifestResourceConstraints::new().with_unchecked(XRD, constraint("exact")),
        "two" => ManifestResourceConstraints::new().with_unchecked(XRD, constraint("nonzero")).with_unchecked(res("nfres"), constraint("exact_nf")),
        _ => ManifestResourceConstraints::new().with_unchecked(res("nfres"), constraint("general")).with_unchecked(res("res2"), constraint("atleast")),
    }
}

/// abstract instruction -> the real instruction (as the all-instructions enum)
pub fn instruction(i: &J) -> AnyInstruction {
    let b = || ManifestBucket(jn(i, "bucket") as u32);
    let p = || ManifestProof(jn(i, "proof") as u32);
    match js(i, "op") {
        "TakeFromWorktop" => TakeFromWorktop { resource_address: res(js(i, "res")), amount: dec(js(i, "amt")) }.into(),
        "TakeNonFungiblesFromWorktop" => TakeNonFungiblesFromWorktop { resource_address: res(js(i, "res")), ids: ids_of(i) }.into(),
        "TakeAllFromWorktop" => TakeAllFromWorktop { resource_address: res(js(i, "res")) }.into(),
        "ReturnToWorktop" => ReturnToWorktop { bucket_id: b() }.into(),
        "BurnResource" => BurnResource { bucket_id: b() }.into(),
        "AssertWorktopContainsAny" => AssertWorktopContainsAny { resource_address: res(js(i, "res")) }.into(),
        "AssertWorktopContains" => AssertWorktopContains { resource_address: res(js(i, "res")), amount: dec(js(i, "amt")) }.into(),
        "AssertWorktopContainsNonFungibles" => AssertWorktopContainsNonFungibles { resource_address: res(js(i, "res")), ids: ids_of(i) }.into(),
        "AssertWorktopResourcesOnly" => AssertWorktopResourcesOnly { constraints: constraints(js(i, "cons")) }.into(),
        "AssertWorktopResourcesInclude" => AssertWorktopResourcesInclude { constraints: constraints(js(i, "cons")) }.into(),
        "AssertNextCallReturnsOnly" => AssertNextCallReturnsOnly { constraints: constraints(js(i, "cons")) }.into(),
        "AssertNextCallReturnsInclude" => AssertNextCallReturnsInclude { constraints: constraints(js(i, "cons")) }.into(),
        "AssertBucketContents" => AssertBucketContents { bucket_id: b(), constraint: constraint(js(i, "cons")) }.into(),
        "CreateProofFromBucketOfAmount" => CreateProofFromBucketOfAmount { bucket_id: b(), amount: dec(js(i, "amt")) }.into(),
        "CreateProofFromBucketOfNonFungibles" => CreateProofFromBucketOfNonFungibles { bucket_id: b(), ids: ids_of(i) }.into(),
        "CreateProofFromBucketOfAll" => CreateProofFromBucketOfAll { bucket_id: b() }.into(),
        "CreateProofFromAuthZoneOfAmount" => CreateProofFromAuthZoneOfAmount { resource_address: res(js(i, "res")), amount: dec(js(i, "amt")) }.into(),
        "CreateProofFromAuthZoneOfNonFungibles" => CreateProofFromAuthZoneOfNonFungibles { resource_address: res(js(i, "res")), ids: ids_of(i) }.into(),
        "CreateProofFromAuthZoneOfAll" => CreateProofFromAuthZoneOfAll { resource_address: res(js(i, "res")) }.into(),
        "CloneProof" => CloneProof { proof_id: p() }.into(),
        "DropProof" => DropProof { proof_id: p() }.into(),
        "PushToAuthZone" => PushToAuthZone { proof_id: p() }.into(),
        "PopFromAuthZone" => PopFromAuthZone.into(),
        "DropAuthZoneProofs" => DropAuthZoneProofs.into(),
        "DropAuthZoneRegularProofs" => DropAuthZoneRegularProofs.into(),
        "DropAuthZoneSignatureProofs" => DropAuthZoneSignatureProofs.into(),
        "DropNamedProofs" => DropNamedProofs.into(),
        "DropAllProofs" => DropAllProofs.into(),
        "CallFunction" => CallFunction { package_address: dyn_package(&i["addr"]), blueprint_name: expand(js(i, "bp")), function_name: expand(js(i, "fn")), args: args_of(i) }.into(),
        "CallMethod" => CallMethod { address: dyn_global(&i["addr"]), method_name: expand(js(i, "m")), args: args_of(i) }.into(),
        "CallRoyaltyMethod" => CallRoyaltyMethod { address: dyn_global(&i["addr"]), method_name: expand(js(i, "m")), args: args_of(i) }.into(),
        "CallMetadataMethod" => CallMetadataMethod { address: dyn_global(&i["addr"]), method_name: expand(js(i, "m")), args: args_of(i) }.into(),
        "CallRoleAssignmentMethod" => CallRoleAssignmentMethod { address: dyn_global(&i["addr"]), method_name: expand(js(i, "m")), args: args_of(i) }.into(),
        "CallDirectVaultMethod" => CallDirectVaultMethod { address: internal(js(&i["addr"], "static")), method_name: expand(js(i, "m")), args: args_of(i) }.into(),
        "AllocateGlobalAddress" => AllocateGlobalAddress { package_address: pkg(js(&i["addr"], "static")), blueprint_name: expand(js(i, "bp")) }.into(),
        "YieldToParent" => YieldToParent { args: args_of(i) }.into(),
        "YieldToChild" => YieldToChild { child_index: ManifestNamedIntentIndex(jn(i, "child") as u32), args: args_of(i) }.into(),
        "VerifyParent" => VerifyParent { access_rule: rule(js(i, "rule")) }.into(),
        t => panic!("unknown op {}", t),
    }
}

fn names_of(list: &J) -> Vec<String> {
    list.as_array().map(|a| a.iter().map(|s| expand(s.as_str().unwrap())).collect()).unwrap_or_default()
}

/// object names of the case: {"buckets":[..],"proofs":[..],"resv":[..],"addrs":[..],"intents":[..]}
fn object_names(case: &J) -> ManifestObjectNames {
    if js(case, "names") == "unknown" {
        return ManifestObjectNames::Unknown;
    }
    let n = &case["given"];
    ManifestObjectNames::Known(KnownManifestObjectNames {
        bucket_names: names_of(&n["buckets"]).into_iter().enumerate().map(|(i, s)| (ManifestBucket(i as u32), s)).collect(),
        proof_names: names_of(&n["proofs"]).into_iter().enumerate().map(|(i, s)| (ManifestProof(i as u32), s)).collect(),
        address_reservation_names: names_of(&n["resv"]).into_iter().enumerate().map(|(i, s)| (ManifestAddressReservation(i as u32), s)).collect(),
        address_names: names_of(&n["addrs"]).into_iter().enumerate().map(|(i, s)| (ManifestNamedAddress(i as u32), s)).collect(),
        intent_names: names_of(&n["intents"]).into_iter().enumerate().map(|(i, s)| (ManifestNamedIntent(i as u32), s)).collect(),
    })
}

fn blobs_of(case: &J) -> IndexMap<Hash, Vec<u8>> {
    (0..jn(case, "blobs")).map(|i| (hash(blob_content(i)), blob_content(i))).collect()
}
fn children_of(case: &J) -> IndexSet<ChildSubintentSpecifier> {
    (0..jn(case, "children")).map(|i| ChildSubintentSpecifier { hash: SubintentHash::from_hash(hash(format!("child{}", i))) }).collect()
}
fn prealloc_of(case: &J) -> Vec<PreAllocatedAddress> {
    let tags = ["component", "account", "res2"];
    (0..jn(case, "pre") as usize)
        .map(|i| PreAllocatedAddress {
            blueprint_id: BlueprintId { package_address: pkg(if i == 0 { "package" } else { "package2" }), blueprint_name: format!("Bp{}", i) },
            address: global(tags[i % 3]),
        })
        .collect()
}

fn build(case: &J, kind: &str) -> Result<AnyManifest, String> {
    let ins: Vec<AnyInstruction> = case["ins"].as_array().unwrap().iter().map(instruction).collect();
    let names = object_names(case);
    let blobs = blobs_of(case);
    Ok(match kind {
        "V1" | "SystemV1" => {
            let mut v1 = Vec::new();
            for i in ins {
                v1.push(InstructionV1::try_from(i).map_err(|_| "instruction not in V1".to_string())?);
            }
            if kind == "V1" {
                AnyManifest::V1(TransactionManifestV1 { instructions: v1, blobs, object_names: names })
            } else {
                AnyManifest::SystemV1(SystemTransactionManifestV1 { instructions: v1, blobs, preallocated_addresses: prealloc_of(case), object_names: names })
            }
        }
        "V2" => AnyManifest::V2(TransactionManifestV2 { instructions: ins, blobs, children: children_of(case), object_names: names }),
        _ => AnyManifest::SubintentV2(SubintentManifestV2 { instructions: ins, blobs, children: children_of(case), object_names: names }),
    })
}

fn kind_of_manifest(m: &AnyManifest) -> ManifestKind {
    match m {
        AnyManifest::V1(_) => ManifestKind::V1,
        AnyManifest::SystemV1(_) => ManifestKind::SystemV1,
        AnyManifest::V2(_) => ManifestKind::V2,
        AnyManifest::SubintentV2(_) => ManifestKind::SubintentV2,
    }
}

struct Parts {
    ins: Vec<u8>,
    blobs: Vec<(Hash, Vec<u8>)>,
    children: Vec<u8>,
    pre: Vec<u8>,
    names: ManifestObjectNames,
}
fn parts(m: &AnyManifest) -> Parts {
    match m {
        AnyManifest::V1(x) => Parts { ins: manifest_encode(&x.instructions).unwrap_or_default(), blobs: x.blobs.clone().into_iter().collect(), children: vec![], pre: vec![], names: x.object_names.clone() },
        AnyManifest::SystemV1(x) => Parts { ins: manifest_encode(&x.instructions).unwrap_or_default(), blobs: x.blobs.clone().into_iter().collect(), children: vec![], pre: manifest_encode(&x.preallocated_addresses).unwrap_or_default(), names: x.object_names.clone() },
        AnyManifest::V2(x) => Parts { ins: manifest_encode(&x.instructions).unwrap_or_default(), blobs: x.blobs.clone().into_iter().collect(), children: manifest_encode(&x.children).unwrap_or_default(), pre: vec![], names: x.object_names.clone() },
        AnyManifest::SubintentV2(x) => Parts { ins: manifest_encode(&x.instructions).unwrap_or_default(), blobs: x.blobs.clone().into_iter().collect(), children: manifest_encode(&x.children).unwrap_or_default(), pre: vec![], names: x.object_names.clone() },
    }
}
fn instructions_eq(a: &AnyManifest, b: &AnyManifest) -> bool {
    match (a, b) {
        (AnyManifest::V1(x), AnyManifest::V1(y)) => x.instructions == y.instructions,
        (AnyManifest::SystemV1(x), AnyManifest::SystemV1(y)) => x.instructions == y.instructions && x.preallocated_addresses == y.preallocated_addresses,
        (AnyManifest::V2(x), AnyManifest::V2(y)) => x.instructions == y.instructions && x.children == y.children,
        (AnyManifest::SubintentV2(x), AnyManifest::SubintentV2(y)) => x.instructions == y.instructions && x.children == y.children,
        _ => false,
    }
}
fn names_json(n: &ManifestObjectNames) -> J {
    match n {
        ManifestObjectNames::Unknown => json!("unknown"),
        ManifestObjectNames::Known(k) => {
            // listed by id 0,1,2..; a gap or out-of-order id shows as "<missing>"
            fn list<K: Eq + core::hash::Hash>(m: &IndexMap<K, String>, mk: impl Fn(u32) -> K) -> Vec<String> {
                (0..m.len() as u32).map(|i| m.get(&mk(i)).map(|s| unexpand(s)).unwrap_or_else(|| "<missing>".to_string())).collect()
            }
            json!({"buckets": list(&k.bucket_names, ManifestBucket), "proofs": list(&k.proof_names, ManifestProof),
                   "resv": list(&k.address_reservation_names, ManifestAddressReservation),
                   "addrs": list(&k.address_names, ManifestNamedAddress), "intents": list(&k.intent_names, ManifestNamedIntent)})
        }
    }
}

/// decompile -> compile -> compare; everything observed goes into the event
fn round_trip(m: &AnyManifest, net: &NetworkDefinition, mock_blobs: bool) -> J {
    let dec = catch(|| decompile_any(m, net));
    let text = match dec {
        Err(p) => return json!({"dec": "panic", "msg": p.chars().take(200).collect::<String>()}),
        Ok(Err(e)) => return json!({"dec": "err", "msg": format!("{:?}", e).chars().take(200).collect::<String>()}),
        Ok(Ok(t)) => t,
    };
    let orig = parts(m);
    let compile = |t: &str| {
        let kind = kind_of_manifest(m);
        if mock_blobs {
            catch(|| compile_any_manifest(t, kind, net, MockBlobProvider::new()))
        } else {
            let provider = BlobProvider::new_with_prehashed_blobs(orig.blobs.iter().cloned().collect());
            catch(|| compile_any_manifest(t, kind, net, provider))
        }
    };
    let m2 = match compile(&text) {
        Err(p) => return json!({"dec": "ok", "comp": "panic", "msg": p.chars().take(200).collect::<String>(), "text": text.chars().take(1500).collect::<String>()}),
        Ok(Err(e)) => {
            let class = match &e {
                CompileError::LexerError(_) => "lexer",
                CompileError::ParserError(_) => "parser",
                CompileError::GeneratorError(_) => "generator",
            };
            return json!({"dec": "ok", "comp": "err", "class": class, "msg": format!("{:?}", e).chars().take(300).collect::<String>(), "text": text.chars().take(1500).collect::<String>()});
        }
        Ok(Ok(x)) => x,
    };
    let got = parts(&m2);
    let enc1 = manifest_encode(m).ok();
    let enc2 = manifest_encode(&m2).ok();
    let text2 = catch(|| decompile_any(&m2, net)).ok().and_then(|r| r.ok());
    let mut ev = json!({"dec": "ok", "comp": "ok",
        "eq": *m == m2,
        "eq_ins": instructions_eq(m, &m2) && orig.ins == got.ins,
        "eq_blobs": orig.blobs == got.blobs,
        "eq_children": orig.children == got.children,
        "eq_pre": orig.pre == got.pre,
        "eq_names": orig.names == got.names,
        "eq_bytes": enc1.is_some() && enc1 == enc2,
        "fix": text2.as_deref() == Some(text.as_str()),
        "names": names_json(&got.names)});
    if !(*m == m2) {
        ev["text"] = json!(text.chars().take(1500).collect::<String>());
    }
    ev
}

/// Cases are read from stdin and processed in batches (the thorough tier feeds half a million
/// cases: never hold all of them as JSON values).
fn run_cases_streaming(threads: usize) {
    use std::io::BufRead;
    let stdin = std::io::stdin();
    let mut o = Out::new();
    let mut batch: Vec<J> = Vec::new();
    let mut base = 0usize;
    for line in stdin.lock().lines() {
        let line = line.expect("stdin");
        let t = line.trim();
        if t.is_empty() {
            continue;
        }
        batch.push(serde_json::from_str(t).expect("bad json line"));
        if batch.len() >= 20000 {
            let n = batch.len();
            run_batch(std::mem::take(&mut batch), base, threads, &mut o);
            base += n;
        }
    }
    if !batch.is_empty() {
        run_batch(batch, base, threads, &mut o);
    }
    o.flush();
}

fn run_batch(cases: Vec<J>, base: usize, threads: usize, o: &mut Out) {
    let n = cases.len();
    let chunk = (n + threads - 1) / threads.max(1);
    let cases = std::sync::Arc::new(cases);
    let mut handles = Vec::new();
    for t in 0..threads {
        let cases = cases.clone();
        handles.push(std::thread::spawn(move || {
            let net = NetworkDefinition::simulator();
            let lo = (t * chunk).min(n);
            let hi = ((t + 1) * chunk).min(n);
            let mut out = Vec::with_capacity(hi - lo);
            for i in lo..hi {
                let case = &cases[i];
                let kinds: &[&str] = match js(case, "fam") {
                    "v1" => &["V1", "SystemV1"],
                    "sys" => &["SystemV1"],
                    _ => &["V2", "SubintentV2"],
                };
                let mut per = Vec::new();
                for k in kinds {
                    let built = catch(|| build(case, k));
                    let mut ev = match built {
                        Err(p) => json!({"dec": "build-panic", "msg": p}),
                        Ok(Err(e)) => json!({"dec": "build-err", "msg": e}),
                        Ok(Ok(m)) => {
                            let mut ev = round_trip(&m, &net, false);
                            ev["encodable"] = json!(manifest_encode(&m).is_ok());
                            ev
                        }
                    };
                    ev["kind"] = json!(k);
                    per.push(ev);
                }
                out.push(json!({"i": base + i, "per": per, "exp": case["exp"], "names": case["names"], "dec_exp": case["dec_exp"], "depth": case["depth"]}).to_string());
            }
            out
        }));
    }
    for h in handles {
        for line in h.join().expect("worker thread") {
            o.emit(&serde_json::from_str::<J>(&line).unwrap());
        }
    }
}

// ---------------------------------------------------------------------------------------------
// T: the repository's .rtm corpus: compile (each kind that accepts it) -> decompile -> compile

fn corpus(files: Vec<String>) {
    let net = NetworkDefinition::simulator();
    let mut o = Out::new();
    for (i, f) in files.iter().enumerate() {
        let raw = String::from_utf8_lossy(&std::fs::read(f).expect("rtm file")).to_string();
        let text = radix_transactions::manifest::e2e::apply_address_replacements(raw);
        let mut per = Vec::new();
        for (k, kind) in [("V1", ManifestKind::V1), ("SystemV1", ManifestKind::SystemV1), ("V2", ManifestKind::V2), ("SubintentV2", ManifestKind::SubintentV2)] {
            let m = catch(|| compile_any_manifest(&text, kind, &net, MockBlobProvider::new()));
            match m {
                Ok(Ok(m)) => {
                    let mut ev = round_trip(&m, &net, true);
                    ev["kind"] = json!(k);
                    ev["src"] = json!("ok");
                    ev["names_known"] = json!(true);
                    per.push(ev);
                }
                Ok(Err(_)) => per.push(json!({"kind": k, "src": "err"})),
                Err(p) => per.push(json!({"kind": k, "src": "panic", "msg": p})),
            }
        }
        o.emit(&json!({"i": i, "file": f, "per": per}));
    }
    o.flush();
}

// ---------------------------------------------------------------------------------------------
// T: manifests of the transaction scenarios (real objects from executed transactions)

fn scenarios(max: usize) {
    use radix_substate_store_impls::memory_db::InMemorySubstateDatabase;
    use radix_transaction_scenarios::executor::*;
    use std::cell::RefCell;
    use std::rc::Rc;

    struct Hooks {
        out: Rc<RefCell<Vec<(String, Vec<AnyManifest>)>>>,
        max: usize,
    }
    impl<S: radix_substate_store_interface::interface::SubstateDatabase> ScenarioExecutionHooks<S> for Hooks {
        fn on_transaction_executed(&mut self, event: OnScenarioTransactionExecuted<S>) {
            let OnScenarioTransactionExecuted { metadata, transaction, .. } = event;
            if self.out.borrow().len() < self.max {
                let mut ms: Vec<AnyManifest> = vec![match transaction.transaction_manifest.clone() {
                    UserTransactionManifest::V1(m) => m.into(),
                    UserTransactionManifest::V2(m) => m.into(),
                }];
                for s in &transaction.subintent_manifests {
                    match s.clone() {
                        UserSubintentManifest::V2(m) => ms.push(m.into()),
                    }
                }
                self.out.borrow_mut().push((format!("{}/{}", metadata.logical_name, transaction.logical_name), ms));
            }
        }
    }
    let collected = Rc::new(RefCell::new(Vec::new()));
    let db = InMemorySubstateDatabase::standard();
    let net = NetworkDefinition::simulator();
    TransactionScenarioExecutor::new(db, net.clone())
        .execute_every_protocol_update_and_scenario(&mut Hooks { out: collected.clone(), max })
        .expect("scenarios execute");
    let mut o = Out::new();
    let txs = collected.borrow();
    for (i, (name, ms)) in txs.iter().enumerate() {
        let mut per = Vec::new();
        for m in ms {
            let mut ev = round_trip(m, &net, false);
            ev["kind"] = json!(match m { AnyManifest::V1(_) => "V1", AnyManifest::SystemV1(_) => "SystemV1", AnyManifest::V2(_) => "V2", AnyManifest::SubintentV2(_) => "SubintentV2" });
            ev["src"] = json!("ok");
            ev["names_known"] = json!(!matches!(parts(m).names, ManifestObjectNames::Unknown));
            per.push(ev);
        }
        o.emit(&json!({"i": i, "file": name, "per": per}));
    }
    o.flush();
}

pub fn run(mode: &str, args: &Args) {
    let threads = args.u64("threads", 4) as usize;
    match mode {
        "run" => run_cases_streaming(threads),
        "corpus" => {
            let input = read_lines();
            let files: Vec<String> = input[0]["files"].as_array().unwrap().iter().map(|t| t.as_str().unwrap().to_string()).collect();
            corpus(files);
        }
        "scenarios" => scenarios(args.u64("max", 100000) as usize),
        "decompile" => {
            // debugging aid: print the decompiled text of each case (first kind)
            for case in read_lines() {
                let kind = match js(&case, "fam") { "v1" => "V1", "sys" => "SystemV1", _ => "V2" };
                match build(&case, kind) {
                    Ok(m) => println!("{}", decompile_any(&m, &NetworkDefinition::simulator()).unwrap_or_else(|e| format!("{:?}", e))),
                    Err(e) => println!("build error {}", e),
                }
            }
        }
        m => {
            eprintln!("unknown mode {}", m);
            std::process::exit(2);
        }
    }
}

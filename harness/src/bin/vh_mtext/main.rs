//! vh_mtext — manifest text and SBOR schema column: ManifestText lexical layer (C31), abstract
//! syntax round trip (C30), SborSchema payload validation (C22) and schema comparison (C23).
#![allow(clippy::all)]
mod lex;
mod rt;
mod schema;
mod types;
mod harvest;

fn main() {
    let (module, mode, args) = vh::start();
    match module.as_str() {
        "lex" => lex::run(&mode, &args),
        "rt" => rt::run(&mode, &args),
        "schema" => schema::run(&mode, &args),
        m => vh::unknown(m),
    }
}

//! C31 — binding of spec/ManifestText (lexical layer) to the real manifest compiler.
//!
//! mode `run`    : stdin = cases printed by GenManifestLex ({"lines":[[tok..]..],"terms":[..]}),
//!                 stdout = one outcome event per case (validated by TraceManifestLex).
//! mode `mutate` : stdin = one JSON object {"alphabet":[texts], "files":[paths]}; seeded byte-,
//!                 token- and line-ending-level mutants of the .rtm corpus; same events.
//!                 `only=<i>` prints {"i":i,"text":..} of that mutant instead (for replay files).
//! mode `text`   : stdin = JSON lines {"text": "..."}; same events (replay of a stored text).
//! The harness only drives the compiler and records outcome classes; OutcomeOk (TLA+) decides.
use radix_common::prelude::*;
use radix_transactions::manifest::*;
use rand::prelude::*;
use serde_json::{json, Value};
use vh::util::*;
use vh::Args;

/// `~XXXXXX` (six upper-case hex digits) -> the scalar value; anything else verbatim.
pub fn expand(s: &str) -> String {
    let b: Vec<char> = s.chars().collect();
    let mut out = String::new();
    let mut i = 0;
    while i < b.len() {
        if b[i] == '~' && i + 7 <= b.len() {
            let hex: String = b[i + 1..i + 7].iter().collect();
            if hex.chars().all(|c| c.is_ascii_digit() || ('A'..='F').contains(&c)) {
                if let Some(c) = u32::from_str_radix(&hex, 16).ok().and_then(char::from_u32) {
                    out.push(c);
                    i += 7;
                    continue;
                }
            }
        }
        out.push(b[i]);
        i += 1;
    }
    out
}

/// inverse of `expand` for reporting strings back to the specification: everything outside
/// printable ASCII becomes `~XXXXXX`
pub fn unexpand(s: &str) -> String {
    let mut out = String::new();
    for c in s.chars() {
        if (' '..='}').contains(&c) {
            out.push(c);
        } else {
            out.push_str(&format!("~{:06X}", c as u32));
        }
    }
    out
}

fn term(name: &str) -> &'static str {
    match name {
        "LF" => "\n",
        "CRLF" => "\r\n",
        "CR" => "\r",
        "LFCR" => "\n\r",
        "" => "",
        _ => panic!("unknown terminator {}", name),
    }
}

pub fn render(case: &Value) -> String {
    let mut s = String::new();
    let lines = case["lines"].as_array().unwrap();
    let terms = case["terms"].as_array().unwrap();
    for (i, l) in lines.iter().enumerate() {
        let toks: Vec<String> = l.as_array().unwrap().iter().map(|t| expand(t.as_str().unwrap())).collect();
        s.push_str(&toks.join(" "));
        s.push_str(term(terms[i].as_str().unwrap()));
    }
    s
}

const KINDS: [fn() -> ManifestKind; 4] =
    [|| ManifestKind::V1, || ManifestKind::SystemV1, || ManifestKind::V2, || ManifestKind::SubintentV2];
const STYLES: [CompileErrorDiagnosticsStyle; 2] =
    [CompileErrorDiagnosticsStyle::PlainText, CompileErrorDiagnosticsStyle::TextTerminalColors];

fn compile_once(text: &str, kind: usize, net: &NetworkDefinition) -> Result<Result<AnyManifest, CompileError>, String> {
    catch(|| compile_any_manifest(text, KINDS[kind](), net, BlobProvider::new()))
}

fn class<T, E>(r: &Result<Result<T, E>, String>) -> &'static str {
    match r {
        Ok(Ok(_)) => "ok",
        Ok(Err(_)) => "err",
        Err(_) => "panic",
    }
}

/// One outcome event for a text: per kind two compiles, diagnostics of the error in both
/// styles twice, and the combined pretty-error entry point.
pub fn observe(i: usize, text: &str, net: &NetworkDefinition) -> Value {
    let mut ks = Vec::new();
    let mut stages = Vec::new();
    let mut ekinds: Vec<String> = Vec::new();
    let mut eline = 0usize;
    let mut panics: Vec<String> = Vec::new();
    for k in 0..4 {
        let r1 = compile_once(text, k, net);
        let r2 = compile_once(text, k, net);
        let same = match (&r1, &r2) {
            (Ok(a), Ok(b)) => a == b,
            _ => false,
        };
        for r in [&r1, &r2] {
            if let Err(m) = r {
                panics.push(format!("compile: {}", m));
            }
        }
        let mut d = vec![vec!["none", "none"], vec!["none", "none"]];
        let mut dsame = vec![true, true];
        let mut plain: Option<String> = None;
        let stage = match &r1 {
            Ok(Ok(_)) => "ok",
            Ok(Err(CompileError::LexerError(_))) => "L",
            Ok(Err(CompileError::ParserError(_))) => "P",
            Ok(Err(CompileError::GeneratorError(_))) => "G",
            Err(_) => "panic",
        };
        if let Ok(Err(e)) = &r1 {
            // name of the error kind variant (coverage accounting only)
            let dbg = match e {
                CompileError::LexerError(x) => format!("L:{:?}", x.error_kind),
                CompileError::ParserError(x) => format!("P:{:?}", x.error_kind),
                CompileError::GeneratorError(x) => format!("G:{:?}", x.error_kind),
            };
            let name: String = dbg.chars().take_while(|c| c.is_ascii_alphanumeric() || *c == ':').collect();
            if !ekinds.contains(&name) {
                ekinds.push(name);
            }
            let line = match e {
                CompileError::LexerError(x) => x.span.start.line_number(),
                CompileError::ParserError(x) => x.span.start.line_number(),
                CompileError::GeneratorError(x) => x.span.start.line_number(),
            };
            if eline == 0 {
                eline = line;
            }
            for (si, style) in STYLES.iter().enumerate() {
                let a = catch(|| compile_error_diagnostics(text, e.clone(), *style));
                let b = catch(|| compile_error_diagnostics(text, e.clone(), *style));
                d[si][0] = if a.is_ok() { "string" } else { "panic" };
                d[si][1] = if b.is_ok() { "string" } else { "panic" };
                dsame[si] = match (&a, &b) {
                    (Ok(x), Ok(y)) => x == y,
                    _ => false,
                };
                for r in [&a, &b] {
                    if let Err(m) = r {
                        panics.push(format!("diagnostics: {}", m));
                    }
                }
                if si == 0 {
                    plain = a.ok();
                }
            }
        }
        let p = catch(|| {
            compile_any_manifest_with_pretty_error(text, KINDS[k](), net, BlobProvider::new(), CompileErrorDiagnosticsStyle::PlainText)
        });
        let (pc, psame) = match (&p, &r1) {
            (Ok(Ok(m)), Ok(Ok(m1))) => ("ok", m == m1),
            (Ok(Ok(_)), _) => ("ok", false),
            (Ok(Err(s)), _) => ("string", plain.as_ref() == Some(s)),
            (Err(m), _) => {
                panics.push(format!("pretty: {}", m));
                ("panic", false)
            }
        };
        ks.push(json!({"c": [class(&r1), class(&r2)], "same": same, "d": d, "dsame": dsame, "p": pc, "psame": psame}));
        stages.push(stage);
    }
    panics.sort();
    panics.dedup();
    panics.truncate(2);
    let h = {
        use std::hash::{Hash, Hasher};
        let mut hs = std::collections::hash_map::DefaultHasher::new();
        text.hash(&mut hs);
        format!("{:016x}", hs.finish())
    };
    let mut ev = json!({"i": i, "k": ks, "st": stages, "el": eline, "h": h, "ek": ekinds});
    if !panics.is_empty() {
        // free-text detail for the human reading a replay file; not used by the decision
        ev["msg"] = json!(panics.iter().map(|m| m.chars().take(160).collect::<String>()).collect::<Vec<_>>());
    }
    ev
}

fn run_texts(texts: Vec<String>, threads: usize) {
    let n = texts.len();
    let chunk = (n + threads - 1) / threads.max(1);
    let texts = std::sync::Arc::new(texts);
    let mut handles = Vec::new();
    for t in 0..threads {
        let texts = texts.clone();
        handles.push(std::thread::spawn(move || {
            let net = NetworkDefinition::simulator();
            let lo = (t * chunk).min(n);
            let hi = ((t + 1) * chunk).min(n);
            let mut out = Vec::with_capacity(hi - lo);
            for i in lo..hi {
                out.push(serde_json::to_string(&observe(i, &texts[i], &net)).unwrap());
            }
            out
        }));
    }
    let mut o = Out::new();
    for h in handles {
        for line in h.join().expect("worker thread") {
            o.emit(&serde_json::from_str::<Value>(&line).unwrap());
        }
    }
    o.flush();
}

// ---------------------------------------------------------------------------------------------
// mutation traffic from the .rtm corpus

fn convert_endings(s: &str, style: usize) -> String {
    let base = s.replace("\r\n", "\n");
    match style {
        0 => base.replace('\n', "\r\n"),
        1 => base.replace('\n', "\r"),
        2 => {
            // mixed: cycle LF, CRLF, CR
            let mut out = String::new();
            let mut i = 0;
            for c in base.chars() {
                if c == '\n' {
                    out.push_str(["\n", "\r\n", "\r"][i % 3]);
                    i += 1;
                } else {
                    out.push(c);
                }
            }
            out
        }
        _ => base.replace('\n', "\n\r"),
    }
}

const ODD: [&str; 14] = ["\u{e9}", "\u{20ac}", "\u{1F600}", "e\u{301}", "\u{5d0}\u{5d1}", "\u{202e}", "\u{4e2d}", "\r\n", "\r", "\n", "\t", "\"", "\\", "\u{0}"];

/// Splits into "tokens": maximal runs of non-whitespace / whitespace (kept, so that joining
/// gives the original text back).
fn split_tokens(s: &str) -> Vec<String> {
    let mut v: Vec<String> = Vec::new();
    let mut cur = String::new();
    let mut ws = None;
    for c in s.chars() {
        let w = c.is_whitespace();
        if ws != Some(w) && !cur.is_empty() {
            v.push(std::mem::take(&mut cur));
        }
        ws = Some(w);
        cur.push(c);
    }
    if !cur.is_empty() {
        v.push(cur);
    }
    v
}

/// `which` selects the mutation kind (the driver walks the kinds file by file, so that every
/// file gets every one of the first kinds; the seed only drives positions and replacements)
fn mutant(src: &str, alphabet: &[String], rng: &mut StdRng, which: usize) -> (String, &'static str) {
    match which {
        10 | 11 => {
            // CRLF + the FIRST / LAST token damaged (error on the first / last line)
            let mut toks = split_tokens(src);
            let idx: Vec<usize> = toks.iter().enumerate().filter(|(_, t)| !t.trim().is_empty()).map(|(i, _)| i).collect();
            if let Some(j) = if which == 10 { idx.first() } else { idx.last() } {
                toks[*j] = alphabet[rng.gen_range(0..alphabet.len())].clone();
            }
            (convert_endings(&toks.concat(), 0), if which == 10 { "crlf+first-token" } else { "crlf+last-token" })
        }
        0 => (convert_endings(src, 0), "crlf"),
        1 => {
            // CRLF + one token-level damage somewhere (error lands on a later line)
            let mut toks = split_tokens(src);
            if !toks.is_empty() {
                let j = rng.gen_range(0..toks.len());
                toks[j] = alphabet[rng.gen_range(0..alphabet.len())].clone();
            }
            (convert_endings(&toks.concat(), 0), "crlf+token")
        }
        2 => (convert_endings(src, rng.gen_range(1..4)), "endings"),
        3 | 4 => {
            // byte level: 1..4 edits, decoded lossily
            let mut b = src.as_bytes().to_vec();
            for _ in 0..rng.gen_range(1..5) {
                if b.is_empty() {
                    break;
                }
                let j = rng.gen_range(0..b.len());
                match rng.gen_range(0..4) {
                    0 => b[j] = rng.gen(),
                    1 => {
                        b.remove(j);
                    }
                    2 => b.insert(j, rng.gen()),
                    _ => b[j] ^= 1 << rng.gen_range(0..8),
                }
            }
            let s = String::from_utf8_lossy(&b).to_string();
            if which == 4 {
                (convert_endings(&s, rng.gen_range(0..4)), "bytes+endings")
            } else {
                (s, "bytes")
            }
        }
        5 => {
            // truncate at a char boundary
            let chars: Vec<char> = src.chars().collect();
            let j = if chars.is_empty() { 0 } else { rng.gen_range(0..chars.len()) };
            (chars[..j].iter().collect(), "truncate")
        }
        6 | 7 => {
            // token level: replace / delete / duplicate / swap / insert alphabet token
            let mut toks = split_tokens(src);
            for _ in 0..rng.gen_range(1..4) {
                if toks.is_empty() {
                    break;
                }
                let j = rng.gen_range(0..toks.len());
                match rng.gen_range(0..5) {
                    0 => toks[j] = alphabet[rng.gen_range(0..alphabet.len())].clone(),
                    1 => {
                        toks.remove(j);
                    }
                    2 => {
                        let t = toks[j].clone();
                        toks.insert(j, t);
                    }
                    3 => {
                        let k = rng.gen_range(0..toks.len());
                        toks.swap(j, k);
                    }
                    _ => toks.insert(j, format!(" {} ", alphabet[rng.gen_range(0..alphabet.len())])),
                }
            }
            let s = toks.concat();
            if which == 7 {
                (convert_endings(&s, rng.gen_range(0..4)), "tokens+endings")
            } else {
                (s, "tokens")
            }
        }
        8 => {
            // insert odd characters at char positions
            let mut chars: Vec<char> = src.chars().collect();
            for _ in 0..rng.gen_range(1..4) {
                let j = rng.gen_range(0..=chars.len());
                let o: Vec<char> = ODD[rng.gen_range(0..ODD.len())].chars().collect();
                for (x, c) in o.into_iter().enumerate() {
                    chars.insert(j + x, c);
                }
            }
            (chars.into_iter().collect(), "odd-chars")
        }
        _ => {
            // replace a string literal's inside or a digit
            let mut chars: Vec<char> = src.chars().collect();
            let pos: Vec<usize> = chars.iter().enumerate().filter(|(_, c)| **c == '"' || c.is_ascii_digit()).map(|(i, _)| i).collect();
            if !pos.is_empty() {
                let j = pos[rng.gen_range(0..pos.len())];
                let o: Vec<char> = ODD[rng.gen_range(0..ODD.len())].chars().collect();
                chars.splice(j..j + 1, o);
            }
            (convert_endings(&chars.into_iter().collect::<String>(), rng.gen_range(0..4)), "literal+endings")
        }
    }
}

pub fn run(mode: &str, args: &Args) {
    let threads = args.u64("threads", 4) as usize;
    match mode {
        "run" => {
            let cases = read_lines();
            let texts: Vec<String> = cases.iter().map(render).collect();
            run_texts(texts, threads);
        }
        "text" => {
            let cases = read_lines();
            let texts: Vec<String> = cases.iter().map(|c| c["text"].as_str().unwrap().to_string()).collect();
            run_texts(texts, threads);
        }
        "mutate" => {
            let input = read_lines();
            let alphabet: Vec<String> = input[0]["alphabet"].as_array().unwrap().iter().map(|t| expand(t.as_str().unwrap())).collect();
            let files: Vec<String> = input[0]["files"].as_array().unwrap().iter().map(|t| t.as_str().unwrap().to_string()).collect();
            let seed = args.u64("seed", 1);
            let n = args.u64("n", 1000) as usize;
            let only = args.kv.get("only").map(|v| v.parse::<usize>().unwrap());
            let srcs: Vec<String> = files.iter().map(|f| String::from_utf8_lossy(&std::fs::read(f).expect("rtm file")).to_string()).collect();
            let mut texts = Vec::with_capacity(n);
            let mut meta = Vec::with_capacity(n);
            for i in 0..n {
                // one independent generator per mutant so that `only=i` reproduces it
                let mut rng = StdRng::seed_from_u64(seed.wrapping_mul(0x9E3779B97F4A7C15).wrapping_add(i as u64));
                let f = i % srcs.len();
                // kinds in this order, one round of all files per kind
                const ORDER: [usize; 12] = [0, 1, 11, 10, 2, 7, 3, 8, 4, 5, 6, 9];
                let (t, how) = mutant(&srcs[f], &alphabet, &mut rng, ORDER[(i / srcs.len()) % 12]);
                if let Some(o) = only {
                    if o == i {
                        println!("{}", json!({"i": i, "file": files[f], "how": how, "text": t}));
                        return;
                    }
                }
                texts.push(t);
                meta.push((f, how));
            }
            if only.is_some() {
                return;
            }
            // meta lines first (file index, mutation kind) so that the driver can count classes
            let mut o = Out::new();
            o.emit(&json!({"meta": meta.iter().map(|(f, h)| json!([f, h])).collect::<Vec<_>>()}));
            o.flush();
            drop(o);
            run_texts(texts, threads);
        }
        m => {
            eprintln!("unknown mode {}", m);
            std::process::exit(2);
        }
    }
}

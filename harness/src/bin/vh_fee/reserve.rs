//! C06, unit level — the real SystemLoanFeeReserve driven call by call.
//!  run:    sequences chosen by TLC (GenFeeReserve) on the small-scale model; a model number n is the
//!          decimal n * 10^-4, i.e. n * 10^14 attos
//!  random: sequences drawn from the seed at real scale (protocol parameters and boundary sets)
//!  boundary: deterministic (no seed) - the full product (parameter class x tip kind) x (last call kind) x (balance one
//!          atto below / equal to / one atto above what the last call needs) and the unit limits -1 / 0 / +1, zero
//!          amounts and contingent-only locks; the INPUT amounts are found by probing the reserve's fee_balance()
//!          with a large lock, the expected results are the specification's (TraceFeeReserve)
//! Output: ndjson events new / call / finalize with every amount as limbs computed from the Decimal's
//! bytes; TraceFeeReserve (the specification at real scale) accepts or rejects them.
use radix_common::prelude::*;
use radix_engine::system::system_modules::costing::*;
use radix_engine::transaction::CostingParameters;
use radix_engine_interface::blueprints::resource::LiquidFungibleResource;
use radix_engine_interface::prelude::*;
use radix_transactions::model::TipSpecifier;
use radix_transactions::prelude::TransactionCostingParameters;
use rand::prelude::*;
use serde_json::{json, Value};
use vh::util::*;
use vh::Args;

pub fn limbs(d: Decimal) -> Value {
    limbs_from_le_bytes_signed(&d.attos().to_le_bytes())
}
fn from_units(n: i64, unit_attos: i128) -> Decimal {
    Decimal::from_attos(I192::from(n as i128 * unit_attos))
}

pub struct P {
    pub cp: CostingParameters,
    pub tip: TipSpecifier,
    pub credit: Decimal,
    pub abort: bool,
}
impl P {
    pub fn json(&self) -> Value {
        json!({
            "priceE": limbs(self.cp.execution_cost_unit_price), "priceF": limbs(self.cp.finalization_cost_unit_price),
            "usd": limbs(self.cp.usd_price), "priceState": limbs(self.cp.state_storage_price), "priceArchive": limbs(self.cp.archive_storage_price),
            "loan": self.cp.execution_cost_unit_loan, "limitE": self.cp.execution_cost_unit_limit, "limitF": self.cp.finalization_cost_unit_limit,
            "tipBp": self.tip.basis_points(), "credit": limbs(self.credit), "abortWhenRepaid": self.abort,
        })
    }
    fn reserve(&self) -> SystemLoanFeeReserve {
        SystemLoanFeeReserve::new(self.cp.clone(), TransactionCostingParameters { tip: self.tip, free_credit_in_xrd: self.credit }, self.abort)
    }
}

fn vault(v: u64) -> NodeId {
    let mut b = [0u8; NodeId::LENGTH];
    b[0] = EntityType::InternalFungibleVault as u8;
    b[29] = v as u8;
    NodeId(b)
}
fn recipient(r: u64) -> RoyaltyRecipient {
    let mut b = [0u8; NodeId::LENGTH];
    b[0] = EntityType::GlobalPackage as u8;
    b[29] = r as u8;
    RoyaltyRecipient::Package(PackageAddress::new_or_panic(b), vault(100 + r))
}
fn err_class(e: &FeeReserveError) -> &'static str {
    match e {
        FeeReserveError::InsufficientBalance { .. } => "InsufficientBalance",
        FeeReserveError::Overflow => "Overflow",
        FeeReserveError::LimitExceeded { .. } => "LimitExceeded",
        FeeReserveError::LoanRepaymentFailed { .. } => "LoanRepaymentFailed",
        FeeReserveError::Abort(_) => "Abort",
    }
}

/// a call in concrete values
pub struct Call {
    pub op: String,
    pub u: u32,
    pub t: String,
    pub kind: String,
    pub amt: Decimal,
    pub r: u64,
    pub v: u64,
    pub cont: bool,
}
impl Call {
    fn json(&self) -> Value {
        json!({"op": self.op, "u": self.u, "t": self.t, "kind": self.kind, "amt": limbs(self.amt), "r": self.r, "v": self.v, "cont": self.cont})
    }
}

fn apply(fr: &mut SystemLoanFeeReserve, c: &Call) -> String {
    let st = if c.t == "State" { StorageType::State } else { StorageType::Archive };
    let r: Result<(), FeeReserveError> = match c.op.as_str() {
        "consumeDeferredExecution" => fr.consume_deferred_execution(c.u),
        "consumeDeferredFinalization" => fr.consume_deferred_finalization(c.u),
        "consumeDeferredStorage" => fr.consume_deferred_storage(st, c.u as usize),
        "consumeExecution" => fr.consume_execution(c.u),
        "consumeFinalization" => fr.consume_finalization(c.u),
        "consumeStorage" => fr.consume_storage(st, c.u as usize),
        "consumeRoyalty" => fr.consume_royalty(if c.kind == "Xrd" { RoyaltyAmount::Xrd(c.amt) } else { RoyaltyAmount::Usd(c.amt) }, recipient(c.r)),
        "lockFee" => {
            fr.lock_fee(vault(c.v), LiquidFungibleResource::new(c.amt), c.cont);
            Ok(())
        }
        "repayAll" => fr.repay_all(),
        "revertRoyalty" => {
            fr.revert_royalty();
            Ok(())
        }
        o => panic!("harness: unknown op {}", o),
    };
    match r {
        Ok(()) => "ok".to_string(),
        Err(e) => err_class(&e).to_string(),
    }
}

fn run_sequence(out: &mut Out, p: &P, calls: &[Call]) {
    let mut fr = p.reserve();
    out.emit(&json!({"a": "new", "p": p.json(), "balance": limbs(fr.fee_balance()), "repaid": fr.fully_repaid()}));
    for c in calls {
        let res = match catch(|| apply(&mut fr, c)) {
            Ok(r) => r,
            Err(e) => format!("panic:{}", e),
        };
        out.emit(&json!({"a": "call", "c": c.json(), "res": res, "balance": limbs(fr.fee_balance()), "repaid": fr.fully_repaid()}));
    }
    let (s, _, _) = fr.finalize();
    let royalty_by: Vec<Value> = s
        .royalty_cost_breakdown
        .iter()
        .map(|(r, a)| json!({"r": match r { RoyaltyRecipient::Package(a, _) => a.as_node_id().0[29] as u64, RoyaltyRecipient::Component(a, _) => a.as_node_id().0[29] as u64 }, "amt": limbs(*a)}))
        .collect();
    let locked: Vec<Value> = s.locked_fees.iter().map(|(v, l, c)| json!({"v": v.0[29] as u64, "amt": limbs(l.amount()), "cont": c})).collect();
    out.emit(&json!({"a": "finalize",
        "summary": {"execUnits": s.total_execution_cost_units_consumed, "finUnits": s.total_finalization_cost_units_consumed,
                    "exec": limbs(s.total_execution_cost_in_xrd), "fin": limbs(s.total_finalization_cost_in_xrd), "tip": limbs(s.total_tipping_cost_in_xrd),
                    "royalty": limbs(s.total_royalty_cost_in_xrd), "storage": limbs(s.total_storage_cost_in_xrd), "badDebt": limbs(s.total_bad_debt_in_xrd),
                    "royaltyBy": royalty_by, "locked": locked},
        "toProposer": limbs(s.to_proposer_amount()), "toValidatorSet": limbs(s.to_validator_set_amount()), "toBurn": limbs(s.to_burn_amount())}));
}

fn atto(n: i128) -> Decimal {
    Decimal::from_attos(I192::from(n))
}
fn mk(op: &str, u: u32, amt: Decimal) -> Call {
    Call { op: op.to_string(), u, t: "State".into(), kind: "Xrd".into(), amt, r: 1, v: 1, cont: false }
}
fn mk_t(op: &str, u: u32, t: &str) -> Call {
    Call { t: t.into(), ..mk(op, u, Decimal::ZERO) }
}
fn royalty(kind: &str, amt: Decimal, r: u64) -> Call {
    Call { kind: kind.into(), r, ..mk("consumeRoyalty", 0, amt) }
}
fn lock(amt: Decimal, v: u64, cont: bool) -> Call {
    Call { v, cont, ..mk("lockFee", 0, amt) }
}
fn clone_call(c: &Call) -> Call {
    Call { op: c.op.clone(), u: c.u, t: c.t.clone(), kind: c.kind.clone(), amt: c.amt, r: c.r, v: c.v, cont: c.cont }
}
/// balance after the calls on a fresh reserve, and whether all of them succeeded
fn probe(p: &P, calls: &[Call]) -> (Decimal, bool) {
    let mut fr = p.reserve();
    let mut all_ok = true;
    for c in calls {
        all_ok &= apply(&mut fr, c) == "ok";
    }
    (fr.fee_balance(), all_ok)
}

fn boundary_params() -> Vec<P> {
    let mut res = vec![];
    for class in 0..5 {
        for tipk in 0..6 {
            let mut cp = CostingParameters::latest();
            match class {
                1 => {
                    cp.execution_cost_unit_price = atto(50_000_000_001);
                    cp.finalization_cost_unit_price = atto(50_999_999_999);
                }
                2 => cp.execution_cost_unit_loan = 0,
                3 => cp.execution_cost_unit_loan = cp.execution_cost_unit_limit,
                4 => {
                    cp.execution_cost_unit_limit = 3_000_000;
                    cp.execution_cost_unit_loan = 1_000_000;
                    cp.finalization_cost_unit_limit = 500_000;
                }
                _ => {}
            }
            let tip = match tipk {
                0 => TipSpecifier::None,
                1 => TipSpecifier::Percentage(0),
                2 => TipSpecifier::Percentage(7),
                3 => TipSpecifier::Percentage(u16::MAX),
                4 => TipSpecifier::BasisPoints(1),
                _ => TipSpecifier::BasisPoints(1_000_000),
            };
            // free credit: none / a non-round amount, alternating so that every class and every tip kind has both
            let credit = if (class + tipk) % 2 == 1 { atto(3_000_000_000_000_000_007) } else { Decimal::ZERO };
            res.push(P { cp, tip, credit, abort: false });
        }
    }
    res
}

fn boundary(out: &mut Out, full: bool) {
    let big = Decimal::from(1_000_000_000u64); // a lock no sequence here can exhaust
    let mut sequences = 0u64;
    let mut untied = 0u64;
    for p in boundary_params() {
        let loan = p.cp.execution_cost_unit_loan;
        let lim_e = p.cp.execution_cost_unit_limit;
        let lim_f = p.cp.finalization_cost_unit_limit;
        // (prefix before the lock, calls between the lock and the last call, last call)
        let mut shapes: Vec<(Vec<Call>, Vec<Call>, Call)> = vec![];
        let mut exec_units = vec![1u32];
        if full {
            exec_units.push(1000);
        }
        if loan > 1 {
            exec_units.push(loan - 1);
        }
        if loan > 0 {
            exec_units.push(loan); // the call that triggers the repayment
        }
        if loan < lim_e {
            exec_units.push(loan + 1);
        }
        for u in exec_units {
            shapes.push((vec![], vec![], mk("consumeExecution", u, Decimal::ZERO)));
        }
        if loan > 1 && loan < lim_e {
            // repayment triggered by the second of two calls; and a call after the repayment
            shapes.push((vec![], vec![mk("consumeExecution", loan - 1, Decimal::ZERO)], mk("consumeExecution", 1, Decimal::ZERO)));
            shapes.push((vec![], vec![mk("consumeExecution", loan, Decimal::ZERO)], mk("consumeExecution", 1, Decimal::ZERO)));
        }
        shapes.push((vec![], vec![], mk("consumeFinalization", 1, Decimal::ZERO)));
        shapes.push((vec![], vec![], mk("consumeFinalization", lim_f, Decimal::ZERO)));
        shapes.push((vec![], vec![], mk_t("consumeStorage", 1, "State")));
        shapes.push((vec![], vec![], mk_t("consumeStorage", 4096, "Archive")));
        shapes.push((vec![], vec![], royalty("Xrd", atto(1), 1)));
        shapes.push((vec![], vec![royalty("Usd", atto(2_500_000_000_000_000_001), 1)], royalty("Xrd", atto(1_000_000_000_000_000_000), 2)));
        shapes.push((vec![], vec![], royalty("Usd", atto(1_000_000_000_000_000_003), 2)));
        // deferred costs of every kind, applied by an explicit repayment / by the repayment a consumption triggers
        let deferred = vec![mk("consumeDeferredExecution", 40_000, Decimal::ZERO), mk("consumeDeferredFinalization", 7, Decimal::ZERO),
                            mk_t("consumeDeferredStorage", 300, "State"), mk_t("consumeDeferredStorage", 5, "Archive")];
        shapes.push((deferred.iter().map(clone_call).collect(), vec![], mk("repayAll", 0, Decimal::ZERO)));
        if loan > 40_000 {
            shapes.push((deferred.iter().map(clone_call).collect(), vec![], mk("consumeExecution", loan, Decimal::ZERO)));
        }
        shapes.push((vec![], vec![], mk("repayAll", 0, Decimal::ZERO)));
        for (pre, mid, last) in &shapes {
            // what the whole sequence needs: probe with a lock that is certainly enough
            let mut seq: Vec<Call> = pre.iter().map(clone_call).collect();
            seq.push(lock(big, 1, false));
            seq.extend(mid.iter().map(clone_call));
            seq.push(clone_call(last));
            let (rest, all_ok) = probe(&p, &seq);
            if !all_ok {
                untied += 1;
            }
            for delta in [-1i128, 0, 1] {
                for via in ["lock", "royalty"] {
                    let mut calls: Vec<Call> = pre.iter().map(clone_call).collect();
                    if via == "lock" {
                        // lock exactly what is needed +- 1 atto (when the loan and credit alone suffice: royalty variant only)
                        let need = big - rest + atto(delta);
                        if need.is_negative() {
                            continue;
                        }
                        calls.push(lock(need, 1, false));
                        if full || delta == 0 {
                            calls.push(lock(atto(0), 2, false));
                            calls.push(lock(big, 3, true)); // a contingent lock never helps
                        }
                    } else {
                        // (quick tier: only where locking cannot produce the tie, and for the smallest consumptions)
                        let lock_possible = !(big - rest + atto(delta)).is_negative();
                        if !full && lock_possible && !(last.op == "consumeRoyalty" || (last.op == "consumeExecution" && last.u == 1 && mid.is_empty())) {
                            continue;
                        }
                        // drain through a royalty: "equal to balance" +- 1 atto
                        let drain = rest - atto(delta);
                        calls.push(lock(big, 1, false));
                        calls.push(royalty("Xrd", drain, 2));
                    }
                    calls.extend(mid.iter().map(clone_call));
                    calls.push(clone_call(last));
                    // at / next to an empty balance: every kind of further consumption, then the royalty comes back
                    calls.push(mk("consumeExecution", 1, Decimal::ZERO));
                    if full || via == "royalty" {
                        calls.push(mk("revertRoyalty", 0, Decimal::ZERO));
                    }
                    if full {
                        calls.push(mk("consumeFinalization", 1, Decimal::ZERO));
                        calls.push(royalty("Xrd", atto(1), 1));
                        calls.push(royalty("Xrd", Decimal::ZERO, 1));
                        calls.push(mk("revertRoyalty", 0, Decimal::ZERO));
                        calls.push(mk("consumeExecution", 0, Decimal::ZERO));
                    }
                    let pp = P { cp: p.cp.clone(), tip: p.tip, credit: p.credit, abort: delta == 1 && via == "lock" && last.op == "repayAll" };
                    run_sequence(out, &pp, &calls);
                    sequences += 1;
                }
            }
        }
        // unit limits: committed units one below / at / one above the limit, with and without deferred units before
        for d in [0u32, 5] {
            for x in [-1i64, 0, 1] {
                let mut calls = vec![];
                if d > 0 {
                    calls.push(mk("consumeDeferredExecution", d, Decimal::ZERO));
                    calls.push(mk("consumeDeferredFinalization", d, Decimal::ZERO));
                }
                calls.push(lock(big, 1, false));
                calls.push(mk("consumeExecution", (lim_e as i64 - d as i64 + x) as u32, Decimal::ZERO));
                calls.push(mk("consumeExecution", (lim_e as i64 - d as i64 + x - 1) as u32, Decimal::ZERO));
                calls.push(mk("consumeExecution", 1, Decimal::ZERO));
                calls.push(mk("consumeExecution", 1, Decimal::ZERO));
                calls.push(mk("consumeFinalization", (lim_f as i64 - d as i64 + x) as u32, Decimal::ZERO));
                calls.push(mk("consumeFinalization", (lim_f as i64 - d as i64 + x - 1) as u32, Decimal::ZERO));
                calls.push(mk("consumeFinalization", 1, Decimal::ZERO));
                calls.push(mk("consumeFinalization", 1, Decimal::ZERO));
                calls.push(mk("repayAll", 0, Decimal::ZERO));
                run_sequence(out, &p, &calls);
                sequences += 1;
            }
        }
        // zero amounts and contingent-only locks; abort exactly when the loan is repaid
        let zero = vec![lock(Decimal::ZERO, 1, false), mk("consumeExecution", 0, Decimal::ZERO), mk("consumeFinalization", 0, Decimal::ZERO),
                        mk_t("consumeStorage", 0, "State"), mk_t("consumeStorage", 0, "Archive"), royalty("Xrd", Decimal::ZERO, 1),
                        royalty("Usd", Decimal::ZERO, 2), mk("revertRoyalty", 0, Decimal::ZERO), mk("repayAll", 0, Decimal::ZERO),
                        mk("repayAll", 0, Decimal::ZERO)];
        run_sequence(out, &p, &zero);
        let cont_only = vec![lock(big, 1, true), lock(big, 2, true), mk("consumeExecution", loan.max(1), Decimal::ZERO), mk("repayAll", 0, Decimal::ZERO)];
        run_sequence(out, &p, &cont_only);
        for abort in [false, true] {
            let pa = P { cp: p.cp.clone(), tip: p.tip, credit: p.credit, abort };
            let calls = vec![lock(big, 1, false), mk("consumeExecution", loan.saturating_sub(1).max(1), Decimal::ZERO), mk("consumeExecution", 1, Decimal::ZERO),
                             mk("consumeExecution", 1, Decimal::ZERO), mk("repayAll", 0, Decimal::ZERO)];
            run_sequence(out, &pa, &calls);
            let nothing: Vec<Call> = vec![];
            run_sequence(out, &pa, &nothing);
        }
        sequences += 6;
    }
    out.emit(&json!({"a": "boundary_summary", "sequences": sequences, "shapes_with_a_failing_probe": untied}));
}

pub fn run(mode: &str, args: &Args) {
    let mut out = Out::new();
    match mode {
        "boundary" => boundary(&mut out, args.u64("full", 0) == 1),
        "run" => {
            const UNIT: i128 = 100_000_000_000_000; // 10^14 attos = 10^-4
            for s in read_lines() {
                let p = &s["p"];
                let i = |k: &str| p[k].as_i64().unwrap();
                let mut cp = CostingParameters::babylon_genesis();
                cp.execution_cost_unit_price = from_units(i("priceE"), UNIT);
                cp.finalization_cost_unit_price = from_units(i("priceF"), UNIT);
                cp.usd_price = from_units(i("usd"), UNIT);
                cp.state_storage_price = from_units(i("priceState"), UNIT);
                cp.archive_storage_price = from_units(i("priceArchive"), UNIT);
                cp.execution_cost_unit_loan = i("loan") as u32;
                cp.execution_cost_unit_limit = i("limitE") as u32;
                cp.finalization_cost_unit_limit = i("limitF") as u32;
                let bp = i("tipBp") as u32;
                // percentage and basis point specifiers of the same tip must behave alike
                let tip = if bp == 0 { TipSpecifier::None } else if bp % 100 == 0 && (bp / 100) % 2 == 0 { TipSpecifier::Percentage((bp / 100) as u16) } else { TipSpecifier::BasisPoints(bp) };
                let pp = P { cp, tip, credit: from_units(i("credit"), UNIT), abort: p["abortWhenRepaid"].as_bool().unwrap() };
                let calls: Vec<Call> = s["calls"].as_array().unwrap().iter().map(|c| Call {
                    op: c["op"].as_str().unwrap().to_string(), u: c["u"].as_u64().unwrap() as u32, t: c["t"].as_str().unwrap().to_string(),
                    kind: c["kind"].as_str().unwrap().to_string(), amt: from_units(c["amt"].as_i64().unwrap(), UNIT), r: c["r"].as_u64().unwrap(),
                    v: c["v"].as_u64().unwrap(), cont: c["cont"].as_bool().unwrap() }).collect();
                run_sequence(&mut out, &pp, &calls);
            }
        }
        "random" => {
            let seed = args.u64("seed", 1);
            let n = args.u64("n", 100);
            let len = args.u64("len", 12);
            let mut rng = StdRng::seed_from_u64(seed);
            for k in 0..n {
                let mut cp = CostingParameters::latest();
                // parameter classes: protocol values; price with 18 significant decimals; loan 0 / loan = limit; small limits
                match k % 5 {
                    1 => {
                        cp.execution_cost_unit_price = Decimal::from_attos(I192::from(50_000_000_000i128 + rng.gen_range(1..1_000_000_000i128)));
                        cp.finalization_cost_unit_price = Decimal::from_attos(I192::from(50_000_000_000i128 + rng.gen_range(1..1_000_000_000i128)));
                    }
                    2 => cp.execution_cost_unit_loan = 0,
                    3 => cp.execution_cost_unit_loan = cp.execution_cost_unit_limit,
                    4 => {
                        cp.execution_cost_unit_limit = 3_000_000;
                        cp.execution_cost_unit_loan = 1_000_000;
                        cp.finalization_cost_unit_limit = 500_000;
                    }
                    _ => {}
                }
                let tip = match rng.gen_range(0..6) {
                    0 => TipSpecifier::None,
                    1 => TipSpecifier::Percentage(rng.gen_range(0..=100)),
                    2 => TipSpecifier::Percentage(u16::MAX),
                    3 => TipSpecifier::BasisPoints(rng.gen_range(0..=20000)),
                    4 => TipSpecifier::BasisPoints(1),
                    _ => TipSpecifier::BasisPoints(1_000_000),
                };
                let credit = if rng.gen_bool(0.3) { Decimal::from(rng.gen_range(1..200u32)) } else { Decimal::ZERO };
                let p = P { cp, tip, credit, abort: rng.gen_bool(0.1) };
                let mut calls = vec![];
                for j in 0..len {
                    let ops: &[&str] = if j < 2 { &["consumeDeferredExecution", "consumeDeferredFinalization", "consumeDeferredStorage", "lockFee"] }
                        else { &["consumeExecution", "consumeExecution", "consumeExecution", "consumeFinalization", "consumeStorage", "consumeRoyalty", "lockFee", "lockFee", "repayAll", "revertRoyalty"] };
                    let op = ops[rng.gen_range(0..ops.len())].to_string();
                    let u = match op.as_str() {
                        "consumeExecution" | "consumeDeferredExecution" => [0u32, 1, 40_000, 500_000, 1_000_000, 4_000_000, 60_000_000][rng.gen_range(0..7)] + rng.gen_range(0..1000),
                        "consumeFinalization" | "consumeDeferredFinalization" => [0u32, 1, 100_000, 2_000_000, 30_000_000][rng.gen_range(0..5)] + rng.gen_range(0..100),
                        _ => rng.gen_range(0..5000),
                    };
                    let amt = match op.as_str() {
                        "lockFee" => Decimal::from_attos(I192::from(rng.gen_range(0..500_000_000_000_000_000_000i128))),
                        _ => Decimal::from_attos(I192::from(rng.gen_range(0..3_000_000_000_000_000_000i128))),
                    };
                    calls.push(Call { op, u, t: if rng.gen_bool(0.5) { "State".into() } else { "Archive".into() }, kind: if rng.gen_bool(0.5) { "Xrd".into() } else { "Usd".into() },
                        amt, r: rng.gen_range(1..=2), v: rng.gen_range(1..=3), cont: rng.gen_bool(0.3) });
                }
                run_sequence(&mut out, &p, &calls);
            }
        }
        _ => panic!("mode"),
    }
    out.flush();
}

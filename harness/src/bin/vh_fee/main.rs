//! vh_fee — fees: FeeReserve (C06: unit level + ledger fee outcomes), TxFailure (C02: fault sweep).
#![allow(clippy::all)]
mod faults;
mod forcewrite;
mod ledger;
mod reserve;

fn main() {
    let (module, mode, args) = vh::start();
    match module.as_str() {
        "reserve" => reserve::run(&mode, &args),
        "ledger" => ledger::run(&mode, &args),
        "faults" => faults::run(&mode, &args),
        "forcewrite" => forcewrite::run(&mode, &args),
        m => vh::unknown(m),
    }
}

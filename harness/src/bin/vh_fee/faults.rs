//! C02 — fault sweep.  Every workload transaction (transaction scenarios; seeded manifests with one / two
//! fee vaults, contingent locks, failing instructions) is executed without injection and then re-executed on
//! the SAME database state (nothing is committed in between) with InjectCostingError{error_after_count: n}
//! for every selected n up to the number N of costing calls.  Each run is logged as a `receipt` event:
//! result class, the classes of the substates touched by state_updates, the (name, emitter class) of the
//! events, the number of royalty payments.  TraceTxFailure (the specification's ReceiptOk) decides.
//! Projection (trusted): a touched substate is "fee_vault_balance" iff it is the balance field of a vault
//! listed in fee_source.paying_vaults; "validator_rewards" / "rewards_vault_balance" iff it is that field of
//! the consensus manager / the balance field of its rewards vault; "tracker" iff its node is the
//! transaction tracker; anything else is "other:<entity type>:<partition>".
use crate::ledger::for_each_scenario_transaction;
use radix_common::prelude::*;
use radix_engine::blueprints::consensus_manager::*;
use radix_engine::kernel::kernel::KernelInit;
use radix_engine::system::system_callback::SystemInit;
use radix_engine::system::system_db_reader::SystemDatabaseReader;
use radix_engine::transaction::*;
use radix_engine::vm::{VmInit, VmModules};
use radix_engine_interface::prelude::*;
use radix_substate_store_impls::memory_db::InMemorySubstateDatabase;
use radix_substate_store_interface::interface::*;
use radix_transactions::manifest::BuildableManifest;
use radix_transactions::prelude::*;
use rand::prelude::*;
use scrypto_test::prelude::{InjectCostingErrorInit, LedgerSimulatorBuilder};
use serde_json::{json, Value};
use vh::util::*;
use vh::Args;

fn run_injected(db: &InMemorySubstateDatabase, config: &ExecutionConfig, executable: &ExecutableTransaction, n: u64) -> Result<TransactionReceipt, String> {
    catch(|| {
        let vm_modules = VmModules::default();
        let vm_init = VmInit::load(db, &vm_modules);
        if n == 0 {
            let system_init = SystemInit::load(db, config.clone(), vm_init);
            KernelInit::load(db, system_init).execute(executable)
        } else {
            let system_init = InjectCostingErrorInit { system_input: SystemInit::load(db, config.clone(), vm_init), error_after_count: n };
            KernelInit::load(db, system_init).execute(executable)
        }
    })
}

fn rewards_vault(db: &InMemorySubstateDatabase) -> NodeId {
    let reader = SystemDatabaseReader::new(db);
    reader
        .read_typed_object_field::<ConsensusManagerValidatorRewardsFieldPayload>(CONSENSUS_MANAGER.as_node_id(), ModuleId::Main, ConsensusManagerField::ValidatorRewards.field_index())
        .unwrap()
        .fully_update_and_into_latest_version()
        .rewards_vault
        .0
         .0
}

pub(crate) fn project(db: &InMemorySubstateDatabase, r: &Result<TransactionReceipt, String>, n: u64) -> Value {
    let receipt = match r {
        Err(e) => return json!({"a": "receipt", "n": n, "class": format!("panic:{}", e).chars().take(120).collect::<String>(), "touched": [], "events": [], "royalties": 0, "units": [0, 0]}),
        Ok(x) => x,
    };
    let units = json!([receipt.fee_summary.total_execution_cost_units_consumed, receipt.fee_summary.total_finalization_cost_units_consumed]);
    match &receipt.result {
        TransactionResult::Reject(x) => json!({"a": "receipt", "n": n, "class": "Reject", "reason": format!("{:?}", x.reason).chars().take(60).collect::<String>(), "touched": [], "events": [], "royalties": 0, "units": units}),
        TransactionResult::Abort(x) => json!({"a": "receipt", "n": n, "class": "Abort", "reason": format!("{:?}", x.reason).chars().take(60).collect::<String>(), "touched": [], "events": [], "royalties": 0, "units": units}),
        TransactionResult::Commit(c) => {
            let ok = matches!(c.outcome, TransactionOutcome::Success(_));
            let paying: Vec<NodeId> = c.fee_source.paying_vaults.keys().cloned().collect();
            let rv = rewards_vault(db);
            let mut touched = std::collections::BTreeSet::<String>::new();
            for (node, nu) in &c.state_updates.by_node {
                let NodeStateUpdates::Delta { by_partition } = nu;
                for (part, pu) in by_partition {
                    let keys: Vec<Option<SubstateKey>> = match pu {
                        PartitionStateUpdates::Delta { by_substate } => by_substate.keys().cloned().map(Some).collect(),
                        PartitionStateUpdates::Batch(_) => vec![None],
                    };
                    for k in keys {
                        let is_balance = *part == MAIN_BASE_PARTITION && k == Some(SubstateKey::Field(0));
                        let cls = if paying.contains(node) && is_balance {
                            "fee_vault_balance".to_string()
                        } else if *node == CONSENSUS_MANAGER.into_node_id() && *part == MAIN_BASE_PARTITION && k == Some(SubstateKey::Field(ConsensusManagerField::ValidatorRewards.field_index())) {
                            "validator_rewards".to_string()
                        } else if *node == rv && is_balance {
                            "rewards_vault_balance".to_string()
                        } else if *node == TRANSACTION_TRACKER.into_node_id() {
                            "tracker".to_string()
                        } else {
                            format!("other:{:?}:{}", node.entity_type(), part.0)
                        };
                        touched.insert(cls);
                    }
                }
            }
            let mut events = std::collections::BTreeSet::<(String, String)>::new();
            for (id, _) in &c.application_events {
                let emitter = match &id.0 {
                    Emitter::Method(node, ModuleId::Main) if paying.contains(node) => "fee_vault",
                    Emitter::Method(node, ModuleId::Main) if *node == rv => "rewards_vault",
                    Emitter::Method(node, ModuleId::Main) if *node == XRD.into_node_id() => "xrd",
                    _ => "other",
                };
                events.insert((id.1.clone(), emitter.to_string()));
            }
            json!({"a": "receipt", "n": n, "class": if ok { "CommitSuccess" } else { "CommitFailure" },
                   "reason": match &c.outcome { TransactionOutcome::Failure(e) => format!("{:?}", e).chars().take(60).collect::<String>(), _ => String::new() },
                   "touched": touched.into_iter().collect::<Vec<_>>(), "events": events.into_iter().map(|(a, b)| json!([a, b])).collect::<Vec<_>>(),
                   "royalties": c.fee_destination.to_royalty_recipients.len(), "paying": paying.len(), "units": units})
        }
    }
}

fn same(a: &Value, b: &Value) -> bool {
    a["class"] == b["class"] && a["units"] == b["units"] && a["reason"] == b["reason"]
}

/// baseline + sweep of one transaction on `db` (not modified); returns the baseline receipt
fn sweep(out: &mut Out, db: &InMemorySubstateDatabase, config: &ExecutionConfig, executable: &ExecutableTransaction, label: &str, max_points: u64, abort_run: bool) -> TransactionReceipt {
    let base = run_injected(db, config, executable, 0);
    let base_ev = project(db, &base, 0);
    out.emit(&json!({"a": "begin", "label": label}));
    out.emit(&base_ev);
    // N = number of costing calls: smallest n whose outcome equals the baseline's is N + 1
    let mut hi = 64u64;
    while !same(&project(db, &run_injected(db, config, executable, hi), hi), &base_ev) && hi < (1 << 24) {
        hi *= 2;
    }
    let mut lo = 0u64; // differs (or 0)
    while hi - lo > 1 {
        let mid = (lo + hi) / 2;
        if same(&project(db, &run_injected(db, config, executable, mid), mid), &base_ev) {
            hi = mid;
        } else {
            lo = mid;
        }
    }
    let n_calls = lo;
    let mut points: Vec<u64> = if n_calls <= max_points {
        (1..=n_calls).collect()
    } else {
        let mut p: Vec<u64> = (1..=10).collect();
        p.extend((0..max_points).map(|k| 11 + k * (n_calls - 21) / max_points));
        p.extend((n_calls - 9)..=n_calls);
        p
    };
    points.sort();
    points.dedup();
    // the sampled points first; then every place between two neighbouring sampled points where the receipt changes its
    // class / the number of paying vaults / whether royalties are paid (e.g. rejection -> committed failure when the
    // loan is repaid) is located exactly by bisection, and the injection points at and next to it are added
    let mut seen = std::collections::BTreeMap::<u64, Value>::new();
    let mut at = |n: u64, seen: &mut std::collections::BTreeMap<u64, Value>| -> Value {
        if !seen.contains_key(&n) {
            let r = run_injected(db, config, executable, n);
            let mut ev = project(db, &r, n);
            ev["of"] = json!(n_calls);
            seen.insert(n, ev);
        }
        seen[&n].clone()
    };
    let sig = |e: &Value| (e["class"].clone(), e["paying"].clone(), e["royalties"].as_u64().unwrap_or(0) > 0);
    for n in &points {
        at(*n, &mut seen);
    }
    for w in points.windows(2) {
        let (mut lo, mut hi) = (w[0], w[1]);
        if hi - lo <= 1 || sig(&at(lo, &mut seen)) == sig(&at(hi, &mut seen)) {
            continue;
        }
        let s_lo = sig(&at(lo, &mut seen));
        while hi - lo > 1 {
            let mid = (lo + hi) / 2;
            if sig(&at(mid, &mut seen)) == s_lo {
                lo = mid;
            } else {
                hi = mid;
            }
        }
        for n in [lo.saturating_sub(1).max(1), hi + 1] {
            if n <= n_calls {
                at(n, &mut seen);
            }
        }
    }
    for ev in seen.values() {
        out.emit(ev);
    }
    if abort_run {
        let mut c2 = config.clone();
        let mut so = c2.system_overrides.clone().unwrap_or_default();
        so.abort_when_loan_repaid = true;
        c2.system_overrides = Some(so);
        let r = run_injected(db, &c2, executable, 0);
        out.emit(&json!({"a": "begin", "label": format!("{} (abort when loan repaid)", label)}));
        out.emit(&project(db, &r, 0));
    }
    base.expect("baseline execution must not panic")
}

pub fn run(mode: &str, args: &Args) {
    let mut out = Out::new();
    let max_points = args.u64("points", 60);
    match mode {
        "scenarios" => {
            let max = args.u64("max", 1000) as usize;
            let every = args.u64("every", 1);
            let network = NetworkDefinition::simulator();
            let mut k = 0u64;
            let also: Vec<String> = args.str("also", "").split(',').filter(|x| !x.is_empty()).map(|x| x.to_string()).collect();
            for_each_scenario_transaction(max, &also, |db: &mut InMemorySubstateDatabase, validator: &radix_transactions::validation::TransactionValidator, label: &str, raw: &RawNotarizedTransaction| {
                let executable = raw.validate(validator).expect("validates").create_executable();
                let config = ExecutionConfig::for_notarized_transaction(network.clone());
                k += 1;
                let base = run_injected(db, &config, &executable, 0).expect("no panic");
                let pays_royalty = matches!(&base.result, TransactionResult::Commit(c) if !c.fee_destination.to_royalty_recipients.is_empty());
                let receipt = if k % every == 0 || pays_royalty {
                    sweep(&mut out, db, &config, &executable, label, max_points, k % (every * 5) == 0)
                } else {
                    base
                };
                if let TransactionResult::Commit(c) = &receipt.result {
                    db.commit(&c.state_updates.create_database_updates());
                }
                receipt
            });
        }
        "history" => {
            let seed = args.u64("seed", 1);
            let n = args.u64("n", 20);
            let mut rng = StdRng::seed_from_u64(seed);
            let mut ledger = LedgerSimulatorBuilder::new().build();
            let accounts: Vec<(Secp256k1PublicKey, ComponentAddress)> = (0..3).map(|_| { let (pk, _, acc) = ledger.new_account(false); (pk, acc) }).collect();
            for k in 0..n {
                let a = rng.gen_range(0..3);
                let b = (a + 1 + rng.gen_range(0..2)) % 3;
                let (pk_a, acc_a) = accounts[a];
                let (pk_b, acc_b) = accounts[b];
                let kind = k % 5;
                let fee = Decimal::from(rng.gen_range(5..50u32));
                let mut m = ManifestBuilder::new();
                m = match kind {
                    1 => m.lock_fee(acc_a, fee).lock_fee(acc_b, Decimal::from(2u32)),
                    2 => m.lock_contingent_fee(acc_b, Decimal::from(3u32)).lock_fee(acc_a, fee),
                    3 => m.lock_fee_from_faucet().lock_contingent_fee(acc_b, Decimal::from(30u32)),
                    _ => m.lock_fee(acc_a, fee),
                };
                let amount = Decimal::from(rng.gen_range(1..20u32));
                m = m.withdraw_from_account(acc_a, XRD, amount);
                m = if kind == 4 { m.take_from_worktop(XRD, amount.checked_add(Decimal::ONE).unwrap(), "b").try_deposit_or_abort(acc_b, None, "b") } else { m.try_deposit_entire_worktop_or_abort(acc_b, None) };
                let proofs = vec![NonFungibleGlobalId::from_public_key(&pk_a), NonFungibleGlobalId::from_public_key(&pk_b)];
                let nonce = ledger.next_transaction_nonce();
                let executable = m.build().into_executable_with_proofs(nonce, proofs.into_iter().collect(), ledger.transaction_validator()).expect("executable");
                let config = ExecutionConfig::for_test_transaction();
                let receipt = sweep(&mut out, ledger.substate_db(), &config, &executable, &format!("history:{}:kind{}", k, kind), max_points, k % 4 == 0);
                if let TransactionResult::Commit(c) = &receipt.result {
                    ledger.substate_db_mut().commit(&c.state_updates.create_database_updates());
                }
            }
        }
        _ => panic!("mode"),
    }
    out.flush();
}

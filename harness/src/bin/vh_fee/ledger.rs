//! C06, ledger level — every committed receipt of (a) the repository's transaction scenarios at every
//! protocol version and (b) seeded LedgerSimulator histories is logged as a FeeOutcome event: costing
//! parameters, fee summary, fee_source.paying_vaults, fee_destination, and for every paying / royalty
//! vault the balance read from the database before and after the commit together with the sums of the
//! Deposit / Withdraw / PayFee events it emitted.  TraceFeeReserve decides (Paid, Split, Refund, limits).
use crate::reserve::limbs;
use radix_common::prelude::*;
use radix_engine::blueprints::resource::*;
use radix_engine::system::system_db_reader::SystemDatabaseReader;
use radix_engine::system::system_modules::costing::RoyaltyRecipient;
use radix_engine::transaction::*;
use radix_engine::updates::*;
use radix_engine::vm::VmModules;
use radix_engine_interface::blueprints::resource::*;
use radix_engine_interface::prelude::*;
use radix_substate_store_impls::memory_db::InMemorySubstateDatabase;
use radix_substate_store_interface::interface::*;
use radix_transaction_scenarios::scenario::*;
use radix_transaction_scenarios::scenarios::all_scenarios_iter;
use radix_transactions::manifest::BuildableManifest;
use radix_transactions::prelude::*;
use radix_transactions::validation::TransactionValidator;
use rand::prelude::*;
use scrypto_test::prelude::LedgerSimulatorBuilder;
use serde_json::{json, Value};
use vh::util::*;
use vh::Args;

pub fn vault_balance(db: &impl SubstateDatabase, vault: &NodeId) -> Option<Decimal> {
    let reader = SystemDatabaseReader::new(db);
    reader
        .read_typed_object_field::<FungibleVaultBalanceFieldPayload>(vault, ModuleId::Main, FungibleVaultField::Balance.field_index())
        .ok()
        .map(|p| p.fully_update_and_into_latest_version().amount())
}
fn short(n: &NodeId) -> String {
    hex::encode(&n.0[..])
}

/// builds the FeeOutcome event of a committed receipt and commits it to `db`
/// `contingent`: vaults from which the transaction locked a fee only contingently (known from its manifest)
pub fn fee_outcome(db: &mut InMemorySubstateDatabase, receipt: &TransactionReceipt, label: &str, contingent: &[NodeId]) -> Option<Value> {
    let commit = match &receipt.result {
        TransactionResult::Commit(c) => c,
        _ => return None,
    };
    let royalty_vaults: Vec<(NodeId, Decimal)> = commit.fee_destination.to_royalty_recipients.iter().map(|(r, a)| (r.vault_id(), *a)).collect();
    let mut vaults: Vec<NodeId> = commit.fee_source.paying_vaults.keys().cloned().collect();
    for (v, _) in &royalty_vaults {
        if !vaults.contains(v) {
            vaults.push(*v);
        }
    }
    for v in contingent {
        if !vaults.contains(v) {
            vaults.push(*v);
        }
    }
    let before: Vec<Decimal> = vaults.iter().map(|v| vault_balance(db, v).unwrap_or(Decimal::ZERO)).collect();
    db.commit(&commit.state_updates.create_database_updates());
    let after: Vec<Decimal> = vaults.iter().map(|v| vault_balance(db, v).unwrap_or(Decimal::ZERO)).collect();
    // event sums per vault
    let mut dep = vec![Decimal::ZERO; vaults.len()];
    let mut wd = vec![Decimal::ZERO; vaults.len()];
    let mut paid = vec![Decimal::ZERO; vaults.len()];
    for (id, data) in &commit.application_events {
        if let Emitter::Method(node, ModuleId::Main) = &id.0 {
            if let Some(k) = vaults.iter().position(|v| v == node) {
                match id.1.as_str() {
                    "DepositEvent" => dep[k] = dep[k] + scrypto_decode::<fungible_vault::DepositEvent>(data).unwrap().amount,
                    "WithdrawEvent" => wd[k] = wd[k] + scrypto_decode::<fungible_vault::WithdrawEvent>(data).unwrap().amount,
                    "RecallEvent" => wd[k] = wd[k] + scrypto_decode::<fungible_vault::RecallEvent>(data).unwrap().amount,
                    "PayFeeEvent" => paid[k] = paid[k] + scrypto_decode::<fungible_vault::PayFeeEvent>(data).unwrap().amount,
                    _ => {}
                }
            }
        }
    }
    let cp = &receipt.costing_parameters;
    let prop = receipt.transaction_costing_parameters.tip_proportion;
    let unit = I192::from(100_000_000_000_000i128);
    let tip_bp: i64 = if prop.attos() % unit == I192::ZERO { i64::try_from(prop.attos() / unit).unwrap_or(-1) } else { -1 };
    let fs = &receipt.fee_summary;
    let n_pay = commit.fee_source.paying_vaults.len();
    Some(json!({
        "a": "outcome", "label": label, "ok": matches!(commit.outcome, TransactionOutcome::Success(_)),
        "p": {"priceE": limbs(cp.execution_cost_unit_price), "priceF": limbs(cp.finalization_cost_unit_price), "usd": limbs(cp.usd_price),
              "priceState": limbs(cp.state_storage_price), "priceArchive": limbs(cp.archive_storage_price), "loan": cp.execution_cost_unit_loan,
              "limitE": cp.execution_cost_unit_limit, "limitF": cp.finalization_cost_unit_limit, "tipBp": tip_bp,
              "credit": limbs(receipt.transaction_costing_parameters.free_credit_in_xrd), "abortWhenRepaid": false},
        "s": {"execUnits": fs.total_execution_cost_units_consumed, "finUnits": fs.total_finalization_cost_units_consumed,
              "exec": limbs(fs.total_execution_cost_in_xrd), "fin": limbs(fs.total_finalization_cost_in_xrd), "tip": limbs(fs.total_tipping_cost_in_xrd),
              "storage": limbs(fs.total_storage_cost_in_xrd), "royalty": limbs(fs.total_royalty_cost_in_xrd), "badDebt": limbs(Decimal::ZERO)},
        "paid": commit.fee_source.paying_vaults.iter().map(|(v, a)| json!({"v": short(v), "amt": limbs(*a)})).collect::<Vec<_>>(),
        "dest": {"toProposer": limbs(commit.fee_destination.to_proposer), "toValidatorSet": limbs(commit.fee_destination.to_validator_set),
                 "toBurn": limbs(commit.fee_destination.to_burn),
                 "royalties": royalty_vaults.iter().map(|(v, a)| json!({"v": short(v), "amt": limbs(*a)})).collect::<Vec<_>>()},
        "vaults": (0..n_pay).map(|k| json!({"v": short(&vaults[k]), "before": limbs(before[k]), "after": limbs(after[k]), "deposits": limbs(dep[k]),
                                            "withdrawals": limbs(wd[k]), "paid": limbs(paid[k])})).collect::<Vec<_>>(),
        "contingentVaults": contingent.iter().map(|v| { let k = vaults.iter().position(|x| x == v).unwrap();
                                            json!({"v": short(v), "before": limbs(before[k]), "after": limbs(after[k]), "deposits": limbs(dep[k]),
                                                   "withdrawals": limbs(wd[k]), "paid": limbs(paid[k])}) }).collect::<Vec<_>>(),
        "royaltyVaults": royalty_vaults.iter().map(|(v, a)| { let k = vaults.iter().position(|x| x == v).unwrap();
                                            json!({"v": short(v), "before": limbs(before[k]), "after": limbs(after[k]), "deposits": limbs(dep[k]),
                                                   "withdrawals": limbs(Decimal::ZERO.checked_add(wd[k]).unwrap().checked_add(paid[k]).unwrap()), "credited": limbs(*a)}) }).collect::<Vec<_>>(),
    }))
}

/// all transaction scenarios, each when it first becomes valid, at every protocol version (own loop in
/// place of TransactionScenarioExecutor so that the database is available BEFORE the commit)
/// the first `max_scenarios` scenarios and, whatever their position, the ones named in `also`
pub fn for_each_scenario_transaction(max_scenarios: usize, also: &[String], mut f: impl FnMut(&mut InMemorySubstateDatabase, &TransactionValidator, &str, &RawNotarizedTransaction) -> TransactionReceipt) {
    let network = NetworkDefinition::simulator();
    let mut db = InMemorySubstateDatabase::standard();
    let mut nonce = 0u32;
    let mut done = 0usize;
    let mut also_left: Vec<String> = also.to_vec();
    let protocol = ProtocolBuilder::for_network(&network).from_bootstrap_to_latest();
    for update in protocol.each_protocol_update_executor(&db) {
        let version = update.protocol_version;
        update.run_and_commit(&mut db);
        let validator = TransactionValidator::new(&db, &network);
        for creator in all_scenarios_iter().filter(|c| c.metadata().protocol_min_requirement == version) {
            let name = creator.metadata().logical_name.to_string();
            if done >= max_scenarios {
                if also_left.is_empty() {
                    return;
                }
                if !also_left.contains(&name) {
                    continue;
                }
            }
            also_left.retain(|n| *n != name);
            done += 1;
            let epoch = SystemDatabaseReader::new(&db)
                .read_typed_object_field::<radix_engine::blueprints::consensus_manager::ConsensusManagerStateFieldPayload>(CONSENSUS_MANAGER.as_node_id(), ModuleId::Main, 1u8)
                .unwrap()
                .fully_update_and_into_latest_version()
                .epoch;
            let mut scenario = creator.create(ScenarioCore::new(network.clone(), epoch, nonce));
            let mut previous: Option<TransactionReceipt> = None;
            loop {
                match scenario.next(previous.as_ref()).map_err(|e| format!("{:?}", e.into_full(scenario.as_ref()))).expect("scenario") {
                    NextAction::Transaction(next) => {
                        let receipt = f(&mut db, &validator, &format!("{}:{}:{}", name, next.stage_counter, next.logical_name), &next.raw_transaction);
                        previous = Some(receipt);
                    }
                    NextAction::Completed(end) => {
                        nonce = end.next_unused_nonce;
                        break;
                    }
                }
            }
        }
    }
}

pub fn run(mode: &str, args: &Args) {
    let mut out = Out::new();
    match mode {
        "scenarios" => {
            let max = args.u64("max", 1000) as usize;
            let network = NetworkDefinition::simulator();
            let mut n = 0u64;
            let also: Vec<String> = args.str("also", "").split(',').filter(|x| !x.is_empty()).map(|x| x.to_string()).collect();
            for_each_scenario_transaction(max, &also, |db: &mut InMemorySubstateDatabase, validator: &TransactionValidator, label: &str, raw: &RawNotarizedTransaction| {
                let validated = raw.validate(validator).expect("scenario transaction validates");
                let receipt = execute_transaction(&*db, &VmModules::default(), &ExecutionConfig::for_notarized_transaction(network.clone()), validated.create_executable());
                if let Some(ev) = fee_outcome(db, &receipt, label, &[]) {
                    out.emit(&ev);
                    n += 1;
                }
                receipt
            });
            let _ = n;
        }
        "history" => history(args, &mut out),
        "l3" => l3(args, &mut out),
        _ => panic!("mode"),
    }
    out.flush();
}

/// seeded history on a LedgerSimulator: transfers with one or two fee vaults, contingent locks, failing
/// manifests, tips through notarized V1 (percentage) transactions, free credit through preview-style executables
fn history(args: &Args, out: &mut Out) {
    let seed = args.u64("seed", 1);
    let n = args.u64("n", 100);
    let mut rng = StdRng::seed_from_u64(seed);
    let mut ledger = LedgerSimulatorBuilder::new().build();
    let accounts: Vec<(Secp256k1PublicKey, ComponentAddress)> = (0..3).map(|_| { let (pk, _, acc) = ledger.new_account(false); (pk, acc) }).collect();
    for k in 0..n {
        let a = rng.gen_range(0..3);
        let b = (a + 1 + rng.gen_range(0..2)) % 3;
        let (pk_a, acc_a) = accounts[a];
        let (pk_b, acc_b) = accounts[b];
        let mut m = ManifestBuilder::new();
        // the kind is not drawn: k % 6 against the k % 7 costing override below covers the full product in 42 steps
        let kind = k % 6;
        let fee = Decimal::from(rng.gen_range(5..50u32));
        m = match kind {
            1 => m.lock_fee(acc_a, fee).lock_fee(acc_b, Decimal::from(2u32)),
            2 => m.lock_contingent_fee(acc_b, Decimal::from(3u32)).lock_fee(acc_a, fee),
            3 => m.lock_fee(acc_a, dec!("0.6")).lock_contingent_fee(acc_b, Decimal::from(30u32)),
            // fails with the contingent lock made LAST (the one the executor would draw from first): it must pay nothing
            5 => m.lock_fee(acc_a, fee).lock_contingent_fee(acc_b, Decimal::from(30u32)),
            _ => m.lock_fee(acc_a, fee),
        };
        let amount = Decimal::from(rng.gen_range(1..20u32));
        m = m.withdraw_from_account(acc_a, XRD, amount);
        let contingent: Vec<NodeId> = if kind == 2 || kind == 3 || kind == 5 { ledger.get_component_vaults(acc_b, XRD) } else { vec![] };
        m = if kind == 4 || kind == 5 {
            // fails after the fee loan is repaid: more is taken from the worktop than is there
            m.take_from_worktop(XRD, amount.checked_add(Decimal::ONE).unwrap(), "b").try_deposit_or_abort(acc_b, None, "b")
        } else {
            m.try_deposit_entire_worktop_or_abort(acc_b, None)
        };
        let manifest = m.build();
        let proofs = vec![NonFungibleGlobalId::from_public_key(&pk_a), NonFungibleGlobalId::from_public_key(&pk_b)];
        let nonce = ledger.next_transaction_nonce();
        let executable = manifest.into_executable_with_proofs(nonce, proofs.into_iter().collect(), ledger.transaction_validator()).expect("executable");
        let mut config = ExecutionConfig::for_test_transaction();
        if k % 7 == 3 {
            // a boundary costing parameter set: smaller loan and limits
            let mut cp = CostingParameters::latest();
            cp.execution_cost_unit_loan = 1_000_000;
            config.system_overrides = Some(SystemOverrides { costing_parameters: Some(cp), ..Default::default() });
        }
        let receipt = ledger.execute_transaction_no_commit(executable, config);
        if let Some(ev) = fee_outcome(ledger.substate_db_mut(), &receipt, &format!("history:{}:kind{}", k, kind), &contingent) {
            out.emit(&ev);
        } else {
            out.emit(&json!({"a": "skipped", "label": format!("history:{}:kind{}", k, kind), "result": format!("{:?}", receipt.result).chars().take(100).collect::<String>()}));
        }
    }
}

/// Lead L3 at ledger level: a notarized V1 transaction with a tip, executed with SystemOverrides costing
/// parameters whose execution price has 18 significant decimals (so that price * (1 + tip) is truncated).
/// The locked fee is bisected (in attos) between "too little" and "enough"; the outcomes at and around the
/// boundary are reported.  A panic of the executor's `required == 0` assertion shows up as outcome "panic:..".
fn l3(args: &Args, out: &mut Out) {
    let tip_percentage = args.u64("tip", 1) as u16;
    let price_attos = args.u64("price_attos", 50_000_000_001) as i128;
    let mut ledger = LedgerSimulatorBuilder::new().build();
    let (pk, sk, account) = ledger.new_account(false);
    let (_, _, other) = ledger.new_account(false);
    let mut cp = CostingParameters::latest();
    cp.execution_cost_unit_price = Decimal::from_attos(I192::from(price_attos));
    cp.finalization_cost_unit_price = Decimal::from_attos(I192::from(price_attos));
    let epoch = ledger.get_current_epoch();
    let snapshot = ledger.create_snapshot();
    let mut run = |ledger: &mut scrypto_test::prelude::DefaultLedgerSimulator, lock_attos: i128, nonce: u32| -> String {
        ledger.restore_snapshot(snapshot.clone());
        let manifest = ManifestBuilder::new()
            .lock_fee(account, Decimal::from_attos(I192::from(lock_attos)))
            .withdraw_from_account(account, XRD, Decimal::ONE)
            .try_deposit_entire_worktop_or_abort(other, None)
            .build();
        let tx = TransactionBuilder::new()
            .header(TransactionHeaderV1 { network_id: NetworkDefinition::simulator().id, start_epoch_inclusive: epoch, end_epoch_exclusive: epoch.next().unwrap(),
                                         nonce, notary_public_key: pk.into(), notary_is_signatory: true, tip_percentage })
            .manifest(manifest)
            .notarize(&sk)
            .build();
        let mut config = ExecutionConfig::for_notarized_transaction(NetworkDefinition::simulator());
        config.system_overrides = Some(SystemOverrides { costing_parameters: Some(cp.clone()), ..Default::default() });
        match catch(|| ledger.execute_transaction_no_commit(tx, config)) {
            Err(e) => format!("panic:{}", e).chars().take(160).collect(),
            Ok(r) => match &r.result {
                TransactionResult::Commit(c) => match &c.outcome {
                    TransactionOutcome::Success(_) => "success".to_string(),
                    TransactionOutcome::Failure(e) => format!("failure:{:?}", e).chars().take(90).collect(),
                },
                TransactionResult::Reject(x) => format!("reject:{:?}", x.reason).chars().take(90).collect(),
                TransactionResult::Abort(_) => "abort".to_string(),
            },
        }
    };
    let mut lo: i128 = 0; // not enough
    let mut hi: i128 = 20_000_000_000_000_000_000; // 20 XRD: enough
    let top = run(&mut ledger, hi, 1);
    let mut steps = 0;
    while hi - lo > 1 {
        let mid = lo + (hi - lo) / 2;
        let r = run(&mut ledger, mid, 1);
        steps += 1;
        if r == "success" || r.starts_with("panic") {
            hi = mid;
        } else {
            lo = mid;
        }
    }
    // outcomes in a window around the boundary
    let mut window = vec![];
    let mut panics = 0u64;
    let mut first_success: Option<i128> = None;
    let mut d: i128 = -2;
    while d <= 200_000 {
        let r = run(&mut ledger, hi + d, 1);
        if r.starts_with("panic") {
            panics += 1;
        }
        if r == "success" && first_success.is_none() {
            first_success = Some(hi + d);
        }
        if window.len() < 12 || r == "success" {
            window.push(json!({"lock_attos_minus_boundary": d, "outcome": r}));
        }
        if first_success.is_some() && d > 4 {
            break;
        }
        d += if d < 4 { 1 } else { 997 };
    }
    out.emit(&json!({"a": "l3", "tip_percentage": tip_percentage, "price_attos": price_attos.to_string(), "at_20_xrd": top, "bisection_steps": steps,
                     "boundary_lock_attos": hi.to_string(), "panics_in_window": panics,
                     "first_success_minus_boundary": first_success.map(|x| (x - hi).to_string()), "window": window}));
}

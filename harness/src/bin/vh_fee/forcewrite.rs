//! C02 — a NATIVE TEST BLUEPRINT `F` (OverridePackageCode + publish_native_package + VmInvoke) that tries, from a
//! blueprint that is not the fungible vault, every way of making a write / an event survive a failed transaction:
//!   field of SELF, key-value collection entry of SELF, entry of an owned key-value store, each opened with
//!   MUTABLE (control) / MUTABLE|FORCE_WRITE / MUTABLE|UNMODIFIED_BASE / all three; an event with EventFlags::FORCE_WRITE
//!   (control: no flag); and the legitimate path: lock_fee on an OWNED vault through the vault's own method.
//! One transaction per attempt: lock_fee; call F::poke(variant); ASSERT_WORKTOP_CONTAINS of something absent -> the
//! transaction commits as a failure.  Recorded per attempt: `begin`, `attempt` (what was tried and what the system
//! answered - the blueprint goes on after a refusal), `receipt` (projection of the committed failure).  TraceTxFailure
//! decides (PrivilegedOpenOk, ReceiptOk); nothing is decided here.
#[path = "../vh_sys/bp.rs"]
#[allow(dead_code)]
mod bp;
use bp::{package_definition, BpSpec, Ev};
use radix_engine::errors::*;
use radix_engine::kernel::kernel_api::*;
use radix_engine::system::system_callback::*;
use radix_engine::vm::*;
use radix_engine_interface::api::*;
use radix_native_sdk::modules::metadata::Metadata;
use radix_native_sdk::modules::role_assignment::RoleAssignment;
use radix_native_sdk::resource::*;
use scrypto_test::prelude::*;
use serde_json::{json, Value};
use std::cell::RefCell;
use vh::util::*;
use vh::Args;

const CODE_ID: u64 = 7802;
const F_BP: &str = "F";
const FAKE_BP: &str = "FungibleVault";

thread_local! {
    /// what the last F::poke tried and what the system answered
    static ATTEMPT: RefCell<Option<Value>> = RefCell::new(None);
}

fn package() -> PackageDefinition {
    let mut f = BpSpec::new(F_BP);
    f.fields = 1;
    f.kv_collections = 1;
    f.event_e = true;
    f.functions = vec![("new", false), ("poke", true)];
    // the same blueprint under the NAME of the privileged one, in this (non-resource) package
    let mut v = BpSpec::new(FAKE_BP);
    v.fields = 1;
    v.kv_collections = 1;
    v.event_e = true;
    v.functions = vec![("new", false), ("poke", true)];
    package_definition(&[f, v])
}

fn flags_of(sel: u8) -> (LockFlags, Vec<&'static str>) {
    match sel {
        0 => (LockFlags::MUTABLE, vec!["MUTABLE"]),
        1 => (LockFlags::MUTABLE | LockFlags::FORCE_WRITE, vec!["MUTABLE", "FORCE_WRITE"]),
        2 => (LockFlags::MUTABLE | LockFlags::UNMODIFIED_BASE, vec!["MUTABLE", "UNMODIFIED_BASE"]),
        _ => (LockFlags::MUTABLE | LockFlags::FORCE_WRITE | LockFlags::UNMODIFIED_BASE, vec!["MUTABLE", "FORCE_WRITE", "UNMODIFIED_BASE"]),
    }
}

fn class_of<T>(r: &Result<T, RuntimeError>) -> String {
    match r {
        Ok(_) => "ok".to_string(),
        Err(RuntimeError::SystemError(s)) => bp::variant_name(&format!("{:?}", s)),
        Err(e) => bp::error_class(e),
    }
}

#[derive(ScryptoSbor)]
struct FState {
    vault: Own,
    store: Own,
    counter: u64,
}

fn invoke<Y: SystemApi<RuntimeError> + KernelNodeApi + KernelSubstateApi<SystemLockData>>(
    export: &str,
    input: &IndexedScryptoValue,
    api: &mut Y,
) -> Result<IndexedScryptoValue, RuntimeError> {
    let (bp_name, function) = export.split_once("::").expect("harness: export name");
    match function {
        "new" => {
            let (bucket,): (Bucket,) = input.as_typed().expect("harness: F::new takes a bucket");
            let mut vault = Vault::create(XRD, api)?;
            vault.put(bucket, api)?;
            let store = api.key_value_store_new(KeyValueStoreDataSchema::new_local_without_self_package_replacement::<u32, u64>(false))?;
            let state = FState { vault: vault.0, store: Own(store), counter: 0 };
            let metadata = Metadata::create(api)?;
            let access_rules = RoleAssignment::create(OwnerRole::None, indexmap!(), api)?;
            let node_id = api.new_simple_object(bp_name, indexmap!(0u8 => FieldValue::new(&state)))?;
            let addr = api.globalize(
                node_id,
                indexmap!(AttachedModuleId::Metadata => metadata.0, AttachedModuleId::RoleAssignment => access_rules.0.0),
                None,
            )?;
            Ok(IndexedScryptoValue::from_typed(&addr))
        }
        "poke" => {
            let (kind, sel): (u8, u8) = input.as_typed().expect("harness: F::poke takes (kind, flags)");
            // the owned nodes, read the ordinary way (they stay visible while the read handle is open: kinds 2 and 4)
            let h = api.actor_open_field(ACTOR_STATE_SELF, 0u8, LockFlags::read_only())?;
            let state: FState = api.field_read_typed(h)?;
            if kind < 2 {
                api.field_close(h)?;
            }
            let (flags, names) = flags_of(sel);
            let (what, result): (&str, String) = match kind {
                0 => {
                    let r = api.actor_open_field(ACTOR_STATE_SELF, 0u8, flags);
                    let c = class_of(&r);
                    if let Ok(h) = r {
                        api.field_write_typed(h, &FState { vault: state.vault, store: state.store, counter: state.counter + 1000 })?;
                        api.field_close(h)?;
                    }
                    ("field", c)
                }
                1 => {
                    let key = scrypto_encode(&7u32).unwrap();
                    let r = api.actor_open_key_value_entry(ACTOR_STATE_SELF, 0u8, &key, flags);
                    let c = class_of(&r);
                    if let Ok(h) = r {
                        api.key_value_entry_set(h, scrypto_encode(&4242u64).unwrap())?;
                        api.key_value_entry_close(h)?;
                    }
                    ("collection_entry", c)
                }
                2 => {
                    let key = scrypto_encode(&7u32).unwrap();
                    let r = api.key_value_store_open_entry(state.store.as_node_id(), &key, flags);
                    let c = class_of(&r);
                    if let Ok(h) = r {
                        api.key_value_entry_set(h, scrypto_encode(&4242u64).unwrap())?;
                        api.key_value_entry_close(h)?;
                    }
                    ("store_entry", c)
                }
                3 => {
                    let ef = if sel == 0 { EventFlags::empty() } else { EventFlags::FORCE_WRITE };
                    let r = api.actor_emit_event("Ev".to_string(), scrypto_encode(&Ev { d: vec![1, 2, 3] }).unwrap(), ef);
                    ("event", class_of(&r))
                }
                _ => {
                    // the legitimate path: the vault's own method makes its balance survive the failure
                    let r = Vault(state.vault).lock_fee(api, Decimal::ONE);
                    ("owned_vault_lock_fee", class_of(&r))
                }
            };
            if kind >= 2 {
                api.field_close(h)?;
            }
            let flag_names: Vec<&str> = match kind {
                3 => if sel == 0 { vec![] } else { vec!["FORCE_WRITE"] },
                4 => vec![],
                _ => names,
            };
            ATTEMPT.with(|a| *a.borrow_mut() = Some(json!({"a": "attempt", "kind": what, "flags": flag_names, "blueprint": if kind == 4 { "FungibleVault" } else { bp_name },
                                                                "package": if kind == 4 { "resource" } else { "test" }, "result": result})));
            Ok(IndexedScryptoValue::from_typed(&()))
        }
        _ => panic!("harness: unknown export {}", export),
    }
}

#[derive(Clone)]
struct Fw;
impl VmInvoke for Fw {
    fn invoke<Y: SystemApi<RuntimeError> + KernelNodeApi + KernelSubstateApi<SystemLockData> + SystemBasedKernelInternalApi, V: VmApi>(
        &mut self,
        export_name: &str,
        input: &IndexedScryptoValue,
        api: &mut Y,
        _vm_api: &V,
    ) -> Result<IndexedScryptoValue, RuntimeError> {
        invoke(export_name, input, api)
    }
}

pub fn run(mode: &str, _args: &Args) {
    if mode != "attempts" {
        panic!("mode");
    }
    let mut out = Out::new();
    let mut ledger = LedgerSimulatorBuilder::new().with_custom_extension(OverridePackageCode::new(CODE_ID, Fw)).without_kernel_trace().without_receipt_substate_check().build();
    let pkg = ledger.publish_native_package(CODE_ID, package());
    let receipt = ledger.execute_manifest(
        ManifestBuilder::new()
            .lock_fee_from_faucet()
            .get_free_xrd_from_faucet()
            .take_all_from_worktop(XRD, "b")
            .with_name_lookup(|b, l| b.call_function(pkg, F_BP, "new", manifest_args!(l.bucket("b"))))
            .build(),
        vec![],
    );
    let comp = receipt.expect_commit_success().new_component_addresses()[0];
    let receipt = ledger.execute_manifest(
        ManifestBuilder::new()
            .lock_fee_from_faucet()
            .get_free_xrd_from_faucet()
            .take_all_from_worktop(XRD, "b")
            .with_name_lookup(|b, l| b.call_function(pkg, FAKE_BP, "new", manifest_args!(l.bucket("b"))))
            .build(),
        vec![],
    );
    let fake = receipt.expect_commit_success().new_component_addresses()[0];
    let mut variants: Vec<(ComponentAddress, &str, u8, u8)> = vec![];
    for kind in 0..3u8 {
        for sel in 0..4u8 {
            variants.push((comp, F_BP, kind, sel));
        }
    }
    variants.extend([(comp, F_BP, 3, 0), (comp, F_BP, 3, 1), (comp, F_BP, 4, 0)]);
    // the blueprint that only has the privileged blueprint's NAME: event and substate attempts
    variants.extend([(fake, "fake", 3, 0), (fake, "fake", 3, 1), (fake, "fake", 0, 1), (fake, "fake", 1, 1), (fake, "fake", 2, 3)]);
    for (comp, tag, kind, sel) in variants {
        for fails in [true, false] {
            // the failing transaction is the subject; the succeeding one (controls only) shows that the write is real
            if !fails && !(sel == 0) {
                continue;
            }
            ATTEMPT.with(|a| *a.borrow_mut() = None);
            let mut b = ManifestBuilder::new().lock_fee_from_faucet().call_method(comp, "poke", manifest_args!(kind, sel));
            if fails {
                b = b.assert_worktop_contains(XRD, Decimal::ONE);
            }
            let label = format!("forcewrite{}:kind{}:flags{}:{}", if tag == F_BP { "".to_string() } else { format!("-{}", tag) }, kind, sel, if fails { "failing" } else { "succeeding" });
            let res = catch(|| ledger.execute_manifest(b.build(), vec![]));
            out.emit(&json!({"a": "begin", "label": label}));
            let attempt = ATTEMPT.with(|a| a.borrow().clone());
            match attempt {
                Some(mut a) => {
                    a["label"] = json!(label);
                    out.emit(&a);
                }
                None => out.emit(&json!({"a": "attempt", "label": label, "kind": "none", "flags": [], "blueprint": F_BP, "package": "test", "result": "not reached"})),
            }
            let mut ev = crate::faults::project(ledger.substate_db(), &res, 0);
            ev["label"] = json!(label);
            out.emit(&ev);
        }
    }
    out.flush();
}

//! vh_modules — object modules as first-class state: Royalty (X04) and Metadata (X05) at ledger level
//! (scrypto_test::LedgerSimulator + the native test blueprints of vh_auth/tb.rs).
#![allow(clippy::all)]
mod metadata;
mod royalty;
#[path = "../vh_auth/tb.rs"]
mod tb;

fn main() {
    let (module, mode, args) = vh::start();
    match module.as_str() {
        "royalty" => royalty::run(&mode, &args),
        "metadata" => metadata::run(&mode, &args),
        m => vh::unknown(m),
    }
}

//! X05 — binding of spec/Metadata to the metadata module of a real global component.
//! Histories come from TLC (GenMetadata): an initial key -> entry map with role assignments and operations (set /
//! remove / lock / get / role assignment by callers presenting badges) with the expected outcome class, the value
//! returned by get and the complete state afterwards.  Each operation is one transaction against a fresh component of
//! the native test blueprint created with that metadata; afterwards every entry (presence, value, lock flag) and the
//! two role assignments are read back from the database.
//! Symbolic values are made concrete here (a string whose stored payload has exactly the SBOR length the model names, a
//! URL / origin of exactly the named length that matches / does not match the pattern) and projected back the same way;
//! the harness does not decide which operations must fail.
use crate::tb::*;
use radix_engine::object_modules::metadata::{MetadataEntryEntryPayload, MetadataError, MetadataValueValidationError};
use radix_engine::object_modules::role_assignment::RoleAssignmentAccessRuleEntryPayload;
use scrypto_test::prelude::*;
use serde_json::{json, Value};
use std::collections::BTreeMap;
use vh::util::*;
use vh::Args;

pub fn run(mode: &str, args: &Args) {
    match mode {
        "replay" => replay(args),
        _ => panic!("mode"),
    }
}

const KEYS: [&str; 4] = ["k1", "k2", "k100", "k101"];

fn key(k: &str) -> String {
    match k {
        "k100" => format!("k{}", "x".repeat(99)),
        "k101" => format!("k{}", "x".repeat(100)),
        other => other.to_string(),
    }
}
fn payload_len(v: &MetadataValue) -> usize {
    scrypto_encode(&MetadataEntryEntryPayload::from_content_source(v.clone())).unwrap().len()
}
fn tag_char(tag: u64) -> char {
    (b'a' + tag as u8) as char
}
/// the concrete value the model's [kind, size, wf, tag] stands for
fn value(v: &Value) -> MetadataValue {
    let (size, tag) = (v["size"].as_u64().unwrap() as usize, v["tag"].as_u64().unwrap());
    let wf = v["wf"].as_bool().unwrap();
    let fill = |prefix: &str, suffix: &str, len: usize| -> String {
        format!("{}{}{}", prefix, tag_char(tag).to_string().repeat(len - prefix.len() - suffix.len()), suffix)
    };
    match v["kind"].as_str().unwrap() {
        "u32" => MetadataValue::U32(size as u32),
        "string" => {
            // find the text length whose stored payload has exactly `size` bytes
            let mut n = size.saturating_sub(16);
            loop {
                let s = MetadataValue::String(tag_char(tag).to_string().repeat(n));
                let l = payload_len(&s);
                if l == size {
                    return s;
                }
                assert!(l < size && n < size, "no string with payload length {}", size);
                n += size - l;
            }
        }
        "url" => MetadataValue::Url(UncheckedUrl::of(if wf { fill("https://www.example.com/", "", size) } else { fill("nourl:", "", size) })),
        "origin" => MetadataValue::Origin(UncheckedOrigin::of(if wf { fill("https://www.", ".com", size) } else { fill("https://www.example.com/", "", size) })),
        x => panic!("value kind {}", x),
    }
}
/// the model's name for a stored value
fn project(v: &MetadataValue) -> Value {
    let tag_of = |c: Option<char>| c.map(|c| (c as u8).wrapping_sub(b'a') as u64).unwrap_or(99);
    match v {
        MetadataValue::U32(n) => json!({"kind": "u32", "size": n, "wf": true, "tag": 0}),
        MetadataValue::String(s) => json!({"kind": "string", "size": payload_len(v), "wf": true, "tag": tag_of(s.chars().next())}),
        MetadataValue::Url(u) => json!({"kind": "url", "size": u.as_str().len(), "wf": true, "tag": tag_of(u.as_str().chars().last())}),
        MetadataValue::Origin(o) => json!({"kind": "origin", "size": o.as_str().len(), "wf": true, "tag": tag_of(o.as_str().chars().nth(12))}),
        other => json!({"kind": format!("{:?}", other), "size": 0, "wf": true, "tag": 0}),
    }
}
fn no_val() -> Value {
    json!({"kind": "none", "size": 0, "wf": true, "tag": 0})
}

struct Md {
    w: World,
}
impl Md {
    fn badge_rule(&self, v: u64) -> AccessRule {
        rule!(require(NonFungibleGlobalId::new(self.w.nres, NonFungibleLocalId::integer(v))))
    }
    fn badge_of(&self, r: &AccessRule) -> i64 {
        (1..=3).find(|b| *r == self.badge_rule(*b)).map(|b| b as i64).unwrap_or(-1)
    }
    fn create(&mut self, st: &Value) -> ComponentAddress {
        let mut a = NewArgs::simple(OwnerRole::Fixed(self.badge_rule(1)), RoleAssignmentInit::default());
        for k in KEYS {
            let e = &st["entry"][k];
            let (present, locked) = (e["present"].as_bool().unwrap(), e["locked"].as_bool().unwrap());
            if present || locked {
                a.metadata.data.insert(key(k), KeyValueStoreInitEntry { value: if present { Some(value(&e["val"])) } else { None }, lock: locked });
            }
        }
        let mut roles = RoleAssignmentInit::default();
        for (role, who) in [(METADATA_SETTER_ROLE, &st["setter"]), (METADATA_LOCKER_ROLE, &st["locker"])] {
            let b = who.as_u64().unwrap();
            if b != 0 {
                roles.data.insert(RoleKey::new(role), Some(self.badge_rule(b)));
            }
        }
        a.roles.insert(ModuleId::Metadata, roles);
        let pkg = self.w.pkg;
        self.w.new_component(pkg, a).expect("component with metadata")
    }
    fn observe(&self, t: ComponentAddress) -> Value {
        let db = self.w.ledger.substate_db();
        let mut entry = serde_json::Map::new();
        for k in KEYS {
            let e: Option<KeyValueEntrySubstate<MetadataEntryEntryPayload>> =
                db.get_substate(t.as_node_id(), METADATA_BASE_PARTITION, SubstateKey::Map(scrypto_encode(&key(k)).unwrap()));
            let (present, val, locked) = match e {
                None => (false, no_val(), false),
                Some(e) => {
                    let locked = e.is_locked();
                    match e.into_value() {
                        None => (false, no_val(), locked),
                        Some(p) => (true, project(&p.fully_update_and_into_latest_version()), locked),
                    }
                }
            };
            entry.insert(k.to_string(), json!({"present": present, "val": val, "locked": locked}));
        }
        let role = |name: &str| -> i64 {
            let e: Option<KeyValueEntrySubstate<RoleAssignmentAccessRuleEntryPayload>> = db.get_substate(
                t.as_node_id(),
                ROLE_ASSIGNMENT_BASE_PARTITION.at_offset(ROLE_ASSIGNMENT_ROLE_DEF_PARTITION_OFFSET).unwrap(),
                SubstateKey::Map(scrypto_encode(&ModuleRoleKey::new(ModuleId::Metadata, name)).unwrap()),
            );
            e.and_then(|e| e.into_value()).map(|p| self.badge_of(&p.fully_update_and_into_latest_version())).unwrap_or(0)
        };
        json!({"entry": entry, "setter": role(METADATA_SETTER_ROLE), "locker": role(METADATA_LOCKER_ROLE)})
    }
}

fn class(r: &TransactionReceipt) -> String {
    match &r.result {
        TransactionResult::Commit(c) => match &c.outcome {
            TransactionOutcome::Success(_) => "ok".into(),
            TransactionOutcome::Failure(e) => match e {
                RuntimeError::SystemModuleError(SystemModuleError::AuthError(AuthError::Unauthorized(_))) => "auth".into(),
                RuntimeError::SystemError(SystemError::KeyValueEntryLocked) => "locked".into(),
                RuntimeError::ApplicationError(ApplicationError::MetadataError(me)) => match me {
                    MetadataError::MetadataKeyValidationError(_) => "key".into(),
                    MetadataError::MetadataValueValidationError(MetadataValueValidationError::InvalidLength { .. }) => "length".into(),
                    MetadataError::MetadataValueValidationError(MetadataValueValidationError::InvalidURL(_)) => "url".into(),
                    MetadataError::MetadataValueValidationError(MetadataValueValidationError::InvalidOrigin(_)) => "origin".into(),
                    other => format!("other:{:?}", other).chars().take(100).collect(),
                },
                e => format!("other:{:?}", e).chars().take(160).collect(),
            },
        },
        other => format!("notcommitted:{:?}", other).chars().take(160).collect(),
    }
}

fn replay(args: &Args) {
    let part = args.u64("part", 0) as usize;
    let parts = args.u64("parts", 1) as usize;
    let all = read_lines();
    let total = all.len();
    let mut out = Out::new();
    let mut md = Md { w: World::new() };
    let bank = md.w.bank;
    let mut steps = 0usize;
    let mut classes: BTreeMap<String, u64> = BTreeMap::new();
    let mut n_hist = 0usize;
    for (hi, h) in all.iter().enumerate().filter(|(i, _)| i % parts == part) {
        n_hist += 1;
        let hist = h.as_array().unwrap();
        let t = md.create(&hist[0]["st"]);
        let got0 = md.observe(t);
        if got0 != hist[0]["st"] {
            out.mismatch(hi, 0, "initial state", hist[0]["st"].clone(), got0);
        }
        for (si, x) in hist.iter().enumerate().skip(1) {
            let e = &x["e"];
            let (op, k) = (e["op"].as_str().unwrap(), e["k"].as_str().unwrap());
            let mut b = ManifestBuilder::new().lock_fee_from_faucet();
            let proofs: Vec<ProofSpec> = e["c"]
                .as_array()
                .unwrap()
                .iter()
                .map(|v| ProofSpec { res: md.w.nres, amount: dec!(0), ids: vec![NonFungibleLocalId::integer(v.as_u64().unwrap())] })
                .collect();
            if !proofs.is_empty() {
                b = b.call_method(bank, "make_proofs", (proofs,));
            }
            b = match op {
                "set" => b.call_metadata_method(t, METADATA_SET_IDENT, MetadataSetInput { key: key(k), value: value(&e["v"]) }),
                "remove" => b.call_metadata_method(t, METADATA_REMOVE_IDENT, MetadataRemoveInput { key: key(k) }),
                "lock" => b.call_metadata_method(t, METADATA_LOCK_IDENT, MetadataLockInput { key: key(k) }),
                "get" => b.call_metadata_method(t, METADATA_GET_IDENT, MetadataGetInput { key: key(k) }),
                "assign_setter" | "assign_locker" => b.set_role(
                    t,
                    ModuleId::Metadata,
                    RoleKey::new(if op == "assign_setter" { METADATA_SETTER_ROLE } else { METADATA_LOCKER_ROLE }),
                    md.badge_rule(e["v"]["size"].as_u64().unwrap()),
                ),
                x => panic!("operation {}", x),
            };
            let n_instructions = if e["c"].as_array().unwrap().is_empty() { 2 } else { 3 };
            let receipt = md.w.ledger.execute_manifest(b.build(), vec![]);
            steps += 1;
            let got = class(&receipt);
            let exp = e["class"].as_str().unwrap();
            if got != exp {
                out.mismatch(hi, si, "class", json!(exp), json!(got));
            }
            *classes.entry(format!("{}:{}", op, got.chars().take(40).collect::<String>())).or_insert(0) += 1;
            if op == "get" && got == "ok" {
                let v: Option<MetadataValue> = receipt.expect_commit_success().output(n_instructions - 1);
                let ret = v.map(|v| project(&v)).unwrap_or_else(no_val);
                if ret != e["out"] {
                    out.mismatch(hi, si, "get", e["out"].clone(), ret);
                }
            }
            let st = md.observe(t);
            if st != x["st"] {
                out.mismatch(hi, si, "state", x["st"].clone(), st);
            }
        }
    }
    out.emit(&json!({"classes": classes, "part": part, "cases": n_hist}));
    out.done(total, steps);
}

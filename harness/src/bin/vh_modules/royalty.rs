//! X04 — binding of spec/Royalty to the real engine at ledger level.
//! Histories come from TLC (GenRoyalty): the initial royalty configuration of two fresh components and transactions
//! (lists of operations, the caller's badges, ample / tiny locked fee) with the expected outcome class, royalties per
//! recipient, claimed amount and complete state.  Every transaction of the model is one real transaction:
//!   call / nested / child  -> methods of components of the native test blueprint (tb.rs) whose package (PN) declares
//!                             package royalties; fn -> the function of a tiny WASM package (PW) with a package royalty
//!   set / lock / claim     -> the royalty module methods, claimpkg -> Package::claim_royalties
//! Observed: receipt class, fee_summary.total_royalty_cost_in_xrd, fee_destination.to_royalty_recipients, what the fee
//! payer's vault lost beyond the non-royalty costs, the royalty configuration and lock flags and all royalty vault
//! balances read from the database, and what arrived in the sink account from claims.
//! Money in the model is [x, u] = x XRD + u USD; the harness evaluates it with the protocol's usd_price.
use crate::tb::*;
use radix_engine::object_modules::royalty::*;
use radix_engine::system::system_modules::costing::{CostingError, FeeReserveError, RoyaltyRecipient};
use scrypto_test::prelude::*;
use serde_json::{json, Value};
use std::collections::BTreeMap;
use vh::util::*;
use vh::Args;

pub fn run(mode: &str, args: &Args) {
    match mode {
        "replay" => replay(args),
        _ => panic!("mode"),
    }
}

const BASIC_WAT: &str = r#"(module
  (func $Test_f (param $0 i64) (result i64)
    (i32.const 0) (i32.const 92) (i32.store8)
    (i32.const 1) (i32.const 33) (i32.store8)
    (i32.const 2) (i32.const 0) (i32.store8)
    (i64.const 3))
  (memory $0 1)
  (export "memory" (memory $0))
  (export "Test_f" (func $Test_f)))"#;

const METHODS: [&str; 2] = ["m_pub", "run"];

fn usd_price() -> Decimal {
    Decimal::try_from(USD_PRICE_IN_XRD).unwrap()
}
fn money(v: &Value) -> Decimal {
    Decimal::from(v["x"].as_i64().unwrap()) + Decimal::from(v["u"].as_i64().unwrap()) * usd_price()
}
fn amount(a: &Value) -> RoyaltyAmount {
    let n = Decimal::from(a["n"].as_i64().unwrap());
    match a["k"].as_str().unwrap() {
        "free" => RoyaltyAmount::Free,
        "xrd" => RoyaltyAmount::Xrd(n),
        "usd" => RoyaltyAmount::Usd(n),
        x => panic!("amount {}", x),
    }
}
fn amount_json(a: &RoyaltyAmount) -> Value {
    let whole = |d: &Decimal| d.to_string().parse::<i64>().map(|i| json!(i)).unwrap_or(json!(d.to_string()));
    match a {
        RoyaltyAmount::Free => json!({"k": "free", "n": 0}),
        RoyaltyAmount::Xrd(d) => json!({"k": "xrd", "n": whole(d)}),
        RoyaltyAmount::Usd(d) => json!({"k": "usd", "n": whole(d)}),
    }
}

struct Ry {
    w: World,
    pw: PackageAddress,
    sink: ComponentAddress,
    payer_vault: Option<NodeId>,
}

impl Ry {
    fn badge_rule(&self, v: u64) -> AccessRule {
        rule!(require(NonFungibleGlobalId::new(self.w.nres, NonFungibleLocalId::integer(v))))
    }
    fn proofs(&self, caller: &Value) -> Vec<ProofSpec> {
        caller
            .as_array()
            .unwrap()
            .iter()
            .map(|b| ProofSpec { res: self.w.nres, amount: dec!(0), ids: vec![NonFungibleLocalId::integer(b.as_u64().unwrap())] })
            .collect()
    }
    fn component(&mut self, owner_badge: u64, cfg: &Value, locked: &Value) -> ComponentAddress {
        let mut a = NewArgs::simple(OwnerRole::Fixed(self.badge_rule(owner_badge)), RoleAssignmentInit::default());
        let mut rc = ComponentRoyaltyConfig::default();
        for m in METHODS {
            rc.royalty_amounts.insert(m.to_string(), (amount(&cfg[m]), locked[m].as_bool().unwrap()));
        }
        a.royalty = Some(rc);
        let pkg = self.w.pkg;
        self.w.new_component(pkg, a).expect("component with royalties")
    }
    fn config_of(&self, c: ComponentAddress) -> (Value, Value) {
        let db = self.w.ledger.substate_db();
        let mut cfg = serde_json::Map::new();
        let mut lk = serde_json::Map::new();
        for m in METHODS {
            let e: Option<KeyValueEntrySubstate<ComponentRoyaltyMethodAmountEntryPayload>> = db.get_substate(
                c.as_node_id(),
                ROYALTY_BASE_PARTITION.at_offset(ROYALTY_CONFIG_PARTITION_OFFSET).unwrap(),
                SubstateKey::Map(scrypto_encode(&m.to_string()).unwrap()),
            );
            let (l, a) = match e {
                None => (false, RoyaltyAmount::Free),
                Some(e) => (e.is_locked(), e.into_value().map(|p| p.fully_update_and_into_latest_version()).unwrap_or(RoyaltyAmount::Free)),
            };
            cfg.insert(m.to_string(), amount_json(&a));
            lk.insert(m.to_string(), json!(l));
        }
        (Value::Object(cfg), Value::Object(lk))
    }
}

fn class(r: &TransactionReceipt) -> String {
    match &r.result {
        TransactionResult::Commit(c) => match &c.outcome {
            TransactionOutcome::Success(_) => "ok".into(),
            TransactionOutcome::Failure(e) => match e {
                RuntimeError::SystemModuleError(SystemModuleError::AuthError(AuthError::Unauthorized(u))) => {
                    if u.fn_identifier.ident == "m_none" { "fail".into() } else { "auth".into() }
                }
                RuntimeError::SystemError(SystemError::KeyValueEntryLocked) => "locked".into(),
                RuntimeError::ApplicationError(ApplicationError::ComponentRoyaltyError(ce)) => match ce {
                    ComponentRoyaltyError::RoyaltyAmountIsGreaterThanAllowed { .. } => "toobig".into(),
                    ComponentRoyaltyError::RoyaltyAmountIsNegative(_) => "negative".into(),
                    e => format!("other:{:?}", e),
                },
                RuntimeError::SystemModuleError(SystemModuleError::CostingError(CostingError::FeeReserveError(
                    FeeReserveError::InsufficientBalance { .. },
                ))) => "insufficient".into(),
                e => format!("other:{:?}", e).chars().take(160).collect(),
            },
        },
        other => format!("notcommitted:{:?}", other).chars().take(160).collect(),
    }
}

fn replay(args: &Args) {
    let part = args.u64("part", 0) as usize;
    let parts = args.u64("parts", 1) as usize;
    let all = read_lines();
    let total = all.len();
    let mut out = Out::new();
    // PN: the native test package with package royalties on m_pub (1 XRD) and run (1 USD)
    let w = World::with_definition(package_definition_with_royalties(&[
        ("m_pub", RoyaltyAmount::Xrd(dec!(1))),
        ("run", RoyaltyAmount::Usd(dec!(1))),
    ]));
    let mut ry = Ry { pw: PACKAGE_PACKAGE, sink: w.account, payer_vault: None, w };
    // PW: a WASM package owned by badge 1 with a package royalty of 2 XRD on its function f
    let mut def = single_function_package_definition("Test", "f");
    def.blueprints.get_mut("Test").unwrap().royalty_config =
        PackageRoyaltyConfig::Enabled(indexmap!("f".to_string() => RoyaltyAmount::Xrd(dec!(2))));
    ry.pw = ry.w.ledger.publish_package((wat2wasm(BASIC_WAT), def), BTreeMap::new(), OwnerRole::Fixed(ry.badge_rule(1)));
    let (_, _, sink) = ry.w.ledger.new_account(false);
    ry.sink = sink;
    let bank = ry.w.bank;
    let mut steps = 0usize;
    let mut classes: BTreeMap<String, u64> = BTreeMap::new();
    let mut n_hist = 0usize;
    for (hi, h) in all.iter().enumerate().filter(|(i, _)| i % parts == part) {
        n_hist += 1;
        let hist = h.as_array().unwrap();
        let st0 = &hist[0]["st"];
        let c1 = ry.component(1, &st0["cfg"]["C1"], &st0["locked"]["C1"]);
        let c2 = ry.component(2, &st0["cfg"]["C2"], &st0["locked"]["C2"]);
        let comp = |n: &str| if n == "C1" { c1 } else { c2 };
        // the WASM package's royalty vault is emptied by its owner, the native package's cannot be: its balance is a baseline
        let m = ManifestBuilder::new()
            .lock_fee_from_faucet()
            .call_method(bank, "make_proofs", (ry.proofs(&json!([1])),))
            .claim_package_royalties(ry.pw)
            .try_deposit_entire_worktop_or_abort(ry.sink, None)
            .build();
        ry.w.ledger.execute_manifest(m, vec![]).expect_commit_success();
        let pn0 = ry.w.ledger.inspect_package_royalty(ry.w.pkg).expect("PN royalty vault");
        let sink0 = ry.w.ledger.get_component_balance(ry.sink, XRD);
        let mut paid_royalties = Decimal::ZERO;
        let observe = |ry: &mut Ry, paid: Decimal| -> Value {
            let (cfg1, lk1) = ry.config_of(c1);
            let (cfg2, lk2) = ry.config_of(c2);
            let pn = ry.w.ledger.inspect_package_royalty(ry.w.pkg).unwrap().checked_sub(pn0).unwrap();
            let sink_now = ry.w.ledger.get_component_balance(ry.sink, XRD).checked_sub(sink0).unwrap();
            json!({
                "cfg": {"C1": cfg1, "C2": cfg2}, "locked": {"C1": lk1, "C2": lk2},
                "vault": {"C1": ry.w.ledger.inspect_component_royalty(c1).unwrap().to_string(),
                          "C2": ry.w.ledger.inspect_component_royalty(c2).unwrap().to_string(),
                          "PN": pn.to_string(),
                          "PW": ry.w.ledger.inspect_package_royalty(ry.pw).unwrap().to_string()},
                "claimed": sink_now.to_string(), "paid": paid.to_string(),
            })
        };
        // the model's state with money evaluated at the protocol's usd_price
        let expected = |st: &Value| -> Value {
            let v = |n: &str| money(&st["vault"][n]).to_string();
            json!({"cfg": st["cfg"], "locked": st["locked"],
                   "vault": {"C1": v("C1"), "C2": v("C2"), "PN": v("PN"), "PW": v("PW")},
                   "claimed": money(&st["claimed"]).to_string(), "paid": money(&st["paid"]).to_string()})
        };
        let got0 = observe(&mut ry, paid_royalties);
        if got0 != expected(st0) {
            out.mismatch(hi, 0, "initial state", expected(st0), got0);
        }
        for (si, e) in hist.iter().enumerate().skip(1) {
            let tx = &e["tx"];
            let locked_fee = if tx["budget"] == "tiny" { dec!(10) } else { dec!(5000) };
            let mut b = ManifestBuilder::new().lock_fee(FAUCET, locked_fee);
            let proofs = ry.proofs(&tx["caller"]);
            if !proofs.is_empty() {
                b = b.call_method(bank, "make_proofs", (proofs,));
            }
            for o in tx["ops"].as_array().unwrap() {
                let (e1, e2, m) = (o["e"].as_str().unwrap(), o["e2"].as_str().unwrap(), o["m"].as_str().unwrap());
                let target = |c: ComponentAddress| Step { proofs: vec![], act: Act::TargetMethod(c, "m_pub".to_string()) };
                b = match o["k"].as_str().unwrap() {
                    "call" => b.call_method(comp(e1), m, ()),
                    "nested" => b.call_method(comp(e1), "run", (Plan { bank, steps: vec![target(comp(e2))] },)),
                    "child" => b.call_method(
                        comp(e1),
                        "run",
                        (Plan { bank, steps: vec![Step { proofs: vec![], act: Act::CallChild }, target(comp(e2))] },),
                    ),
                    "fn" => b.call_function(ry.pw, "Test", "f", ()),
                    "set" => b.set_component_royalty(comp(e1), m, amount(&o["a"])),
                    "lock" => b.lock_component_royalty(comp(e1), m),
                    "claim" => b.claim_component_royalties(comp(e1)),
                    "claimpkg" => b.claim_package_royalties(if e1 == "PW" { ry.pw } else { ry.w.pkg }),
                    "fail" => b.call_method(c1, "m_none", ()),
                    x => panic!("operation {}", x),
                };
            }
            let manifest = b.try_deposit_entire_worktop_or_abort(ry.sink, None).build();
            let payer_before = ry.payer_vault.map(|v| ry.w.ledger.inspect_vault_balance(v).unwrap());
            let receipt = ry.w.ledger.execute_manifest(manifest, vec![]);
            steps += 1;
            let got = class(&receipt);
            let exp = tx["class"].as_str().unwrap();
            if got != exp {
                out.mismatch(hi, si, "class", json!(exp), json!(got));
            }
            *classes.entry(got.chars().take(40).collect::<String>()).or_insert(0) += 1;
            if let TransactionResult::Commit(commit) = &receipt.result {
                let fs = &receipt.fee_summary;
                // (1) the receipt's royalty total, (2) the sum and the split over recipients, (3) what the payer's vault lost
                // beyond execution, finalization, storage and tip
                let mut split: BTreeMap<String, Decimal> =
                    ["C1", "C2", "PN", "PW"].iter().map(|n| (n.to_string(), Decimal::ZERO)).collect();
                for (rec, amt) in &commit.fee_destination.to_royalty_recipients {
                    let name = match rec {
                        RoyaltyRecipient::Component(c, _) if *c == c1 => "C1".to_string(),
                        RoyaltyRecipient::Component(c, _) if *c == c2 => "C2".to_string(),
                        RoyaltyRecipient::Package(p, _) if *p == ry.w.pkg => "PN".to_string(),
                        RoyaltyRecipient::Package(p, _) if *p == ry.pw => "PW".to_string(),
                        other => format!("{:?}", other),
                    };
                    *split.entry(name).or_insert(Decimal::ZERO) += *amt;
                }
                let non_royalty = fs.total_execution_cost_in_xrd + fs.total_finalization_cost_in_xrd + fs.total_storage_cost_in_xrd
                    + fs.total_tipping_cost_in_xrd;
                let paid_total: Decimal = commit.fee_source.paying_vaults.values().fold(Decimal::ZERO, |a, b| a + *b);
                if ry.payer_vault.is_none() {
                    ry.payer_vault = commit.fee_source.paying_vaults.keys().next().cloned();
                }
                let vault_loss = match (payer_before, ry.payer_vault) {
                    (Some(before), Some(v)) => Some(before.checked_sub(ry.w.ledger.inspect_vault_balance(v).unwrap()).unwrap()),
                    _ => None,
                };
                let obs_split: serde_json::Map<String, Value> = split.iter().map(|(k, v)| (k.clone(), json!(v.to_string()))).collect();
                let obs = json!({
                    "total": fs.total_royalty_cost_in_xrd.to_string(),
                    "royalty": obs_split,
                    "payer_receipt": (paid_total - non_royalty).to_string(),
                    "payer_vault": vault_loss.map(|l| (l - non_royalty).to_string()).unwrap_or_else(|| money(&tx["total"]).to_string()),
                });
                let t = money(&tx["total"]).to_string();
                let exp_split: serde_json::Map<String, Value> =
                    ["C1", "C2", "PN", "PW"].iter().map(|n| (n.to_string(), json!(money(&tx["royalty"][*n]).to_string()))).collect();
                let expv = json!({"total": t, "royalty": exp_split, "payer_receipt": t, "payer_vault": t});
                if obs != expv {
                    out.mismatch(hi, si, "royalties", expv, obs);
                }
                paid_royalties += fs.total_royalty_cost_in_xrd;
            }
            let st = observe(&mut ry, paid_royalties);
            let exps = expected(&e["st"]);
            if st != exps {
                out.mismatch(hi, si, "state", exps, st);
            }
        }
    }
    out.emit(&json!({"classes": classes, "part": part, "cases": n_hist}));
    out.done(total, steps);
}

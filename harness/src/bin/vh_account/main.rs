//! vh_account — account deposit rules (C39) at ledger level (scrypto_test::LedgerSimulator).
#![allow(clippy::all)]
mod deposit;

fn main() {
    let (module, mode, args) = vh::start();
    match module.as_str() {
        "deposit" => deposit::run(&mode, &args),
        m => vh::unknown(m),
    }
}

//! C39 — binding of spec/Account to the native Account blueprint.
//! Histories come from TLC (GenAccount): an initial account state and operations with the expected outcome class,
//! events and complete state after every step.  For every history a fresh account T is created and brought into
//! the initial state by its owner; every operation is one transaction: the buckets are withdrawn from a funded
//! source account S, the proofs the model lists are created (from S's badge vaults / the signer list), the method
//! of T is called and whatever it returns is deposited into a sink account K.  Observed after every transaction:
//! receipt class, the Deposit / RejectedDeposit events emitted by T, T's deposit rule, preferences, authorized
//! depositors, vault existence and balances, and the balance changes of S and K.
//! The harness drives and projects; it contains no deposit-rule logic.
use radix_engine::blueprints::account::*;
use radix_engine::system::system_db_reader::*;
use scrypto_test::prelude::*;
use serde_json::{json, Value};
use std::collections::BTreeMap;
use vh::util::*;
use vh::Args;

pub fn run(mode: &str, args: &Args) {
    match mode {
        "replay" => replay(args),
        _ => panic!("mode"),
    }
}

const RES: [&str; 3] = ["X", "A", "B"];
const BADGES: [&str; 4] = ["b1", "b2", "b3", "b4"];

struct World {
    ledger: DefaultLedgerSimulator,
    s: ComponentAddress,
    s_key: Secp256k1PublicKey,
    k: ComponentAddress,
    k_key: Secp256k1PublicKey,
    owner_key: Secp256k1PublicKey,
    sig_key: Secp256k1PublicKey,
    res: BTreeMap<&'static str, ResourceAddress>,
    bf: ResourceAddress,
    bn: ResourceAddress,
}

fn sig(k: &Secp256k1PublicKey) -> NonFungibleGlobalId {
    NonFungibleGlobalId::from_public_key(k)
}

impl World {
    fn new() -> World {
        let mut ledger = LedgerSimulatorBuilder::new().without_kernel_trace().build();
        let (s_key, _, s) = ledger.new_account(false);
        let (k_key, _, k) = ledger.new_account(false);
        let owner_key = Secp256k1PrivateKey::from_u64(7001).unwrap().public_key();
        let sig_key = Secp256k1PrivateKey::from_u64(7002).unwrap().public_key();
        let a = ledger.create_fungible_resource(dec!(1000000), 18, s);
        let b = ledger.create_non_fungible_resource_advanced(NonFungibleResourceRoles::default(), s, 150);
        let bf = ledger.create_fungible_resource(dec!(10), 0, s);
        let bn = ledger.create_non_fungible_resource(s);
        let mut res = BTreeMap::new();
        res.insert("X", XRD);
        res.insert("A", a);
        res.insert("B", b);
        World { ledger, s, s_key, k, k_key, owner_key, sig_key, res, bf, bn }
    }
    fn badge(&self, b: &str) -> ResourceOrNonFungible {
        match b {
            "b1" => ResourceOrNonFungible::Resource(self.bf),
            "b2" => ResourceOrNonFungible::NonFungible(NonFungibleGlobalId::new(self.bn, NonFungibleLocalId::integer(1))),
            "b3" => ResourceOrNonFungible::NonFungible(sig(&self.sig_key)),
            "b4" => ResourceOrNonFungible::Resource(self.bn),
            x => panic!("badge {}", x),
        }
    }
    fn must(&mut self, m: TransactionManifestV1, signers: Vec<NonFungibleGlobalId>, what: &str) -> TransactionReceipt {
        let r = self.ledger.execute_manifest(m, signers);
        if !r.is_commit_success() {
            panic!("harness: setup transaction failed ({}): {:?}", what, r.result);
        }
        r
    }

    /// a fresh account owned by owner_key, brought into the given state by its owner
    fn create(&mut self, st: &Value) -> ComponentAddress {
        let m = ManifestBuilder::new()
            .lock_fee_from_faucet()
            .new_account_advanced(OwnerRole::Fixed(rule!(require(sig(&self.owner_key)))), None)
            .build();
        let t = self.must(m, vec![], "create account").expect_commit_success().new_component_addresses()[0];
        let mut b = ManifestBuilder::new().lock_fee_from_faucet();
        b = b.call_method(t, ACCOUNT_SET_DEFAULT_DEPOSIT_RULE_IDENT, AccountSetDefaultDepositRuleInput { default: default_rule(st["default"].as_str().unwrap()) });
        for r in RES {
            match st["pref"][r].as_str().unwrap() {
                "unset" => {}
                p => {
                    b = b.call_method(
                        t,
                        ACCOUNT_SET_RESOURCE_PREFERENCE_IDENT,
                        AccountSetResourcePreferenceInput { resource_address: self.res[r], resource_preference: preference(p) },
                    )
                }
            }
        }
        for d in st["depositors"].as_array().unwrap() {
            b = b.call_method(t, ACCOUNT_ADD_AUTHORIZED_DEPOSITOR_IDENT, AccountAddAuthorizedDepositorInput { badge: self.badge(d.as_str().unwrap()) });
        }
        // existing (empty) vaults: the owner deposits an empty bucket
        for (i, v) in st["vault"].as_array().unwrap().iter().enumerate() {
            let name = format!("e{}", i);
            b = b.take_from_worktop(self.res[v.as_str().unwrap()], dec!(0), &name);
            b = b.call_method_with_name_lookup(t, ACCOUNT_DEPOSIT_IDENT, |l| AccountDepositManifestInput { bucket: l.bucket(&name) });
        }
        let owner = sig(&self.owner_key);
        self.must(b.build(), vec![owner], "initial state");
        t
    }

    fn balance_of(&mut self, acc: ComponentAddress, res: ResourceAddress) -> Option<Decimal> {
        let vault: Option<VersionedAccountResourceVault> = SystemDatabaseReader::new(self.ledger.substate_db())
            .read_object_collection_entry(acc.as_node_id(), ModuleId::Main, ObjectCollectionKey::KeyValue(0u8, &res))
            .expect("vault entry");
        vault.map(|v| {
            let node = *v.fully_update_and_into_latest_version().0.as_node_id();
            self.ledger.inspect_vault_balance(node).expect("vault balance")
        })
    }

    fn balances(&mut self, acc: ComponentAddress) -> BTreeMap<&'static str, Decimal> {
        RES.iter().map(|r| (*r, self.balance_of(acc, self.res[r]).unwrap_or(Decimal::ZERO))).collect()
    }

    /// T's configuration, vaults and balances as the model names them
    fn observe(&mut self, t: ComponentAddress) -> Value {
        let node = *t.as_node_id();
        let (default, prefs, deps) = {
            let reader = SystemDatabaseReader::new(self.ledger.substate_db());
            let rule: AccountDepositRuleFieldPayload = reader.read_typed_object_field(&node, ModuleId::Main, 0u8).expect("deposit rule");
            let default = match rule.fully_update_and_into_latest_version().default_deposit_rule {
                DefaultDepositRule::Accept => "accept",
                DefaultDepositRule::Reject => "reject",
                DefaultDepositRule::AllowExisting => "existing",
            };
            let mut prefs = serde_json::Map::new();
            for r in RES {
                let p: Option<VersionedAccountResourcePreference> = reader
                    .read_object_collection_entry(&node, ModuleId::Main, ObjectCollectionKey::KeyValue(1u8, &self.res[r]))
                    .expect("preference entry");
                let name = match p.map(|v| v.fully_update_and_into_latest_version()) {
                    None => "unset",
                    Some(ResourcePreference::Allowed) => "allowed",
                    Some(ResourcePreference::Disallowed) => "disallowed",
                };
                prefs.insert(r.to_string(), json!(name));
            }
            let mut deps: Vec<&str> = Vec::new();
            for b in BADGES {
                let e: Option<VersionedAccountAuthorizedDepositor> = reader
                    .read_object_collection_entry(&node, ModuleId::Main, ObjectCollectionKey::KeyValue(2u8, &self.badge(b)))
                    .expect("depositor entry");
                if e.is_some() {
                    deps.push(b);
                }
            }
            (default, prefs, deps)
        };
        let mut vault: Vec<&str> = Vec::new();
        let mut bal = serde_json::Map::new();
        for r in RES {
            let b = self.balance_of(t, self.res[r]);
            if b.is_some() {
                vault.push(r);
            }
            bal.insert(r.to_string(), dec_json(b.unwrap_or(Decimal::ZERO)));
        }
        json!({"default": default, "pref": prefs, "depositors": deps, "vault": vault, "bal": bal})
    }
}

fn default_rule(s: &str) -> DefaultDepositRule {
    match s {
        "accept" => DefaultDepositRule::Accept,
        "reject" => DefaultDepositRule::Reject,
        "existing" => DefaultDepositRule::AllowExisting,
        x => panic!("default {}", x),
    }
}
fn preference(s: &str) -> ResourcePreference {
    match s {
        "allowed" => ResourcePreference::Allowed,
        "disallowed" => ResourcePreference::Disallowed,
        x => panic!("preference {}", x),
    }
}
/// whole numbers only (the model's amounts); anything else shows up as a string and mismatches
fn dec_json(d: Decimal) -> Value {
    let s = d.to_string();
    match s.parse::<i64>() {
        Ok(i) => json!(i),
        Err(_) => json!(s),
    }
}
fn sorted(v: &Value) -> Vec<String> {
    let mut x: Vec<String> = v.as_array().unwrap().iter().map(|e| e.as_str().unwrap().to_string()).collect();
    x.sort();
    x
}

/// projection of the receipt: "ok" or the error class; an Unauthorized for another call than the operation under test
/// is reported as such
fn class(r: &TransactionReceipt, op: &str) -> String {
    match &r.result {
        TransactionResult::Commit(c) => match &c.outcome {
            TransactionOutcome::Success(_) => "ok".into(),
            TransactionOutcome::Failure(e) => match e {
                RuntimeError::ApplicationError(ApplicationError::AccountError(ae)) => match ae {
                    AccountError::DepositIsDisallowed { .. } => "DepositIsDisallowed".into(),
                    AccountError::NotAllBucketsCouldBeDeposited => "NotAllBucketsCouldBeDeposited".into(),
                    AccountError::NotAnAuthorizedDepositor { .. } => "NotAnAuthorizedDepositor".into(),
                    AccountError::VaultDoesNotExist { .. } => "VaultDoesNotExist".into(),
                },
                RuntimeError::SystemError(SystemError::AssertAccessRuleFailed) => "AssertAccessRuleFailed".into(),
                RuntimeError::SystemModuleError(SystemModuleError::AuthError(AuthError::Unauthorized(u))) => {
                    if u.fn_identifier.ident == op { "Unauthorized".into() } else { format!("Unauthorized@{}", u.fn_identifier.ident) }
                }
                e => format!("other:{:?}", e).chars().take(160).collect(),
            },
        },
        other => format!("notcommitted:{:?}", other).chars().take(140).collect(),
    }
}

/// Deposit / RejectedDeposit events emitted by account t, in order, as the model writes them
fn events_of(w: &World, r: &TransactionReceipt, t: ComponentAddress) -> Value {
    let mut out: Vec<Value> = Vec::new();
    if let TransactionResult::Commit(c) = &r.result {
        let name_of = |a: &ResourceAddress| w.res.iter().find(|(_, v)| *v == a).map(|(k, _)| k.to_string()).unwrap_or_else(|| format!("{:?}", a));
        for (id, data) in &c.application_events {
            let from_t = matches!(&id.0, Emitter::Method(n, ModuleId::Main) if n == t.as_node_id());
            if !from_t {
                continue;
            }
            match id.1.as_str() {
                "DepositEvent" => match scrypto_decode::<DepositEvent>(data).expect("DepositEvent") {
                    DepositEvent::Fungible(a, amt) => out.push(json!({"k": "deposit", "r": name_of(&a), "a": dec_json(amt)})),
                    DepositEvent::NonFungible(a, ids) => out.push(json!({"k": "deposit", "r": name_of(&a), "a": ids.len()})),
                },
                "RejectedDepositEvent" => match scrypto_decode::<RejectedDepositEvent>(data).expect("RejectedDepositEvent") {
                    RejectedDepositEvent::Fungible(a, amt) => out.push(json!({"k": "rejected", "r": name_of(&a), "a": dec_json(amt)})),
                    RejectedDepositEvent::NonFungible(a, ids) => out.push(json!({"k": "rejected", "r": name_of(&a), "a": ids.len()})),
                },
                _ => {}
            }
        }
    }
    Value::Array(out)
}

fn replay(args: &Args) {
    let part = args.u64("part", 0) as usize;
    let parts = args.u64("parts", 1) as usize;
    let all = read_lines();
    let total = all.len();
    let mut out = Out::new();
    let mut w = World::new();
    let mut steps = 0usize;
    let mut classes: BTreeMap<String, u64> = BTreeMap::new();
    let mut n_hist = 0usize;
    for (hi, h) in all.iter().enumerate().filter(|(i, _)| i % parts == part) {
        n_hist += 1;
        let hist = h.as_array().unwrap();
        let t = w.create(&hist[0]["st"]);
        let (s0, k0) = (w.balances(w.s), w.balances(w.k));
        let delta = |now: &BTreeMap<&'static str, Decimal>, base: &BTreeMap<&'static str, Decimal>| -> Value {
            Value::Object(RES.iter().map(|r| (r.to_string(), dec_json(now[r].checked_sub(base[r]).unwrap()))).collect())
        };
        // the state of account t and the balance changes of source and sink, in the shape of the model's state record
        let snapshot = |w: &mut World| -> Value {
            let mut o = w.observe(t);
            let (sn, kn) = (w.balances(w.s), w.balances(w.k));
            o["src"] = delta(&sn, &s0);
            o["sink"] = delta(&kn, &k0);
            o
        };
        let same = |exp: &Value, got: &Value| -> bool {
            exp["default"] == got["default"] && exp["pref"] == got["pref"] && sorted(&exp["depositors"]) == sorted(&got["depositors"])
                && sorted(&exp["vault"]) == sorted(&got["vault"]) && exp["bal"] == got["bal"] && exp["src"] == got["src"] && exp["sink"] == got["sink"]
        };
        let got0 = snapshot(&mut w);
        if !same(&hist[0]["st"], &got0) {
            out.mismatch(hi, 0, "initial state", hist[0]["st"].clone(), got0);
        }
        for (si, e) in hist.iter().enumerate().skip(1) {
            let op = e["op"].as_str().unwrap();
            let c = &e["c"];
            let mut signers = vec![sig(&w.s_key)];
            if c["owner"].as_bool().unwrap() {
                signers.push(sig(&w.owner_key));
            }
            let proofs: Vec<&str> = c["proofs"].as_array().unwrap().iter().map(|p| p.as_str().unwrap()).collect();
            if proofs.contains(&"sig") {
                signers.push(sig(&w.sig_key));
            }
            let mut b = ManifestBuilder::new().lock_fee_from_faucet();
            let bs = e["bs"].as_array().unwrap();
            let is_deposit = op.contains("deposit") && !op.contains("rule") && !op.contains("depositor");
            if is_deposit {
                for r in RES {
                    let tot: u64 = bs.iter().filter(|x| x["r"] == r).map(|x| x["a"].as_u64().unwrap()).sum();
                    if tot > 0 {
                        b = b.withdraw_from_account(w.s, w.res[r], Decimal::from(tot));
                    }
                }
                if proofs.contains(&"pF") {
                    b = b.create_proof_from_account_of_amount(w.s, w.bf, dec!(1));
                }
                if proofs.contains(&"pN1") {
                    b = b.create_proof_from_account_of_non_fungibles(w.s, w.bn, [NonFungibleLocalId::integer(1)]);
                }
                let names: Vec<String> = (0..bs.len()).map(|i| format!("b{}", i)).collect();
                for (i, x) in bs.iter().enumerate() {
                    b = b.take_from_worktop(w.res[x["r"].as_str().unwrap()], Decimal::from(x["a"].as_u64().unwrap()), &names[i]);
                }
                let named = c["named"].as_str().unwrap();
                let badge: Option<ManifestResourceOrNonFungible> = if named == "none" { None } else { Some(w.badge(named).into()) };
                b = b.call_method_with_name_lookup(t, op, |l| {
                    let buckets: Vec<ManifestBucket> = names.iter().map(|n| l.bucket(n)).collect();
                    match op {
                        "try_deposit_or_refund" | "try_deposit_or_abort" => manifest_args!(buckets[0], badge.clone()),
                        "try_deposit_batch_or_refund" | "try_deposit_batch_or_abort" => manifest_args!(buckets.clone(), badge.clone()),
                        "deposit" => manifest_args!(buckets[0]),
                        "deposit_batch" => manifest_args!(buckets.clone()),
                        x => panic!("operation {}", x),
                    }
                });
                // whatever came back goes to the sink
                b = b.try_deposit_entire_worktop_or_abort(w.k, None);
            } else {
                let a0 = e["arg"][0].as_str().unwrap();
                let a1 = e["arg"][1].as_str().unwrap();
                b = match op {
                    "set_default_deposit_rule" => b.call_method(t, op, AccountSetDefaultDepositRuleInput { default: default_rule(a0) }),
                    "set_resource_preference" => b.call_method(t, op, AccountSetResourcePreferenceInput { resource_address: w.res[a0], resource_preference: preference(a1) }),
                    "remove_resource_preference" => b.call_method(t, op, AccountRemoveResourcePreferenceInput { resource_address: w.res[a0] }),
                    "add_authorized_depositor" => b.call_method(t, op, AccountAddAuthorizedDepositorInput { badge: w.badge(a0) }),
                    "remove_authorized_depositor" => b.call_method(t, op, AccountRemoveAuthorizedDepositorInput { badge: w.badge(a0) }),
                    x => panic!("operation {}", x),
                };
            }
            let receipt = w.ledger.execute_manifest(b.build(), signers);
            steps += 1;
            let got = class(&receipt, op);
            let exp = e["class"].as_str().unwrap();
            if got != exp {
                out.mismatch(hi, si, "class", json!(exp), json!(got));
            }
            *classes.entry(format!("{}:{}", op, got.chars().take(40).collect::<String>())).or_insert(0) += 1;
            let ev = events_of(&w, &receipt, t);
            if ev != e["events"] {
                out.mismatch(hi, si, "events", e["events"].clone(), ev);
            }
            let st = snapshot(&mut w);
            if !same(&e["st"], &st) {
                out.mismatch(hi, si, "state", e["st"].clone(), st);
            }
        }
        // hand everything back to the source so that it never runs dry
        let (tb, kb) = (w.balances(t), w.balances(w.k));
        let mut b = ManifestBuilder::new().lock_fee_from_faucet();
        let mut any = false;
        for r in RES {
            if tb[r].is_positive() {
                b = b.withdraw_from_account(t, w.res[r], tb[r]);
                any = true;
            }
            if kb[r].is_positive() {
                b = b.withdraw_from_account(w.k, w.res[r], kb[r]);
                any = true;
            }
        }
        if any {
            let signers = vec![sig(&w.owner_key), sig(&w.k_key)];
            let m = b.try_deposit_entire_worktop_or_abort(w.s, None).build();
            w.must(m, signers, "recycle");
        }
    }
    out.emit(&json!({"classes": classes, "part": part, "cases": n_hist}));
    out.done(total, steps);
}

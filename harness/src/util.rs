//! Shared helpers: ndjson I/O, mismatch reporting, panic capture, big-integer limbs.
use serde_json::{json, Value};
use std::io::{BufRead, Write};

/// Reads all JSON lines from stdin.
pub fn read_lines() -> Vec<Value> {
    let stdin = std::io::stdin();
    let mut res = Vec::new();
    for line in stdin.lock().lines() {
        let line = line.expect("stdin");
        let t = line.trim();
        if t.is_empty() {
            continue;
        }
        res.push(serde_json::from_str(t).expect("bad json line"));
    }
    res
}

pub struct Out {
    w: std::io::BufWriter<std::io::Stdout>,
    pub mismatches: u64,
}
impl Out {
    pub fn new() -> Self {
        Out { w: std::io::BufWriter::with_capacity(1 << 20, std::io::stdout()), mismatches: 0 }
    }
    pub fn emit(&mut self, v: &Value) {
        serde_json::to_writer(&mut self.w, v).unwrap();
        self.w.write_all(b"\n").unwrap();
    }
    /// A difference between what the specification computed and what the implementation did.
    pub fn mismatch(&mut self, behaviour: usize, step: usize, what: &str, exp: Value, got: Value) {
        self.mismatches += 1;
        if self.mismatches <= 200 {
            self.emit(&json!({"mismatch": what, "b": behaviour, "step": step, "exp": exp, "got": got}));
        }
    }
    pub fn done(&mut self, behaviours: usize, steps: usize) {
        let m = self.mismatches;
        self.emit(&json!({"done": behaviours, "steps": steps, "mismatches": m}));
        self.w.flush().unwrap();
    }
    pub fn flush(&mut self) {
        self.w.flush().unwrap();
    }
}

/// Runs `f`, turning a panic of the code under test into `Err(message)`.
pub fn catch<T>(f: impl FnOnce() -> T) -> Result<T, String> {
    match std::panic::catch_unwind(std::panic::AssertUnwindSafe(f)) {
        Ok(v) => Ok(v),
        Err(e) => {
            let msg = if let Some(s) = e.downcast_ref::<&str>() {
                s.to_string()
            } else if let Some(s) = e.downcast_ref::<String>() {
                s.clone()
            } else {
                "panic".to_string()
            };
            Err(msg)
        }
    }
}

pub fn i64s(v: &Value) -> Vec<i64> {
    v.as_array().map(|a| a.iter().map(|x| x.as_i64().unwrap()).collect()).unwrap_or_default()
}

// ---------------------------------------------------------------------------------------------
// Big integers as limbs base 10^4 (DESIGN 4.1): {"s": -1|0|1, "l": [little-endian limbs]}
// computed from the two's-complement little-endian BYTES, never through Display/to_string.

pub fn limbs_from_le_bytes_signed(bytes: &[u8]) -> Value {
    let neg = bytes.last().map(|b| b & 0x80 != 0).unwrap_or(false);
    let mut mag: Vec<u8> = bytes.to_vec();
    if neg {
        // two's complement negate
        let mut carry = 1u16;
        for b in mag.iter_mut() {
            let v = (!*b) as u16 + carry;
            *b = v as u8;
            carry = v >> 8;
        }
    }
    limbs_from_le_magnitude(&mag, neg)
}

pub fn limbs_from_le_magnitude(mag: &[u8], neg: bool) -> Value {
    // words base 2^32, little-endian
    let mut words: Vec<u32> = mag
        .chunks(4)
        .map(|c| {
            let mut w = 0u32;
            for (i, b) in c.iter().enumerate() {
                w |= (*b as u32) << (8 * i);
            }
            w
        })
        .collect();
    let mut limbs: Vec<u32> = Vec::new();
    loop {
        while words.last() == Some(&0) {
            words.pop();
        }
        if words.is_empty() {
            break;
        }
        let mut rem: u64 = 0;
        for w in words.iter_mut().rev() {
            let cur = (rem << 32) | (*w as u64);
            *w = (cur / 10000) as u32;
            rem = cur % 10000;
        }
        limbs.push(rem as u32);
    }
    let s = if limbs.is_empty() { 0 } else if neg { -1 } else { 1 };
    json!({"s": s, "l": limbs})
}

/// limbs -> little-endian magnitude bytes of width `n` (None if it does not fit) and sign
pub fn le_bytes_from_limbs(v: &Value, n: usize) -> Option<(Vec<u8>, bool)> {
    let s = v["s"].as_i64().unwrap();
    let limbs: Vec<u64> = v["l"].as_array().unwrap().iter().map(|x| x.as_u64().unwrap()).collect();
    let mut words: Vec<u32> = vec![0; n / 4 + 2];
    for limb in limbs.iter().rev() {
        // words = words * 10000 + limb
        let mut carry: u64 = *limb;
        for w in words.iter_mut() {
            let cur = (*w as u64) * 10000 + carry;
            *w = cur as u32;
            carry = cur >> 32;
        }
        if carry != 0 {
            return None;
        }
    }
    let mut bytes: Vec<u8> = Vec::new();
    for w in &words {
        bytes.extend_from_slice(&w.to_le_bytes());
    }
    if bytes[n..].iter().any(|b| *b != 0) {
        return None;
    }
    bytes.truncate(n);
    Some((bytes, s < 0))
}

/// two's complement little-endian of width n from limbs; None if out of the signed range
pub fn twos_from_limbs(v: &Value, n: usize) -> Option<Vec<u8>> {
    let (mut mag, neg) = le_bytes_from_limbs(v, n)?;
    let top = mag[n - 1] & 0x80 != 0;
    if !neg {
        if top {
            return None;
        }
        return Some(mag);
    }
    // negative: magnitude must be <= 2^(8n-1)
    if top {
        let is_min = mag[n - 1] == 0x80 && mag[..n - 1].iter().all(|b| *b == 0);
        if !is_min {
            return None;
        }
    }
    let mut carry = 1u16;
    for b in mag.iter_mut() {
        let v = (!*b) as u16 + carry;
        *b = v as u8;
        carry = v >> 8;
    }
    Some(mag)
}

"""Account deposit rules at ledger level: Account (C39).  Harness binary: vh_account
(scrypto_test::LedgerSimulator, real Account blueprint, source / target / sink accounts)."""
import json, os, collections
from concurrent.futures import ThreadPoolExecutor
import core
from core import tlc, tlc_must_pass, vh, ToolError, write_ndjson

BIN = "vh_account"
TRY_OPS = ("try_deposit_or_refund", "try_deposit_batch_or_refund", "try_deposit_or_abort", "try_deposit_batch_or_abort")


def replay_histories(ctx, hists, key=None, count=True, parts=1):
    """spec -> impl: histories carrying the outcome, events and state the specification expects after every step go to
    `vh_account deposit replay` (optionally split over several processes); every mismatch line is a violation."""
    if not hists:
        raise ToolError("no histories generated")
    p = ctx.wpath("deposit-hist.ndjson")
    write_ndjson(p, hists)
    core.build_harness(BIN)

    def run(i):
        rc, out = vh(BIN, ["deposit", "replay", "part=%d" % i, "parts=%d" % parts], stdin_path=p, timeout=7200)
        return out
    with ThreadPoolExecutor(max_workers=parts) as ex:
        outs = list(ex.map(run, range(parts)))
    os.unlink(p)
    mism, extra, steps = [], [], 0
    for out in outs:
        done = None
        for line in out.splitlines():
            o = json.loads(line)
            if "mismatch" in o:
                mism.append(o)
            elif "done" in o:
                done = o
            else:
                extra.append(o)
        if done is None or done["done"] != len(hists):
            raise ToolError("replay of account histories did not complete")
        steps += done["steps"]
    if sum(e.get("cases", 0) for e in extra) != len(hists):
        raise ToolError("replay of account histories: the parts did not cover all histories")
    if count:
        ctx.cov["traces_validated_against_impl"] += len(hists)
        ctx.cov["evaluations"] += steps
    if key is not None:
        for o in mism:
            h = hists[o["b"]]
            ctx.violation(key(o, h), "history %d step %d (%s): %s expected %s got %s" % (
                o["b"], o["step"], h[o["step"]]["op"], o["mismatch"], json.dumps(o["exp"])[:300], json.dumps(o["got"])[:300]),
                {"history": h, "mismatch": o})
    classes = collections.Counter()
    for e in extra:
        for k, v in e.get("classes", {}).items():
            classes[k] += v
    return mism, dict(classes)


def c39_key(o, h):
    e = h[o["step"]]
    cell = e["cell"]
    return "account:%s:%s:%s:%s" % (e["op"], o["mismatch"], "allowed" if cell["all"] else "refused", cell["badge"])


def C39(ctx):
    q = ctx.quick
    # S: the account as a state machine; the statement as action properties over every reachable configuration x every
    # guarded / owner deposit x every caller
    mcs = [({"Badges": '{"b1"}', "MaxBatch": 2, "Amounts": "{0, 1}"} if q else {"Badges": '{"b1", "b2"}', "MaxBatch": 2, "Amounts": "{0, 1}"})]
    if not q:
        mcs.append({"Badges": '{"b2", "b4"}', "MaxBatch": 3, "Amounts": "{1}"})
    mc_states = 0
    for consts in mcs:
        r = tlc("Account", "MCAccount", workers=4, consts=consts, timeout=6000)
        tlc_must_pass(r, "MCAccount %s" % consts, required_actions=["Call", "Config"])
        ctx.add_tlc(r)
        mc_states += r.distinct
    # G: seeded histories from random initial configurations, every step an instance of the specification's actions
    k = 8 if q else 10
    nsys = 720          # GenAccount.NSys: 576 systematic one-call histories (inputs of the decision x method x badge status)
    #                     + 144 two-call histories (empty bucket of the resource in a batch, then a follow-up deposit)
    walks = nsys + (200 if q else 4000)
    out_file = ctx.wpath("gen.out")
    g = tlc("Account", "GenAccount", workers=4, consts={"Walks": walks, "K": k, "Seed": ctx.seed % 65521}, timeout=6000,
            out_file=out_file, heap="4g")
    os.unlink(out_file)
    tlc_must_pass(g, "GenAccount (the statement's properties along every generated history)", required_actions=["GNext"])
    ctx.add_tlc(g)
    hists = g.printed("B")
    g.out = ""
    if len(hists) != walks:
        raise ToolError("GenAccount produced %d of %d histories" % (len(hists), walks))
    sysh = [h for h in hists if len(h) == 2 and h[1]["op"] in TRY_OPS and len(h[1]["bs"]) == 1]
    if len({(h[1]["op"], json.dumps(h[1]["cell"]["inputs"]), h[1]["cell"]["badge"]) for h in sysh}) < 576 \
            or sum(1 for h in hists if len(h) == 3 and h[1]["bs"] and h[1]["bs"][0]["a"] == 0) != 144:
        raise ToolError("the systematic families of GenAccount are incomplete")
    steps = [e for h in hists for e in h[1:]]
    # non-vacuity: every row of the statement's case analysis for every guarded method, the batch phenomena, every class
    cells = collections.Counter((e["op"], e["cell"]["all"], e["cell"]["badge"]) for e in steps if e["op"] in TRY_OPS)
    for op in TRY_OPS:
        for allowed in (True, False):
            for badge in ("none", "unlisted", "unproven", "vouched"):
                if cells[(op, allowed, badge)] < (5 if q else 50):
                    raise ToolError("vacuous histories: %s with %s buckets and badge %s occurs %d times"
                                    % (op, "allowed" if allowed else "refused", badge, cells[(op, allowed, badge)]))
    classes_exp = collections.Counter((e["op"], e["class"]) for e in steps)
    for need in (("try_deposit_or_abort", "DepositIsDisallowed"), ("try_deposit_batch_or_abort", "NotAllBucketsCouldBeDeposited"),
                 ("try_deposit_or_abort", "NotAnAuthorizedDepositor"), ("try_deposit_batch_or_refund", "AssertAccessRuleFailed"),
                 ("try_deposit_or_refund", "AssertAccessRuleFailed"), ("deposit", "Unauthorized"), ("deposit_batch", "ok"),
                 ("set_default_deposit_rule", "ok"), ("set_resource_preference", "ok"), ("remove_resource_preference", "ok"),
                 ("add_authorized_depositor", "ok"), ("remove_authorized_depositor", "ok")):
        if classes_exp[need] == 0:
            raise ToolError("vacuous histories: %s never ends with %s" % need)
    refunds = [e for e in steps if e["class"] == "ok" and e["returned"]]
    phen = {"refund_of_partly_allowed_batch": sum(1 for e in refunds if len(e["events"]) < len(e["bs"])),
            "refused_duplicate_resource": sum(1 for e in refunds if e["cell"]["dup"]),
            "empty_bucket_creates_vault": sum(1 for e in steps if e["cell"]["newvault"] and e["cell"]["empty"]
                                              and all(b["a"] == 0 for b in e["bs"])),
            "deposit_creates_vault": sum(1 for e in steps if e["cell"]["newvault"])}
    for name, n in phen.items():
        if n == 0:
            raise ToolError("vacuous histories: phenomenon %s never occurs" % name)
    ctx.sample({"history_step": next(e for e in refunds if len(e["bs"]) == 3 and len(e["events"]) < 3)})
    ctx.sample({"history_step": next(e for e in steps if e["class"] == "AssertAccessRuleFailed")})
    ctx.sample({"history_step": next(e for e in steps if e["op"] in TRY_OPS and e["cell"]["badge"] == "vouched" and not e["cell"]["all"])})
    ctx.sample({"history": next(h for h in hists if any(e["cell"]["newvault"] for e in h[1:]) and h[0]["st"]["default"] == "existing")[:4]})
    mism, classes = replay_histories(ctx, hists, key=c39_key, parts=2 if q else 4)

    # binding self-test: corrupted expectations (class, account balance, returned-to-sink balance, events) must be reported
    bad = json.loads(json.dumps(hists[:300]))

    def find(pred):
        return next((i, j) for i, h in enumerate(bad) for j, e in enumerate(h) if j > 0 and pred(e))
    i1, j1 = find(lambda e: e["class"] == "ok" and e["returned"])
    bad[i1][j1]["class"] = "DepositIsDisallowed"
    i2, j2 = find(lambda e: e["class"] == "ok" and e["op"] in TRY_OPS and not e["returned"] and any(b["a"] > 0 for b in e["bs"]))
    r2 = next(b["r"] for b in bad[i2][j2]["bs"] if b["a"] > 0)
    for e in bad[i2][j2:]:
        e["st"]["bal"][r2] -= 1
        e["st"]["sink"][r2] += 1
    i3, j3 = find(lambda e: e["class"] == "ok" and e["returned"] and e["events"])
    bad[i3][j3]["events"] = bad[i3][j3]["events"][:-1]
    rep, _ = replay_histories(ctx, bad, count=False)
    got = {(o["b"], o["step"], o["mismatch"]) for o in rep}
    for need in ((i1, j1, "class"), (i2, j2, "state"), (i3, j3, "events")):
        if need not in got:
            raise ToolError("binding self-test of account: corrupted %s of history %d step %d was not reported" % (need[2], need[0], need[1]))
    distinct = len({json.dumps([h[0]["st"], [[e["op"], e["arg"], e["bs"], e["c"]] for e in h[1:]]], sort_keys=True) for h in hists})
    return {"exhaustive": False, "distinct_nontrivial": distinct, "steps": len(steps), "impl_answers": classes,
            "case_rows_covered": len(cells), "phenomena": phen, "mc_states": mc_states,
            "rule": "MCAccount: every reachable account configuration (3 default rules x preferences of 3 resources x authorized "
                    "depositor sets x vault sets) x 6 deposit methods x every bucket list of %s x every caller (named badge or none x "
                    "proofs presented x owner signature) and every configuration call, with the statement as action properties; "
                    "GenAccount: systematically the full product (XRD or not x preference x default rule x vault exists) x 4 guarded "
                    "methods x badge none / unlisted / unproven / proven as 576 one-call histories; the same 36 input combinations x the 2 "
                    "batch methods x an empty bucket of the resource (alone / next to a non-empty bucket of another resource) followed "
                    "by a guarded deposit of the resource (144 two-call histories); and %d seeded histories of %d "
                    "operations from random initial configurations (deposit methods with "
                    "batches of 0..3 buckets over XRD / a fungible / a non-fungible resource with amounts 0..2, 4 badges: resource, "
                    "non-fungible id, signature, the id's resource; configuration changes in between), each operation one real "
                    "transaction source -> account -> sink, comparing receipt class, Deposit / RejectedDeposit events, the account's "
                    "rule, preferences, depositors, vaults and balances and the balance changes of source and sink after every step; "
                    "distinct = distinct histories" % ("<= 2 buckets (amounts 0..1, 1 badge)" if q else
                                                       "<= 2 buckets (amounts 0..1, 2 badges) and <= 3 buckets (amount 1, badges id / its resource)",
                                                       len(hists) - nsys, k)}


PROPS = {
    "C39": dict(fn=C39, level="model_checking", design_ref="5/C39",
                technique="TLA+ spec Account (default rule, resource preferences, authorized depositors, vault existence, balances of "
                          "account / source / sink; one action per method: the four guarded deposits as coded for Bottlenose+, owner "
                          "deposits, configuration calls): TLC checks the statement as action properties over the whole reachable "
                          "configuration space and along seeded histories, which are replayed as real transactions on a LedgerSimulator",
                text="The statement is written down independently of the actions: everything is deposited exactly when all resources "
                     "are allowed (preference, else default rule; AllowExisting = XRD or an existing vault) or a listed badge is named and "
                     "proven; the call fails exactly when a bucket is refused and the named listed badge is unproven, or an abort variant "
                     "cannot deposit everything; otherwise every bucket comes back and the account is unchanged; owner deposits bypass the "
                     "rules; frame (only balances of deposited resources change, vaults only appear, configuration untouched, a failure "
                     "changes nothing) and conservation (source + account + sink = 0). TLC checks these on every transition of the model. "
                     "Histories generated from the model are executed: the transaction withdraws the buckets from a funded source account, "
                     "creates the proofs the model lists (badge vault proofs, signature), calls the method on a fresh target account "
                     "prepared in the initial configuration and deposits whatever is returned into a sink; receipt class, the target's "
                     "Deposit / RejectedDeposit events in order, its complete configuration, vault set and balances and the balance changes "
                     "of source and sink are compared with the model after every transaction.",
                note="As coded and modelled: allowedness is evaluated for all buckets before any deposit (two buckets of a new resource "
                     "under AllowExisting are both refused); an allowed empty bucket creates the vault, which then counts as existing "
                     "forever; the named badge is ignored when everything is allowed; the depositor list is keyed by the exact badge value "
                     "(an id and its resource are different entries); the abort variants still run the pre-Bottlenose refund code, so a "
                     "named badge that is not listed fails with NotAnAuthorizedDepositor instead of DepositIsDisallowed / "
                     "NotAllBucketsCouldBeDeposited (the call fails either way). Not covered: Ed25519 / virtual-account creation paths, "
                     "fractional amounts, specific non-fungible ids (amounts are counts of ids), deposits made by components rather than "
                     "the transaction, the pre-Bottlenose protocol versions. Trusted: TLC, the manifest construction and the projection "
                     "of receipts / substates in the harness."),
}

"""Native DeFi column at ledger level: Pools (C41), Validator (C42).  Harness binary: vh_pools."""
import json, os, re, collections
import core
from core import tlc, tlc_must_pass, vh, ToolError, write_ndjson, read_ndjson, validate_trace
from concurrent.futures import ThreadPoolExecutor

BIN = "vh_pools"


def big(v):
    """limbs record -> python int (for samples / evidence only; nothing is decided here)"""
    n = 0
    for x in reversed(v["l"]):
        n = n * 10000 + x
    return n * v["s"]


def rm(p):
    try:
        os.unlink(p)
    except FileNotFoundError:
        pass


def split_runs(evs):
    runs, cur = [], []
    for e in evs:
        if e.get("a") == "reset" and cur:
            runs.append(cur)
            cur = []
        if e.get("a") != "end":
            cur.append(e)
    if cur:
        runs.append(cur)
    return runs


def validate_chunks(ctx, spec_dir, module, evs, max_chunks=4, heap="2g", timeout=3000, tag=""):
    """Cuts a recording at `reset` events, validates the pieces with parallel TLC processes.
    Returns [(accepted, first_unmatched, TlcResult, chunk_events)]."""
    runs = split_runs(evs)
    n = max(1, min(max_chunks, len(runs)))
    chunks = [[] for _ in range(n)]
    # balance by number of events
    for r in sorted(runs, key=len, reverse=True):
        min(chunks, key=len).extend(r)

    def one(i):
        p = ctx.wpath("%s-%s-chunk%d.ndjson" % (module, tag, i))
        write_ndjson(p, chunks[i])
        ok, idx, r = validate_trace(spec_dir, module, p, heap=heap, timeout=timeout)
        rm(p)
        return ok, idx, r, chunks[i]

    with ThreadPoolExecutor(max_workers=n) as ex:
        return list(ex.map(one, range(n)))


def harness_parallel(ctx, module, mode, inputs=None, nproc=4, args_of=None, tag="h"):
    """Runs `vh_pools <module> <mode>` in nproc processes (cases split round-robin, or per-process
    arguments from args_of(i)); returns the concatenated events."""
    def one(i):
        pout = ctx.wpath("%s-%s-out%d.ndjson" % (module, tag, i))
        pin = None
        if inputs is not None:
            part = inputs[i::nproc]
            if not part:
                return []
            pin = ctx.wpath("%s-%s-in%d.ndjson" % (module, tag, i))
            write_ndjson(pin, part)
        vh(BIN, [module, mode] + (args_of(i) if args_of else []), stdin_path=pin, stdout_path=pout, timeout=7200)
        evs = read_ndjson(pout)
        rm(pout)
        if pin:
            rm(pin)
        if not evs or evs[-1].get("a") != "end":
            raise ToolError("harness %s %s did not finish" % (module, mode))
        return evs
    with ThreadPoolExecutor(max_workers=nproc) as ex:
        parts = list(ex.map(one, range(nproc)))
    return [e for p in parts for e in p]


# ---------------------------------------------------------------------------------------------
# C41 liquidity pools
POOL_ACTIONS = ["DoContribute", "DoRedeem", "DoPDeposit", "DoPWithdraw"]
GAIN_KEY = "pools:multi-contribution-round-trip-gain"
WITNESS = [
    {"kind": k, "divs": [0, 18], "ops": [
        {"op": "contribute", "u": 1, "amt": ["=100", "=100"]},
        {"op": "contribute", "u": 2, "amt": ["=10", "=5.9"]},
        {"op": "contribute", "u": 2, "amt": ["=10", "=5.9"]},
        {"op": "redeem", "u": 2, "amt": "all"}]} for k in ("two", "multi")]


def _pool_event_brief(e):
    b = {"a": e["a"], "out": e["out"]}
    if e.get("cls"):
        b["cls"] = e["cls"]
    if "in" in e:
        b["in_attos"] = [str(big(x)) for x in e["in"]]
    if "x" in e:
        b["x_attos"] = str(big(e["x"]))
    b["reserves_after_attos"] = [str(big(x)) for x in e["res"]]
    b["units_after_attos"] = str(big(e["units"]))
    return b


def _pools_validate(ctx, evs, what, stats, max_chunks=4):
    """TracePools over a recording; reports rejections and GAIN witnesses, counts INFO-MINT."""
    res = validate_chunks(ctx, "Pools", "TracePools", evs, max_chunks=max_chunks, tag=what.split()[0])
    for ok, idx, r, ch in res:
        ctx.cov["evaluations"] += len(ch)
        gains = {(int(a), int(b)) for a, b in re.findall(r'<<"GAIN", (\d+), (\d+)>>', r.out)}
        infos = {int(a) for a in re.findall(r'<<"INFO-MINT", (\d+)>>', r.out)}
        stats["mint_above_prorata_of_accepted"] += len(infos)
        for l, k in sorted(gains):
            # the run (from its reset) up to the redeeming step is the replay
            start = max(i for i in range(l) if ch[i]["a"] == "reset")
            key = GAIN_KEY if k >= 2 else "pools:single-round-trip-gain"
            stats["gain_hits"] += 1
            ctx.violation(key, "%s: a user redeemed the units minted by his %d immediately preceding contribution(s) and received "
                               "more of a resource than those contributions put in (%s pool, divisibilities %s)"
                          % (what, k, ch[start]["kind"], ch[start]["div"]),
                          {"trace_module": "TracePools", "events": ch[start:l], "step": l - start})
        if ok:
            ctx.cov["traces_validated_against_impl"] += sum(1 for e in ch if e["a"] == "reset")
            continue
        ev = ch[idx - 1] if idx and idx <= len(ch) else {}
        start = max([i for i in range(idx or 1) if ch[i]["a"] == "reset"] or [0])
        kind = ch[start].get("kind", "?")
        key = "pools:trace-rejected:%s:%s:%s" % (kind, ev.get("a"), ev.get("out")) if not r.violated \
            else "pools:invariant:%s:%s" % (kind, r.violated)
        ctx.violation(key, "%s: TracePools rejects event %s (%s): %s" % (what, idx, r.violated or "no action matches",
                                                                          json.dumps(_pool_event_brief(ev))[:400] if ev else ""),
                      {"trace_module": "TracePools", "first_unmatched": idx, "events": ch[start:(idx or 1)],
                       "tlc_violated": r.violated})
    return res


def _pools_selftest(ctx, evs):
    """Binding: one recorded amount changed by one sub-unit must make TracePools reject."""
    runs = split_runs(evs)

    def corrupt(kind):
        for run in runs:
            for i, e in enumerate(run):
                if kind == "redeem-overpay" and e["a"] == "redeem" and e["out"] == "commit" and big(e["res"][0]) > 0:
                    bad = json.loads(json.dumps(run[:i + 1]))
                    ulp = big(run[0]["ulp"][0])
                    u = e["u"] - 1
                    # one more sub-unit paid out: reserve - ulp, user balance + ulp
                    bad[i]["res"][0] = to_limbs(big(e["res"][0]) - ulp)
                    bad[i]["bal"][u][0] = to_limbs(big(e["bal"][u][0]) + ulp)
                    return bad
                if kind == "change-lost" and e["a"] == "contribute" and e["out"] == "commit" and not e["acct"][0]:
                    bad = json.loads(json.dumps(run[:i + 1]))
                    ulp = big(run[0]["ulp"][0])
                    u = e["u"] - 1
                    # one sub-unit of change disappears: not in the reserve, not back in the account
                    bad[i]["bal"][u][0] = to_limbs(big(e["bal"][u][0]) - ulp)
                    if big(bad[i]["bal"][u][0]) < 0:
                        continue
                    return bad
        return None

    def check(kind):
        bad = corrupt(kind)
        if bad is None:
            raise ToolError("self-test: no %s candidate in the recording" % kind)
        p = ctx.wpath("pools-selftest-%s.ndjson" % kind)
        write_ndjson(p, bad)
        ok, idx, r = validate_trace("Pools", "TracePools", p)
        rm(p)
        if ok or idx != len(bad):
            raise ToolError("binding self-test failed: TracePools accepted a trace with %s (or rejected it elsewhere: %s)" % (kind, idx))
        return kind
    with ThreadPoolExecutor(max_workers=2) as ex:
        return list(ex.map(check, ["redeem-overpay", "change-lost"]))


def to_limbs(n):
    s = 0 if n == 0 else (1 if n > 0 else -1)
    n = abs(n)
    l = []
    while n:
        l.append(n % 10000)
        n //= 10000
    return {"s": s, "l": l}


def C41(ctx):
    q = ctx.quick
    core.build_harness(BIN)
    stats = collections.Counter()
    with ThreadPoolExecutor(max_workers=8) as ex:
        # S: every rounding choice inside the bounds, all op sequences of a small instance
        s_jobs = [("strict two", ex.submit(tlc, "Pools", "MCPools", workers=2 if q else 4, consts={"K": 4}, timeout=6000), None),
                  ("weak two RoundTrip1", ex.submit(tlc, "Pools", "MCPools", cfg="MCPoolsWeak1", workers=2,
                                                    consts={"K": 3 if q else 4}, timeout=6000), None),
                  ("weak two RoundTripK (negative control)",
                   ex.submit(tlc, "Pools", "MCPools", cfg="MCPoolsWeakK", workers=2, consts={"K": 4}, timeout=6000), "RoundTripK")]
        # every pool shape in every tier (one resource with ulp 1 and 2, equal ulps, three resources); deeper in thorough
        for sel, k in ((("one", 3), ("twoeq", 3), ("multi", 2)) if q else (("one", 5), ("twoeq", 4), ("multi", 3))):
            if True:
                s_jobs.append(("strict " + sel, ex.submit(tlc, "Pools", "MCPools", workers=1 if q else 2,
                                                          consts={"K": k, "CfgSel": '"%s"' % sel}, timeout=6000), None))
        # G': model-generated op sequences (inputs only)
        # the boundary product (every pool configuration x pool state x operation x amount class) in EVERY tier;
        # only the random bulk shrinks in quick
        fe = ex.submit(tlc, "Pools", "GenPools", workers=2, coverage=False, consts={"K": 2, "Mode": '"edge"'}, timeout=3000)
        fg = ex.submit(tlc, "Pools", "GenPools", workers=1, coverage=False, simulate=50 if q else 1500, depth=30,
                       seed=ctx.seed, timeout=3000)
        fp = None if q else ex.submit(tlc, "Pools", "GenPools", workers=2, coverage=False,
                                      consts={"K": 2, "Mode": '"pairs"'}, timeout=3000)
        seqs = fg.result().printed("B")
        if len(seqs) < (50 if q else 1500):
            raise ToolError("GenPools produced only %d sequences" % len(seqs))
        edge = fe.result().printed("B")
        if len(edge) < 1000:
            raise ToolError("GenPools (edge) produced only %d sequences" % len(edge))
        pairs = fp.result().printed("B") if fp else []
        if fp and len(pairs) < 5000:
            raise ToolError("GenPools (pairs) produced only %d sequences" % len(pairs))
        # every 5th pair sequence in thorough (the full set is 12 745 x 2 operations)
        cases = WITNESS + edge + seqs + pairs[ctx.seed % 5::5]
        ctx.sample({"generated_sequence": seqs[0]})
        f_g = ex.submit(harness_parallel, ctx, "pools", "run", cases, 6, None, "g")
        # T: seeded long histories
        runs, ln = (4, 60) if q else (90, 200)
        np_t = 2 if q else 6
        f_t = ex.submit(harness_parallel, ctx, "pools", "record", None, np_t,
                        lambda i: ["seed=%d" % (ctx.seed + 7919 * i), "runs=%d" % (runs // np_t), "len=%d" % ln], "t")
        ev_g, ev_t = f_g.result(), f_t.result()
        # the trusted limb conversion agrees with Display on the unchanged tree
        rc, st = vh(BIN, ["pools", "selftest"])
        if json.loads(st.splitlines()[0])["bad"] != 0:
            raise ToolError("limb conversion self-test failed")
        f_vg = ex.submit(_pools_validate, ctx, ev_g, "generated sequences", stats, 6 if q else 8)
        f_vt = ex.submit(_pools_validate, ctx, ev_t, "seeded histories", stats, 2 if q else 6)
        f_st = ex.submit(_pools_selftest, ctx, ev_g)
        for what, f, expect in s_jobs:
            r = f.result()
            if expect:
                if r.violated != expect:
                    raise ToolError("negative control failed: %s should violate %s (got %s)" % (what, expect, r.violated))
                continue
            tlc_must_pass(r, "MCPools " + what, required_actions=POOL_ACTIONS)
            ctx.add_tlc(r)
        f_vg.result()
        f_vt.result()
        selftests = f_st.result()

    def tally(evs):
        c = collections.Counter()
        for e in evs:
            if e["a"] in ("reset", "end"):
                continue
            c["%s:%s" % (e["a"], e["out"])] += 1
            if e["out"] not in ("commit",):
                c["cls:" + e["cls"].split(".")[-1]] += 1
        return dict(c)
    seen = {(e["a"], e.get("out")) for e in ev_g}
    for a in ("contribute", "redeem", "pdeposit", "pwithdraw"):
        for o in ("commit", "err"):
            if (a, o) not in seen and (a, o) != ("pdeposit", "err"):
                raise ToolError("vacuous run: no %s with outcome %s" % (a, o))
    kinds_seen = {(e["kind"], tuple(e["div"])) for e in ev_g if e["a"] == "reset"}
    if len(kinds_seen) < 10:
        raise ToolError("vacuous run: only %d pool configurations exercised" % len(kinds_seen))
    committed = [e for e in ev_g + ev_t if e.get("out") == "commit"]
    ctx.sample({"recorded_step": _pool_event_brief(next(e for e in ev_g if e["a"] == "redeem" and e["out"] == "commit"))})
    ctx.sample({"recorded_step": _pool_event_brief(next(e for e in ev_t if e["a"] == "contribute" and e["out"] == "commit" and len(e["res"]) > 1))})
    errs = [e for e in ev_g + ev_t if e.get("out") == "err" and "Overflow" in e.get("cls", "")]
    if errs:
        ctx.sample({"recorded_step": _pool_event_brief(errs[0])})
    distinct = len({json.dumps([e["a"], e.get("in"), e.get("x"), e["res"], e["units"]], sort_keys=True) for e in committed})
    ops_g = sum(1 for e in ev_g if e["a"] not in ("reset", "end"))
    ops_t = sum(1 for e in ev_t if e["a"] not in ("reset", "end"))
    return {"distinct_nontrivial": distinct, "exhaustive": False,
            "ops_generated_sequences": ops_g, "ops_seeded_histories": ops_t,
            "outcomes_generated": tally(ev_g), "outcomes_histories": tally(ev_t),
            "mint_above_prorata_of_accepted_steps": stats["mint_above_prorata_of_accepted"],
            "round_trip_gain_hits": stats["gain_hits"], "binding_selftests": selftests,
            "rule": "S: MCPools (TLC integers, 2 users, amounts 0..4, ulps 1 and 2): all operation sequences and EVERY admissible "
                    "accepted/minted/paid amount; invariants NonNeg, UnitsAreHeld, Solvent, RoundTrip1, RoundTripK, closed forms = their "
                    "quantified meaning, RedeemProRata; plus the run with the mint bound the v1_1 code guarantees (RoundTrip1 holds, "
                    "RoundTripK must fail: negative control). G': the exhaustive boundary product (%d sequences: 10 pool "
                    "configurations x pool state normal/fresh/fully redeemed/ownerless reserves/one reserve emptied x every operation "
                    "with every amount class incl. zero, 1 ulp, = reserve, 10^6 x reserve, mint limit, holding + 1 atto) in every tier, "
                    "%d seeded TLC-generated sequences of 12 operations%s and the fixed witness scenario executed as "
                    "transactions on real pools; T: %d seeded histories of %d operations incl. protected deposits/withdrawals; every "
                    "step's reserves (vault substates), pool-unit supply and user balances validated by TracePools.tla with big "
                    "integers. distinct = distinct committed steps (operation, amounts, resulting reserves and supply)"
                    % (len(edge), len(seqs), " + %d exhaustive 2-operation sequences" % len(pairs[ctx.seed % 5::5]) if pairs else "", runs // np_t * np_t, ln)}


# ---------------------------------------------------------------------------------------------
# C42 validator staking, emissions, active set
VAL_ACTIONS = ["DoStake", "DoUnstake", "DoClaim", "DoRegister", "DoFee", "DoEpoch"]
# DESIGN L7 on the real ledger: 13 registered validators in ONE 100k bucket, max_validators = 1, so the index scan
# (max + max/10 + 10 = 11 entries) cannot see them all; the specification must accept whatever member of the bucket is chosen
L7_CASE = {"stakes": [str(100000 + 7 * i) for i in range(13)], "emission": "100", "minrel": "0", "maxv": 1, "unstake": 1,
           "ops": [{"op": "epoch", "leader": 0}, {"op": "stake", "v": 13, "u": 1, "amt": "one"},
                   {"op": "stake", "v": 5, "u": 2, "amt": "mid"}, {"op": "round", "leader": 0}, {"op": "epoch", "leader": 0},
                   {"op": "unregister", "v": 1}, {"op": "round", "leader": 0}, {"op": "epoch", "leader": 0}]}


def _val_event_brief(e):
    b = {"a": e["a"], "out": e.get("out"), "epoch_after": e["epoch"]}
    for k in ("v", "u"):
        if k in e:
            b[k] = e[k]
    if "x" in e:
        b["x_attos"] = str(big(e["x"]))
    if e.get("cls"):
        b["cls"] = e["cls"]
    b["validators_after"] = [{"stake": str(big(v["stake"])), "su": str(big(v["su"])), "pend": str(big(v["pend"])), "reg": v["reg"]}
                             for v in e["val"]]
    if e["a"] == "epoch":
        b["emissions"] = [{"v": x["v"], "net": str(big(x["net"])), "fee": str(big(x["fee"])), "made": x["made"], "missed": x["missed"]}
                          for x in e["em"]]
        b["rewards"] = [{"v": x["v"], "amt": str(big(x["amt"]))} for x in e["rw"]]
        b["validator_set"] = [{"v": x["v"], "stake": str(big(x["stake"]))} for x in e["set"]]
        b["xrd_appeared"] = str(big(e["dsupply"]))
    return b


def _val_validate(ctx, evs, what, stats, max_chunks=4):
    res = validate_chunks(ctx, "Validator", "TraceValidator", evs, max_chunks=max_chunks, tag=what.split()[0])
    for ok, idx, r, ch in res:
        ctx.cov["evaluations"] += len(ch)
        gains = {(int(a), int(b)) for a, b in re.findall(r'<<"GAIN", (\d+), (\d+)>>', r.out)}
        for l, k in sorted(gains):
            start = max(i for i in range(l) if ch[i]["a"] == "reset")
            stats["gain_hits"] += 1
            ctx.violation("validator:stake-unstake-gain", "%s: a user unstaked the units minted by his %d immediately preceding "
                          "stake(s) and the claim is worth more XRD than he staked" % (what, k),
                          {"trace_module": "TraceValidator", "events": ch[start:l], "step": l - start})
        if ok:
            ctx.cov["traces_validated_against_impl"] += sum(1 for e in ch if e["a"] == "reset")
            continue
        ev = ch[idx - 1] if idx and idx <= len(ch) else {}
        start = max([i for i in range(idx or 1) if ch[i]["a"] == "reset"] or [0])
        key = "validator:trace-rejected:%s:%s" % (ev.get("a"), ev.get("out")) if not r.violated \
            else "validator:invariant:%s" % r.violated
        ctx.violation(key, "%s: TraceValidator rejects event %s (%s): %s" % (what, idx, r.violated or "no action matches",
                                                                             json.dumps(_val_event_brief(ev))[:600] if ev else ""),
                      {"trace_module": "TraceValidator", "first_unmatched": idx, "events": ch[start:(idx or 1)],
                       "tlc_violated": r.violated})
    return res


def _val_selftest(ctx, evs):
    """Binding: a recorded amount changed by one atto must make TraceValidator reject at that event."""
    runs = split_runs(evs)

    def corrupt(kind):
        for run in runs:
            for i, e in enumerate(run):
                if e.get("out") != "commit":
                    continue
                if kind == "claim-overpay" and e["a"] == "claim":
                    bad = json.loads(json.dumps(run[:i + 1]))
                    u = e["u"] - 1
                    bad[i]["xrd"][u] = to_limbs(big(e["xrd"][u]) + 1)          # one atto more than the claim NFTs say
                    return bad
                if kind == "xrd-out-of-nothing" and e["a"] == "epoch" and e["em"]:
                    bad = json.loads(json.dumps(run[:i + 1]))
                    bad[i]["dsupply"] = to_limbs(big(e["dsupply"]) + 1)        # one atto appeared beyond the emission events
                    return bad
                if kind == "over-mint" and e["a"] == "stake" and i >= 1 and big(e["x"]) > 0:
                    v, u = e["v"] - 1, e["u"] - 1
                    prev = run[i - 1]["val"][v]
                    if big(prev["stake"]) != big(prev["su"]) or big(prev["stake"]) == 0:
                        continue                                               # ratio 1: the mint bound is tight
                    bad = json.loads(json.dumps(run[:i + 1]))
                    bad[i]["val"][v]["su"] = to_limbs(big(e["val"][v]["su"]) + 1)
                    bad[i]["held"][u][v] = to_limbs(big(e["held"][u][v]) + 1)
                    return bad
                if kind == "set-order" and e["a"] == "epoch" and len(e["set"]) >= 2 and big(e["set"][0]["stake"]) != big(e["set"][1]["stake"]):
                    bad = json.loads(json.dumps(run[:i + 1]))
                    bad[i]["set"][0], bad[i]["set"][1] = bad[i]["set"][1], bad[i]["set"][0]
                    bad[i]["aset"] = bad[i]["set"]
                    return bad
        return None

    def check(kind):
        bad = corrupt(kind)
        if bad is None:
            raise ToolError("self-test: no %s candidate in the recording" % kind)
        p = ctx.wpath("val-selftest-%s.ndjson" % kind)
        write_ndjson(p, bad)
        ok, idx, r = validate_trace("Validator", "TraceValidator", p)
        rm(p)
        if ok or idx != len(bad):
            raise ToolError("binding self-test failed: TraceValidator accepted a trace with %s (or rejected it elsewhere: %s)" % (kind, idx))
        return kind
    kinds = ["claim-overpay", "xrd-out-of-nothing", "over-mint", "set-order"]
    with ThreadPoolExecutor(max_workers=4) as ex:
        return list(ex.map(check, kinds))


def C42(ctx):
    q = ctx.quick
    core.build_harness(BIN)
    stats = collections.Counter()
    nseq = 25 if q else 700
    with ThreadPoolExecutor(max_workers=8) as ex:
        s_jobs = [("3 validators K=3", ex.submit(tlc, "Validator", "MCValidator", workers=3 if q else 4,
                                                 consts={"K": 3, "Emission": 1 if q else 2}, timeout=6000), None),
                  ("exact-stake ordering (negative control, DESIGN L7)",
                   ex.submit(tlc, "Validator", "MCValidator", cfg="MCValidatorExact", workers=1, timeout=3000), "ExactTopK")]
        # selection with a scan shorter than the candidate list, in every tier
        s_jobs.append(("short scan", ex.submit(tlc, "Validator", "MCValidator", cfg="MCValidatorScan", workers=1, timeout=3000), "-"))
        if not q:
            s_jobs.append(("genesis b", ex.submit(tlc, "Validator", "MCValidator", workers=3,
                                                  consts={"K": 3, "Emission": 1, "GenesisSel": '"b"', "MaxV": 1, "Scan": 2}, timeout=6000), None))
        fe = ex.submit(tlc, "Validator", "GenValidator", workers=2, coverage=False, consts={"Mode": '"edge"'}, timeout=3000)
        fg = ex.submit(tlc, "Validator", "GenValidator", workers=1, coverage=False, simulate=nseq, depth=60, seed=ctx.seed, timeout=3000)
        runs, ln = (2, 60) if q else (60, 150)
        np_t = 2 if q else 6
        f_t = ex.submit(harness_parallel, ctx, "validator", "record", None, np_t,
                        lambda i: ["seed=%d" % (ctx.seed + 104729 * i), "runs=%d" % (runs // np_t), "len=%d" % ln], "t")
        seqs = fg.result().printed("B")
        if len(seqs) < nseq:
            raise ToolError("GenValidator produced only %d sequences" % len(seqs))
        ctx.sample({"generated_history": {k: (v if k != "ops" else v[:8]) for k, v in seqs[0].items()}})
        edge = fe.result().printed("B")
        if len(edge) < 120:
            raise ToolError("GenValidator (edge) produced only %d histories" % len(edge))
        ev_g = harness_parallel(ctx, "validator", "run", [L7_CASE] + edge + seqs, 4 if q else 6, None, "g")
        ev_t = f_t.result()
        f_vg = ex.submit(_val_validate, ctx, ev_g, "generated histories", stats, 4 if q else 8)
        f_vt = ex.submit(_val_validate, ctx, ev_t, "seeded histories", stats, 2 if q else 6)
        f_st = ex.submit(_val_selftest, ctx, ev_g + ev_t)
        for what, f, expect in s_jobs:
            r = f.result()
            if expect == "-":                     # small side model: must pass, action coverage is the main model's job
                tlc_must_pass(r, "MCValidator " + what, required_actions=["DoEpoch"])
                ctx.add_tlc(r)
                continue
            if expect:
                if r.violated != expect:
                    raise ToolError("negative control failed: %s should violate %s (got %s)" % (what, expect, r.violated))
                continue
            tlc_must_pass(r, "MCValidator " + what, required_actions=VAL_ACTIONS)
            ctx.add_tlc(r)
        f_vg.result()
        f_vt.result()
        selftests = f_st.result()

    allev = [e for e in ev_g + ev_t if e["a"] not in ("reset", "end")]
    tally = collections.Counter("%s:%s" % (e["a"], e["out"]) for e in allev)
    errs = collections.Counter(e["cls"].split(".")[-1] for e in allev if e["out"] != "commit")
    seenv = {(e["a"], e["out"]) for e in allev}
    for pair in (("stake", "commit"), ("unstake", "commit"), ("unstake", "err"), ("claim", "commit"), ("claim", "err"), ("register", "commit"),
                 ("unregister", "commit"), ("update_fee", "commit"), ("update_fee", "err"), ("round", "commit"), ("epoch", "commit")):
        if pair not in seenv:
            raise ToolError("vacuous run: no %s with outcome %s" % pair)
    epochs = [e for e in allev if e["a"] == "epoch" and e["out"] == "commit"]
    if not epochs or not any(e["em"] for e in epochs) or not any(e["rw"] for e in epochs):
        raise ToolError("no epoch change with emissions and rewards was exercised")
    ctx.sample({"recorded_epoch_change": _val_event_brief(next(e for e in epochs if e["em"] and e["rw"]))})
    ctx.sample({"recorded_step": _val_event_brief(next(e for e in allev if e["a"] == "unstake" and e["out"] == "commit"))})
    committed = [e for e in allev if e["out"] == "commit"]
    distinct = len({json.dumps([e["a"], e.get("v"), e.get("u"), e.get("x"), e["val"], e.get("set")], sort_keys=True) for e in committed})
    set_sizes = collections.Counter(len(e["set"]) for e in epochs)
    # information: how often the chosen set is NOT the exact-stake top (allowed inside a bucket, DESIGN L7)
    inversions = 0
    for e in ev_g + ev_t:
        if e["a"] in ("reset", "epoch") and e.get("out", "commit") == "commit":
            members = {x["v"] for x in e["aset"]}
            low = min([big(x["stake"]) for x in e["aset"]] or [0])
            if any(v["reg"] and big(v["stake"]) > low and (i + 1) not in members for i, v in enumerate(e["val"])) and members:
                inversions += 1
    return {"distinct_nontrivial": distinct, "exhaustive": False,
            "transactions_generated_histories": sum(1 for e in ev_g if e["a"] not in ("reset", "end")),
            "transactions_seeded_histories": sum(1 for e in ev_t if e["a"] not in ("reset", "end")),
            "outcomes": dict(tally), "error_classes": dict(errs), "epoch_changes": len(epochs),
            "epoch_changes_with_emission": sum(1 for e in epochs if e["em"]),
            "active_set_sizes": {str(k): v for k, v in set_sizes.items()},
            "sets_not_exact_stake_top_within_bucket": inversions,
            "stake_unstake_gain_hits": stats["gain_hits"], "binding_selftests": selftests,
            "rule": "S: MCValidator (TLC integers, 3 validators, 2 users, bucket = stake div 2): all histories of 3 operations and EVERY "
                    "admissible mint / claim amount / emission / reward / owner-unit mint; the active set is produced by a model of the "
                    "code's selection (bucket-ordered index with arbitrary order inside a bucket, scan, sort by exact stake, take max) for "
                    "every tie order; invariants NonNeg, UnitsAreHeld, ClaimsBacked, NoGain (= its quantified meaning), action properties "
                    "NoValueCreated, EmissionBound, PriceMonotone, ActiveSetChosenOK; negative control: ordering by exact stake fails when "
                    "the scan is shorter than the candidate list. G': the exhaustive boundary product in every tier (%d histories: every "
                    "genesis stake set x max_validators 1..3 with bucket-crossing stake / (un)registration / fee 0, 1, invalid; every XRD "
                    "class incl. 0, 1 atto, 100 000, = stake, whole balance x validator in / out of the set x unit price 1 / skewed as "
                    "stake -> unstake(minted) -> claim; every unit class of unstake; claims before / at / after the claim epoch; "
                    "reliability above / at / below the minimum x emission 1 atto / 0.333.. / 100) + %d seeded TLC-generated histories of 25 transactions (genesis stake sets "
                    "around the 100k bucket boundaries x emission x min reliability x max_validators 1..3 x unbonding 1..2) and T: %d "
                    "seeded histories of %d transactions on a LedgerSimulator with custom genesis; after every transaction stake vault, "
                    "stake-unit supply, pending vault, owner vault, claim NFT data, user balances, rewards vault, XRD appearing/burnt, "
                    "emission/reward events and EpochChangeEvent.validator_set validated by TraceValidator.tla with big integers. "
                    "distinct = distinct committed transactions (operation, arguments, resulting validator state, chosen set)"
                    % (len(edge), len(seqs), runs // np_t * np_t, ln)}


PROPS = {
    "C41": dict(fn=C41, level="model_checking", design_ref="5/C41",
                technique="TLA+ spec Pools (nondeterministic contribute/redeem within the stated bounds, abstract number signature): TLC "
                          "exhaustive on small integers over every rounding choice + TLC-generated operation sequences and seeded histories "
                          "executed on the real pool blueprints through a LedgerSimulator, every step validated by TracePools (BigInt)",
                text="Pools.tla states what a contribution may accept and mint and what a redemption may pay by cross-multiplied "
                     "inequalities only (pay*units <= redeemed*reserve in whole ulps; accepted amounts in the current ratio up to one ulp "
                     "and the pool's 36-digit precision; change = offered - accepted exactly; mint below pro-rata of the amount before "
                     "cutting to the divisibility). TLC checks on a small integer instance, for all operation sequences and every "
                     "admissible rounding, that these bounds imply non-negative reserves, units = sum of holdings, solvency and that a "
                     "contribution immediately redeemed never gains; it also shows that the last claim extends to several consecutive "
                     "contributions only under the stricter mint bound. The same module instantiated with big integers validates every "
                     "step of real one-, two- and multi-resource pools (reserve vaults, pool-unit supply, user account balances read from "
                     "the database after each transaction): model-generated operation sequences with amount classes from one sub-unit to "
                     "the mint limit, and seeded long histories with protected deposits/withdrawals. Panics and native traps match no action.",
                note="Trusted: TLC, BigInt.tla, the harness projection (balances read through SystemDatabaseReader, limbs from the byte "
                     "representation). Pools are the current protocol version's (v1_1); v1_0 code is not driven. New pool (no units in "
                     "circulation): any positive mint is admitted and whatever sits in the vaults counts as ownerless (as coded). "
                     "Known finding (key pools:multi-contribution-round-trip-gain): the v1_1 two-/multi-resource pools mint for the amount "
                     "BEFORE it is cut to the divisibility, so k>=2 consecutive contributions then one redemption can return one ulp more "
                     "than was put in; a single contribute->redeem cannot. Steps exceeding DESIGN's stricter per-contribution bound are "
                     "counted in the evidence (mint_above_prorata_of_accepted_steps), not reported."),
    "C42": dict(fn=C42, level="model_checking", design_ref="5/C42",
                technique="TLA+ spec Validator (nondeterministic stake/unstake/claim/epoch-change within the stated bounds, abstract number "
                          "signature): TLC exhaustive on small integers over every rounding choice and every index tie order + TLC-generated "
                          "and seeded transaction histories on a LedgerSimulator with custom genesis, every transaction validated by "
                          "TraceValidator (BigInt)",
                text="Validator.tla states by cross-multiplied inequalities what a stake may mint (m*stake <= x*su), what an unstake may "
                     "promise (c*su <= units*stake, claim NFT for exactly c after the unbonding epochs), that a claim pays exactly the NFT "
                     "amounts out of the pending vault, and what an epoch change may do: emissions only to members of the concluded set, in "
                     "total <= the configured emission and equal to the XRD that appears, rewards <= the rewards vault, owner units worth "
                     "no more than what was added, and a new active set of registered validators with stake, at most max_validators, in "
                     "non-increasing stake order, complete and correct across 100k-XRD index buckets. TLC checks on a small integer instance "
                     "for all histories and roundings that these bounds imply no-gain stake->unstake round trips, claims always backed by "
                     "the pending vault, no value created, and that the code's bucket-index selection yields ActiveSetOK for every tie "
                     "order. The same module with big integers validates every transaction of model-generated and seeded histories on the "
                     "real blueprints (vaults, supplies, claim NFTs, events read after each transaction).",
                note="Trusted: TLC, BigInt.tla, the harness projection (vault balances and substates via SystemDatabaseReader, events "
                     "decoded from the receipt, limbs from bytes). XRD does not track a total supply: the XRD appearing/burnt per "
                     "transaction is the sum of all XRD vault balance changes in the receipt. Active-set ordering is demanded across "
                     "100k-XRD buckets only (DESIGN L7; exact order inside a bucket is not guaranteed by the index scan and is not "
                     "demanded). Fee-change delay rules and owner stake-unit unlocking are driven but not specified (outside the "
                     "statement). At most 4 validators, so the index scan always covers all candidates on the real ledger; the "
                     "short-scan case is covered at model level only. Observation outside the statement: with an empty stake-unit supply "
                     "and dust left in the stake vault a stake mints 0 units (the spec admits exactly that)."),
}

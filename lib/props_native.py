"""Native blueprints at ledger level: AccessController (C40), Consensus (C44).  Harness binary: vh_native."""
import json, os, collections
from concurrent.futures import ThreadPoolExecutor
import core
from core import tlc, tlc_must_pass, vh, ToolError, write_ndjson

BIN = "vh_native"


def replay(ctx, module, behaviours, what, key, vh_args=(), count=True):
    """spec -> impl: behaviours (calls with the result and state the model demands) replayed on a real ledger."""
    if not behaviours:
        raise ToolError("no behaviours generated for " + module)
    p = ctx.wpath(module + "-beh.ndjson")
    write_ndjson(p, behaviours)
    rc, out = vh(BIN, [module, "replay"] + list(vh_args), stdin_path=p, timeout=3000)
    os.unlink(p)
    done, mism, extra = None, [], []
    for line in out.splitlines():
        o = json.loads(line)
        if "mismatch" in o:
            mism.append(o)
        elif "done" in o:
            done = o
        else:
            extra.append(o)
    if done is None or done["done"] != len(behaviours):
        raise ToolError("replay of %s did not complete" % module)
    if count:
        ctx.cov["traces_validated_against_impl"] += len(behaviours)
        ctx.cov["evaluations"] += done["steps"]
        for o in mism:
            ctx.violation("%s:%s" % (key, o["mismatch"].split(" (")[0]),
                          "%s %d step %d: %s expected %s got %s" % (what, o["b"], o["step"], o["mismatch"],
                                                                   json.dumps(o["exp"])[:300], json.dumps(o["got"])[:300]),
                          {"module": module, "behaviour": behaviours[o["b"]], "mismatch": o})
    return done, mism, extra


def greedy_cover(items, keys_of):
    """Deterministic selection for the quick tier: the fewest items (greedy set cover, ties by position) whose
    boundary keys cover the keys of ALL items - so no (state class x call kind x result x boundary class)
    combination of the complete cover is left out, whatever the seed.  Returns (indices, number of keys)."""
    ks = [keys_of(b) for b in items]
    todo = set().union(*ks) if ks else set()
    total = len(todo)
    sel = []
    while todo:
        i = max(range(len(items)), key=lambda i: (len(ks[i] & todo), -i))
        sel.append(i)
        todo -= ks[i]
    return sel, total


def sgn(x):
    return (x > 0) - (x < 0)


# ---------------------------------------------------------------------------------------------
# C40 access controller
def c40_keys(b):
    s0 = b["path"][-1] if b["path"] else b["init"]
    st = s0["st"]
    if st["rRec"]["kind"] != "timed":
        tcls = "-"
    else:
        d = st["rRec"]["after"] - s0["now"]
        tcls = ("<0" if d < 0 else str(d) if d <= 1 else ">1", s0["now"] % 2)
    base = (st["locked"], st["rRec"]["kind"], tcls, st["pRec"]["delay"] != -2, st["pWd"], st["rWd"], st["asset"], st["delay"])
    ks = set()
    for f in b["fan"]:
        ks.add((f["m"], f["res"], min(len(f["c"]), 2), f["narrow"]) + base)
        ks.add(("prop", f["m"], f["res"], f["prop"] == st["rRec"]["prop"], f["prop"] == st["pRec"]))
        # which components of the proposal argument differ from the pending proposal the method is about
        if f["m"] in ("qcPRec", "qcRRec", "timedConfirm", "stopTimed") and f["res"] != "Unauthorized":
            pend = st["pRec"] if f["m"] == "qcPRec" else st["rRec"]["prop"]
            if pend["delay"] != -2:
                diff = tuple([i for i in range(3) if f["prop"]["rules"][i] != pend["rules"][i]] + (["delay"] if f["prop"]["delay"] != pend["delay"] else []))
                ks.add(("diff", f["m"], f["res"], diff, st["rRec"]["kind"], tcls if f["m"] == "timedConfirm" else ""))
    return ks


def C40(ctx):
    q = ctx.quick
    core.build_harness(BIN)
    with ThreadPoolExecutor(max_workers=4) as ex:
        f_s = ex.submit(tlc, "AccessController", "MCAccessController",
                        cfg="MCAccessControllerQuick" if q else "MCAccessController", workers=4, timeout=2400)
        f_n = ex.submit(tlc, "AccessController", "MCAccessController", cfg="MCAccessControllerNarrow", workers=2,
                        coverage=False, timeout=2400) if not q else None
        f_c = ex.submit(tlc, "AccessController", "MCGen", cfg="Cover", workers=2, coverage=False, timeout=2400,
                        out_file=ctx.wpath("cover.out"))
        f_r = ex.submit(tlc, "AccessController", "MCGen", cfg="Sim", workers=1, coverage=False, timeout=2400,
                        simulate=150 if q else 2500, depth=21, seed=ctx.seed, out_file=ctx.wpath("sim.out"))
        r_s, r_n, r_c, r_r = f_s.result(), (f_n.result() if f_n else None), f_c.result(), f_r.result()
    for f in ("cover.out", "sim.out"):
        if os.path.exists(ctx.wpath(f)):
            os.unlink(ctx.wpath(f))
    tlc_must_pass(r_s, "MCAccessController (TwoRolesOrTimer, ProposedByOwnRole, ExactProposal, TimerRespected, "
                       "LockedNoProof, ResetAfterConfirm ...)")
    ctx.add_tlc(r_s)
    if r_n is not None and r_n.violated != "TimedByRecoveryRole":
        raise ToolError("the narrow reading (TimedByRecoveryRole) is expected to fail on the model of the code; TLC said %s" % r_n.violated)
    if not r_c.ok or not r_r.ok:
        raise ToolError("behaviour generation for AccessController failed")
    cover = r_c.printed("B")
    sim = r_r.printed("B")
    r_c.out = r_r.out = ""
    if len(cover) < 1000 or len(sim) < 100:
        raise ToolError("too few behaviours: %d cover states, %d simulated" % (len(cover), len(sim)))
    # non-vacuity: every method succeeds somewhere and every error class occurs
    res = collections.Counter((f["m"], f["res"]) for b in cover for f in b["fan"])
    methods = {m for (m, _) in res}
    for m in methods:
        if res[(m, "ok")] == 0 or res[(m, "Unauthorized")] + (1 if m == "timedConfirm" else 0) == 0:
            raise ToolError("vacuous cover: %s never succeeds / is never refused" % m)
    for e in ("OperationRequiresUnlockedPrimaryRole", "RecoveryAlreadyExistsForProposer", "BadgeWithdrawAttemptAlreadyExistsForProposer",
              "NoRecoveryExistsForProposer", "RecoveryProposalMismatch", "NoBadgeWithdrawAttemptExistsForProposer",
              "NoTimedRecoveriesFound", "TimedRecoveryDelayHasNotElapsed"):
        if not any(r == e for (_, r) in res):
            raise ToolError("vacuous cover: error class %s never expected" % e)
    # every confirming / stopping method is refused for a proposal differing from the pending one in exactly one
    # component - each of primary, recovery, confirmation rule and delay (part of every fan, never sampled)
    def one_off(b, f):
        s0 = (b["path"][-1] if b["path"] else b["init"])["st"]
        pend = s0["pRec"] if f["m"] == "qcPRec" else s0["rRec"]["prop"]
        if pend["delay"] == -2:
            return None
        d = [i for i in range(3) if f["prop"]["rules"][i] != pend["rules"][i]] + ([3] if f["prop"]["delay"] != pend["delay"] else [])
        return d[0] if len(d) == 1 else None
    one = collections.Counter((f["m"], one_off(b, f), f["res"]) for b in cover for f in b["fan"]
                              if f["m"] in ("qcPRec", "qcRRec", "timedConfirm", "stopTimed") and f["res"] != "Unauthorized")
    for m in ("qcPRec", "qcRRec", "timedConfirm", "stopTimed"):
        for comp in range(4):
            if one[(m, comp, "RecoveryProposalMismatch")] == 0:
                raise ToolError("vacuous cover: %s never called with a proposal differing only in component %d" % (m, comp))
    narrow_states = [b for b in cover if any(f["narrow"] for f in b["fan"])]
    if not narrow_states:
        raise ToolError("vacuous cover: no timed confirmation by a caller without the recovery role")
    n_keys = 0
    if q:
        # full product (abstract state class: locked x recovery kind x distance to the timer -1/0/1 and half-minute phase x
        # pending proposals / withdrawals x asset x delay) x (method x result x caller size x narrow) and (method x result x
        # proposal equal to the pending ones) is kept; only the seeded bulk on top of it is a sample
        idx, n_keys = greedy_cover(cover, c40_keys)
        chosen = set(idx)
        rest = [i for i in range(len(cover)) if i not in chosen]
        ctx.rng.shuffle(rest)
        sel = [cover[i] for i in idx + rest[:15]]
        if not any(f["narrow"] for b in sel for f in b["fan"]):
            raise ToolError("quick selection lost the narrow-reading calls")
    else:
        sel = cover
    ctx.sample({"cover_state": {"path": [{k: v for k, v in s.items() if k != "st"} for s in sel[0]["path"]],
                                "fan_calls": len(sel[0]["fan"]), "one_fan_call": sel[0]["fan"][0]}})
    ctx.sample({"simulated_behaviour_calls": [[s["m"], s["c"], s["res"]] for s in sim[0]["path"]]})
    _, mism, extra = replay(ctx, "access_controller", sel, "cover behaviour", "access_controller")
    results = dict(extra[0]["results"]) if extra else {}
    _, mism2, extra2 = replay(ctx, "access_controller", sim, "simulated behaviour", "access_controller")
    for k, v in (extra2[0]["results"] if extra2 else {}).items():
        results[k] = results.get(k, 0) + v
    # lead L2 (information, not a violation - ruling of the integrator: role-less callers are outside the statement's
    # quantifier, and a primary / confirmation caller is covered by the first clause): the real ledger completed a
    # timed recovery for a caller without the recovery role
    hits = [(b, f) for b in sel for f in b["fan"] if f["narrow"]] if not mism else []
    l2_info = "not exercised"
    if hits:
        b0, f0 = hits[0]
        l2_info = ("confirmed on the ledger in %d replayed calls: timed_confirm_recovery is public - e.g. caller badges %s (no "
                   "recovery role, rules %s) completed the recovery role's timed recovery after the delay"
                   % (len(hits), f0["c"], (b0["path"][-1]["st"] if b0["path"] else b0["init"]["st"])["rules"]))
    # binding self-test
    bad = json.loads(json.dumps(sim[:3]))
    i = next(i for i, s in enumerate(bad[0]["path"]) if s["res"] == "ok" and s["m"] not in ("tick",))
    bad[0]["path"][i]["res"] = "Unauthorized"
    j = next(j for j, s in enumerate(bad[1]["path"]) if s["res"] == "ok")
    bad[1]["path"][j]["st"]["locked"] = not bad[1]["path"][j]["st"]["locked"]
    bad[2]["path"][-1]["st"]["rules"] = [4, 4, 4]
    _, sm, _ = replay(ctx, "access_controller", bad, "", "", count=False)
    if len({o["b"] for o in sm}) != 3:
        raise ToolError("binding self-test of access_controller: %d of 3 corrupted behaviours reported" % len({o["b"] for o in sm}))
    distinct = len({json.dumps([b["init"], [(s["m"], s["c"], s["prop"]) for s in b["path"]]], sort_keys=True) for b in sel}) \
        + len({json.dumps([b["init"], [(s["m"], s["c"], s["prop"]) for s in b["path"]]], sort_keys=True) for b in sim})
    return {"exhaustive": not q, "distinct_nontrivial": distinct, "cover_states_total": len(cover), "cover_states_replayed": len(sel),
            "fan_calls_replayed": sum(len(b["fan"]) for b in sel), "simulated_behaviours": len(sim),
            "narrow_reading_model_counterexample": "TimedByRecoveryRole violated on the model (expected, lead L2)" if r_n is not None
                                                   else "not run in the quick tier",
            "info_L2_timed_confirm_public": l2_info,
            "info_proposal_delay_never_applied": "timed_recovery_delay_in_minutes of a confirmed proposal is compared but never written: the "
                                                 "controller keeps its creation-time delay (modelled as DelayConstant; observed equal on the ledger)",
            "ledger_results": results,
            "rule": "S: exhaustive TLC over 4 badges, %s, 2 proposals, creation delay none / 2 min, half-minute clock. G: (i) state "
                    "cover - every reachable abstract state (time abstracted to the distance to the timer and the half-minute phase) "
                    "reached by a shortest call sequence, then a fan of single calls from it: every method x proposal argument x "
                    "{each single badge of a role that may call it, all badges that do not help, nobody for public methods}, and every confirming / "
                    "stopping method with the proposals that differ from the pending one in exactly one component (each rule -> another badge / "
                    "DenyAll, delay + 1 / none) by every authorized caller (%s); (ii) "
                    "seeded random behaviours of 20 calls; every step executed as a real transaction on a LedgerSimulator with proofs of "
                    "exactly the caller's badges, comparing result class, decoded controller state, the three role rules and the vault "
                    "balance; distinct = distinct call sequences" % ("callers with <= 2 badges" if q else "all 16 callers",
                                                                     "the %d states of a greedy cover of all %d (state class x method x result x caller size / proposal match) "
                                                                     "combinations + 15 seeded states" % (len(sel) - 15, n_keys) if q else "all states")}


# ---------------------------------------------------------------------------------------------
# C44 consensus clock and rounds
BASE_MIN_POS = 28000000   # whole minutes added to every time of the run far from zero (year 2023)


def c44_keys(b):
    s = b["path"][-1]["st"] if b["path"] else b["init"]
    ks = {("S", sgn(s["ms"]), s["ms"] % 60000 == 0, s["ms"] % 1000 == 0, sgn(s["minute"]), min(s["epoch"], 2), min(s["round"], 5),
           b["gets"]["Minute"] == b["gets"]["Second"])}
    for f in b["fan"]:
        r, t = f["r"], f["t"]
        d = t - s["effStart"]
        dc = "<T" if d < 60000 else "=T" if d == 60000 else "<1.1T" if d < 66000 else "=1.1T" if d == 66000 else ">1.1T"
        rr = sgn(r - s["round"]) * min(abs(r - s["round"]), 2)
        ra = min(max(r, 1), 5)
        common = (f["res"], f["change"], f["change"] and f["st"]["effStart"] == t)
        ks.add(("R",) + common + (rr, ra, dc))
        ks.add(("T",) + common + (sgn(t - s["ms"]), sgn(t // 60000 - s["minute"]), sgn(t), t % 60000 == 0, t % 1000 == 0, dc))
        ks.add(("E",) + common + (min(s["epoch"], 2), ra, dc, sgn(t - s["ms"])))
    return ks


def C44(ctx):
    q = ctx.quick
    core.build_harness(BIN)
    # S and G in the same TLC runs: the cover configurations also carry the invariants and action properties
    with ThreadPoolExecutor(max_workers=3) as ex:
        f_cp = ex.submit(tlc, "Consensus", "MCGenConsensus", cfg="CoverPos", workers=3, coverage=False, timeout=1800, consts={"BaseMin": BASE_MIN_POS},
                         out_file=ctx.wpath("cp.out"))
        f_cn = ex.submit(tlc, "Consensus", "MCGenConsensus", cfg="CoverNeg", workers=3, coverage=False, timeout=1800,
                         out_file=ctx.wpath("cn.out"))
        f_si = ex.submit(tlc, "Consensus", "MCGenConsensus", cfg="Sim", workers=1, coverage=False, timeout=1800, consts={"BaseMin": BASE_MIN_POS},
                         simulate=150 if q else 3000, depth=16, seed=ctx.seed, out_file=ctx.wpath("si.out"))
        r_cp, r_cn, r_si = f_cp.result(), f_cn.result(), f_si.result()
    for f in ("cp.out", "cn.out", "si.out"):
        if os.path.exists(ctx.wpath(f)):
            os.unlink(ctx.wpath(f))
    tlc_must_pass(r_cp, "Consensus far from zero (TimeNeverDecreases, MinuteIsRoundedClock, RoundsAdvanceWithinEpoch, EpochStepsByOne, "
                        "RefusedChangesNothing, CompareAgreesWithClock)")
    tlc_must_pass(r_cn, "Consensus across time zero (the same properties)")
    ctx.add_tlc(r_cp)
    ctx.add_tlc(r_cn)
    if not (r_cp.ok and r_cn.ok and r_si.ok):
        raise ToolError("behaviour generation for Consensus failed")
    pos, neg, sim = r_cp.printed("B"), r_cn.printed("B"), r_si.printed("B")
    r_cp.out = r_cn.out = r_si.out = ""
    if len(pos) < 200 or len(neg) < 400 or len(sim) < 100:
        raise ToolError("too few behaviours: %d / %d cover states, %d simulated" % (len(pos), len(neg), len(sim)))
    fans = [f for b in pos + neg for f in b["fan"]]
    kinds = collections.Counter((f["res"], f["change"]) for f in fans)
    for k in (("ok", True), ("ok", False), ("InvalidRoundUpdate", False), ("InvalidProposerTimestampUpdate", False)):
        if kinds[k] == 0:
            raise ToolError("vacuous cover: no call with outcome %s" % (k,))
    if not any(f["change"] and f["st"]["effStart"] == f["t"] for f in fans) or \
            not any(f["change"] and f["st"]["effStart"] != f["t"] for f in fans):
        raise ToolError("vacuous cover: both ways of setting the effective epoch start must occur")
    if not any(b["gets"]["Minute"] < 0 for b in neg) or not any(any(qq["exp"] for qq in b["queries"]) for b in pos):
        raise ToolError("vacuous cover: negative clock / true comparison missing")
    # the instants at the edges of the i64 range / of the code's conversions are asked in EVERY state (never sampled)
    for b in pos + neg + sim:
        if len(b.get("farq", [])) != 180 or len({json.dumps(qq["big"]) for qq in b["farq"]}) != 18:
            raise ToolError("far-instant clock queries incomplete: %d" % len(b.get("farq", [])))
    n_keys = n_cov = 0
    if q:
        # kept in full: (result x epoch change x way of setting the effective start) x (round below / equal / next / beyond
        # the current one, round at min / max rounds +- 1) x (epoch duration <, =, just above target, = and > 1.1 target) x
        # (timestamp <, =, > current; minute before / same / next; sign of the time; on a minute / second boundary) and
        # the clock-state classes; only the seeded bulk on top is a sample
        sel = []
        for beh in (pos, neg):
            idx, nk = greedy_cover(beh, c44_keys)
            n_keys += nk
            n_cov += len(idx)
            chosen = set(idx)
            rest = [i for i in range(len(beh)) if i not in chosen]
            ctx.rng.shuffle(rest)
            sel.append([beh[i] for i in idx + rest[:8]])
        pos, neg = sel
    ctx.sample({"cover_state": {"init": neg[0]["init"], "path": neg[0]["path"], "gets": neg[0]["gets"], "one_query": neg[0]["queries"][0],
                                "fan_calls": len(neg[0]["fan"]), "one_fan_call": neg[0]["fan"][0]}})
    ctx.sample({"simulated_behaviour_calls": [[s["r"], s["t"], s["res"], s["change"]] for s in sim[0]["path"]]})
    results = {}
    for name, beh, base in (("cover far from zero", pos, BASE_MIN_POS), ("cover across zero", neg, 0), ("simulated", sim, BASE_MIN_POS)):
        _, _, extra = replay(ctx, "consensus", beh, name + " behaviour", "consensus", ["base_min=%d" % base])
        for k, v in (extra[0]["results"] if extra else {}).items():
            results[k] = results.get(k, 0) + v

    bad = json.loads(json.dumps(sim[:3]))
    i = next(i for i, s in enumerate(bad[0]["path"]) if s["res"] == "ok")
    bad[0]["path"][i]["st"]["minute"] += 1
    bad[1]["queries"][0]["exp"] = not bad[1]["queries"][0]["exp"]
    bad[1]["farq"][-1]["exp"] = not bad[1]["farq"][-1]["exp"]
    j = next(j for j, s in enumerate(bad[2]["path"]) if s["res"] != "ok")
    bad[2]["path"][j]["res"] = "ok"
    _, sm, _ = replay(ctx, "consensus", bad, "", "", ["base_min=%d" % BASE_MIN_POS], count=False)
    if len({o["b"] for o in sm}) != 3:
        raise ToolError("binding self-test of consensus: %d of 3 corrupted behaviours reported" % len({o["b"] for o in sm}))
    want = {501, 501 + len(bad[1]["queries"]) + len(bad[1]["farq"]) - 1}
    if not want <= {o["step"] for o in sm if o["b"] == 1 and o["mismatch"] == "compare_current_time"}:
        raise ToolError("binding self-test of consensus: the corrupted near and far clock comparisons were not both reported")
    allb = pos + neg + sim
    distinct = len({json.dumps([b["init"], [(s["r"], s["t"]) for s in b["path"]]], sort_keys=True) for b in allb})
    return {"exhaustive": not q, "distinct_nontrivial": distinct, "cover_states_replayed": len(pos) + len(neg),
            "fan_calls_replayed": sum(len(b["fan"]) for b in pos + neg), "clock_queries": sum(len(b["queries"]) + len(b["farq"]) + 2 for b in allb),
            "simulated_behaviours": len(sim), "ledger_results": results,
            "rule": "S: exhaustive TLC of next_round over rounds 0..5 x 11 / 13 timestamps around two minute boundaries (sub-second and "
                    "sub-minute offsets), once far from zero and once across zero (negative times, truncation toward zero), epoch change "
                    "condition min 2 / max 4 rounds / target 60 s, up to 3 epochs. G: every reachable state reached by a shortest call "
                    "sequence, from it every (round, timestamp) call valid or not (%s), and in it get_current_time + compare_current_time "
                    "for instants minute +- {0, 1 s, 59 s, 60 s} and second +- 1 and, decided on unbounded integers, for the 18 instants at "
                    "the edges of the i64 range and of the conversions (i64 MIN / MIN+1 / MAX-1 / MAX, +-(i64 MAX / 1000) and one beyond, "
                    "-2^31*60 - {61, 60, 59, 1, 0}, 0, 2^31*60 + {-1, 0, 1, 60}), five operators, two precisions; plus seeded random "
                    "sequences of 15 calls over 10 minutes. Calls are real next-round system transactions on a LedgerSimulator whose "
                    "genesis has that epoch change condition and initial time; compared: result class, epoch / round / milli / minute "
                    "clock / effective epoch start substates, EpochChangeEvent; distinct = distinct call sequences"
                    % ("the %d states of a greedy cover of all %d (result x round class x duration class x timestamp class) combinations "
                       "+ 16 seeded states" % (n_cov, n_keys) if q else "all states")}


PROPS = {
    "C40": dict(fn=C40, level="model_checking", design_ref="5/C40, 6/L2",
                technique="TLA+ spec AccessController (total Step function of every method incl. refusals, badge layer): exhaustive TLC "
                          "for the action properties; state cover with call fans and seeded random behaviours replayed on a real ledger",
                text="TLC checks on every transition of the model that rules are replaced / the asset leaves only through a pending "
                     "proposal confirmed by another role that may confirm it or through the elapsed timer of a timed recovery, that "
                     "proposals and attempts are created only by their own role, that exactly the pending proposal is applied, that the "
                     "timer is what initiation set and is respected, that no proof is created while locked, that every confirmation "
                     "resets the five state components and that refused calls change nothing. Generated behaviours are replayed on a "
                     "LedgerSimulator: a controller with badge `require` rules, each call a transaction with proofs of exactly the "
                     "caller's badges, time advanced by next-round system transactions; after every call the result class, the decoded "
                     "state substate, the role-assignment rules and the vault balance must equal the model's.",
                note="The model follows the code: timed_confirm_recovery is public (lead L2) - the property as a whole needs only the "
                     "elapsed timer there and holds; the narrow reading 'confirmed by the recovery role' fails on the model and the "
                     "role-less confirmation is reproduced on the real ledger; it is recorded as information in the evidence, not as a "
                     "violation (a caller holding no role is outside the statement's quantifier). Also observed and modelled: the delay of a "
                     "confirmed proposal is never applied (the controller keeps its creation-time delay). Recovery-fee methods and "
                     "the v1 state layout are not covered. quick replays a sample of the cover."),
    "C44": dict(fn=C44, level="model_checking", design_ref="5/C44, 6/L10",
                technique="TLA+ spec Consensus (total Step function of next_round incl. refusals, epoch change condition, clock "
                          "queries): exhaustive TLC for the action properties; state cover with call fans, clock queries and seeded "
                          "random behaviours replayed through real next-round system transactions",
                text="TLC checks on every transition that the milli and minute clocks never decrease, that the minute clock is the "
                     "milli clock divided by 60 000 truncating toward zero, that a committed round change within an epoch strictly "
                     "increases the round, that the epoch changes by exactly one and resets the round, that refused updates change "
                     "nothing, and that compare_current_time equals comparing the readable clock with the instant rounded to the "
                     "precision. The generated behaviours are replayed on a LedgerSimulator: after every next_round transaction the "
                     "result class, the consensus manager state (epoch, round, effective epoch start), both timestamp substates and the "
                     "EpochChangeEvent must equal the model's; in every covered state a user transaction asks get_current_time and "
                     "compare_current_time (public methods of the consensus manager) and the answers must equal the model's.",
                note="Lead L10 confirmed harmless: with a genesis time of -121 s the minute and second clocks truncate toward zero, "
                     "stay monotone and agree with compare_current_time. The model follows the code in how the effective epoch start "
                     "is set (start + target when the actual duration is at most 10 % above - or anything below - the target). "
                     "Validator set / rewards effects of an epoch change and leader statistics are not covered. InvalidConsensusTime "
                     "(minute beyond i32) is out of the explored range."),
}

"""Extension X02 / X03 (DESIGN 7, hooks H2 / H3): the REAL engine's executions as validated traces of
spec/Track (C12) and spec/SubstateLocks (C13).  Harness binary: vh_enginetrace (needs the cfg-guarded
sink radix_engine::track::verif_sink in /repo)."""
import json, os, collections
import core
from core import tlc, tlc_must_pass, vh, ToolError, write_ndjson, validate_trace
from concurrent.futures import ThreadPoolExecutor

BIN = "vh_enginetrace"


def rm(p):
    try:
        os.unlink(p)
    except FileNotFoundError:
        pass


def record(ctx, which, tag, mode, extra):
    """Runs the harness; returns (summary, [transactions]) where a transaction is the list of its events."""
    p = ctx.wpath("%s-%s.ndjson" % (which, tag))
    args = ["engine", mode, "%s=%s" % (which, p)] + extra
    rc, out = vh(BIN, args, timeout=7200)
    summary = json.loads(out.splitlines()[-1])
    txs, cur = [], []
    with open(p) as f:
        for line in f:
            e = json.loads(line)
            cur.append(e)
            if e["a"] == "end":
                txs.append(cur)
                cur = []
    rm(p)
    if cur:
        raise ToolError("recording %s does not end with a transaction end" % p)
    return summary, txs


def validate_txs(ctx, spec_dir, module, txs, nchunks, tag):
    """Transactions are independent traces (each starts from a fresh Track / lock table): spread them over
    parallel TLC processes, balanced by event count.  Returns [(ok, idx, TlcResult, events, tx_starts)]."""
    n = max(1, min(nchunks, len(txs)))
    chunks = [[] for _ in range(n)]
    sizes = [0] * n
    for t in sorted(txs, key=len, reverse=True):
        i = sizes.index(min(sizes))
        chunks[i].append(t)
        sizes[i] += len(t)

    def one(i):
        evs = [e for t in chunks[i] for e in t]
        p = ctx.wpath("%s-%s-chunk%d.ndjson" % (module, tag, i))
        write_ndjson(p, evs)
        ok, idx, r = validate_trace(spec_dir, module, p, heap="3g", timeout=7000)
        rm(p)
        return ok, idx, r, evs

    with ThreadPoolExecutor(max_workers=n) as ex:
        return list(ex.map(one, range(n)))


def report(ctx, res, keyprefix, what, first_marker):
    """Rejections -> violations (the replay is the rejected transaction up to the rejected event)."""
    good = 0
    for ok, idx, r, evs in res:
        ctx.cov["evaluations"] += len(evs)
        if ok:
            good += sum(1 for e in evs if e["a"] == "end")
            continue
        i = (idx or 1) - 1
        if i >= len(evs):
            i = len(evs) - 1
        s0 = max([j for j in range(i + 1) if j == 0 or evs[j - 1]["a"] == "end"])
        ev = evs[i]
        label = next((e.get("label") for e in evs[s0:i + 1] if e.get("label")), "")
        key = "%s:%s" % (keyprefix, r.violated if r.violated else ev.get("a"))
        ctx.violation(key, "%s: %s rejects event %d (%s) of transaction %s: %s"
                      % (what, keyprefix, i - s0 + 1, r.violated or "no action matches", label, json.dumps(ev)[:300]),
                      {"transaction": evs[s0:i + 1], "label": label, "tlc_violated": r.violated})
        good += sum(1 for e in evs[:s0] if e["a"] == "end")
    ctx.cov["traces_validated_against_impl"] += good
    return good


def _workloads(ctx, which):
    q = ctx.quick
    with ThreadPoolExecutor(max_workers=3) as ex:
        # the repository's scenarios.  thorough: the repository's own full run (every protocol update, every scenario at
        # the first version it is valid for).  quick: all scenarios but the 4-minute max_transaction, after all updates,
        # every 4th transaction
        fs = ex.submit(record, ctx, which, "scen", "scenarios", ["skip=max_transaction"] if q else [])
        fl = [ex.submit(record, ctx, which, "led%d" % i, "ledger", ["seed=%d" % (ctx.seed + 7919 * i), "len=%d" % (40 if q else 400), "burst=%d" % (0 if q else 1)])
              for i in range(1 if q else 2)]
        s_sum, s_txs = fs.result()
        l_res = [f.result() for f in fl]
    l_txs = [t for _, txs in l_res for t in txs]
    ops = collections.Counter(s_sum["ops"])
    outcomes = collections.Counter(s_sum["outcomes"])
    for sm, _ in l_res:
        ops.update(sm["ops"])
        outcomes.update(sm["outcomes"])
    return s_txs, l_txs, ops, outcomes


# ---------------------------------------------------------------------------------------------
def X02(ctx):
    q = ctx.quick
    core.build_harness(BIN)
    with ThreadPoolExecutor(max_workers=2) as ex:
        fm = ex.submit(tlc, "Track", "MCTrack", workers=4, consts={"MaxOps": 2 if q else 3}, timeout=3000)   # C12 itself runs it deeper
        fw = ex.submit(_workloads, ctx, "track")
        r = fm.result()
        s_txs, l_txs, ops, outcomes = fw.result()
    tlc_must_pass(r, "MCTrack")
    ctx.add_tlc(r)
    txs = s_txs + l_txs
    if len(txs) < 20:
        raise ToolError("only %d transactions recorded" % len(txs))
    # non-vacuity: every kind of operation the engine issues was seen
    need = ["create_node", "get", "set", "remove", "scan_keys", "drain", "scan_sorted", "force_write", "revert", "state_updates", "transient"]
    need.append("delete_partition")       # the boundary block of the ledger workload jumps 100 epochs in every tier
    for op in need:
        if ops.get(op, 0) == 0:
            raise ToolError("vacuous recording: no %s event" % op)
    res = validate_txs(ctx, "Track", "TraceTrackEngine", txs, 6 if q else 12, "x02")
    good = report(ctx, res, "TraceTrackEngine", "Track on real executions", "init")
    # binding self-test: (1) a read that returns another value than the one the transaction wrote,
    # (2) a state update that drops one written substate
    picked = None
    for t in txs:
        known = {}
        for i, e in enumerate(t):
            if e["a"] == "set":
                known[e["loc"]] = (i, e["v"])
            elif e["a"] in ("remove", "drain", "revert", "create", "delpart"):
                known.clear()
            elif e["a"] == "get" and e["loc"] in known and e["ret"] == known[e["loc"]][1]:
                picked = (t, i)
                break
        if picked:
            break
    if not picked:
        raise ToolError("self-test: no read-after-write found in the recording")
    t, i = picked
    bad = json.loads(json.dumps(t[:i + 1]))
    bad[i]["ret"] = bad[i]["ret"] + 1000
    upd_tx = next(t for t in txs if any(e["a"] == "updates" and len(e["upd"]) > 1 for e in t))
    j = next(k for k, e in enumerate(upd_tx) if e["a"] == "updates")
    bad2 = json.loads(json.dumps(upd_tx[:j + 1]))
    bad2[j]["upd"] = bad2[j]["upd"][1:]

    def selftest(args):
        name, tr = args
        p = ctx.wpath("x02-selftest-%s.ndjson" % name)
        write_ndjson(p, tr)
        ok, idx, rr = validate_trace("Track", "TraceTrackEngine", p)
        rm(p)
        if ok or idx != len(tr):
            raise ToolError("binding self-test failed: TraceTrackEngine accepted %s (or rejected elsewhere: %s)" % (name, idx))
        return name
    with ThreadPoolExecutor(max_workers=2) as ex:
        selftests = list(ex.map(selftest, [("stale-read", bad), ("dropped-update", bad2)]))
    ctx.sample({"transaction": next((e["label"] for e in txs[0] if e.get("label")), ""), "first_events": txs[0][1:8]})
    rv = next((t for t in txs if any(e["a"] == "revert" for e in t)), None)
    if rv:
        k = next(i for i, e in enumerate(rv) if e["a"] == "revert")
        ctx.sample({"failed_transaction": next((e["label"] for e in rv if e.get("label")), ""), "events_around_revert": rv[max(0, k - 3):k + 6]})
    nev = sum(len(t) for t in txs)
    return {"distinct_nontrivial": len({json.dumps(t[1:], sort_keys=True) for t in txs}), "exhaustive": False,
            "transactions_scenarios": len(s_txs), "transactions_ledger_histories": len(l_txs), "transactions_accepted": good,
            "events": nev, "operations": dict(ops), "outcomes": dict(outcomes), "binding_selftests": selftests,
            "rule": "S: MCTrack (the C12 model) exhaustive on its small instance. T: hook H2 records every CommitableSubstateStore call "
                    "of the real Track (operation, substate, hash of every value read / written / returned, final state updates) while "
                    "%s of the repository's transaction scenarios (all protocol versions) and %d seeded LedgerSimulator transactions "
                    "(a fixed boundary block: id listings with limit 0 / 1 / count-1 / count / count+1 over an untouched vault, after "
                    "moving ids out and in, after a removal, after a mint, on a vault created in the same transaction; withdrawals by "
                    "amount of 1 / count-1 / count / count+1; failure after an account fee lock; a 100-epoch jump (partition deletion); "
                    "then seeded transfers incl. failing ones, non-fungible mints / withdrawals, pools, staking, round and epoch "
                    "changes) execute; each transaction is one trace validated by TraceTrackEngine.tla: reads return the "
                    "abstract view (database values are learned at the first read), scans return present entries only, complete "
                    "when short of the limit, sorted scans in key order, reverts keep exactly the force-written substates, the final "
                    "state updates are exactly the overlaid differences. distinct = distinct transaction event streams"
                    % ("every transaction (quick: without max_transaction, after all protocol updates)" if q else "every transaction", len(l_txs))}


def X03(ctx):
    q = ctx.quick
    core.build_harness(BIN)
    with ThreadPoolExecutor(max_workers=2) as ex:
        fm = ex.submit(tlc, "SubstateLocks", "MCSubstateLocks", workers=4, timeout=3000)
        fw = ex.submit(_workloads, ctx, "locks")
        r = fm.result()
        s_txs, l_txs, ops, outcomes = fw.result()
    tlc_must_pass(r, "MCSubstateLocks")
    ctx.add_tlc(r)
    txs = s_txs + l_txs
    if len(txs) < 20:
        raise ToolError("only %d transactions recorded" % len(txs))
    for op in ("lock", "unlock", "locks_new"):
        if ops.get(op, 0) == 0:
            raise ToolError("vacuous recording: no %s event" % op)
    refused = sum(1 for t in txs for e in t if e["a"] == "lock" and e["ret"] < 0)
    res = validate_txs(ctx, "SubstateLocks", "TraceLocksEngine", txs, 4 if q else 10, "x03")
    good = report(ctx, res, "TraceLocksEngine", "SubstateLocks on real executions", "new")
    # binding self-test: a write lock granted while a read lock is open / a handle left open after a successful transaction
    t = next(t for t in txs if sum(1 for e in t if e["a"] == "lock") > 4 and t[-1]["outcome"] == "success")
    i = next(k for k, e in enumerate(t) if e["a"] == "lock" and e["ret"] >= 0)
    bad = json.loads(json.dumps(t[:i + 1]))
    nxt = bad[i]["ret"] + 1
    bad.append({"a": "lock", "n": bad[i]["n"], "k": bad[i]["k"], "ro": False, "ret": nxt})   # must have been refused
    j = next(k for k in range(len(t) - 1, -1, -1) if t[k]["a"] == "unlock")
    bad2 = json.loads(json.dumps(t[:j] + t[j + 1:]))                                           # one unlock missing

    def selftest(args):
        name, tr, at = args
        p = ctx.wpath("x03-selftest-%s.ndjson" % name)
        write_ndjson(p, tr)
        ok, idx, rr = validate_trace("SubstateLocks", "TraceLocksEngine", p)
        rm(p)
        if ok or idx != at:
            raise ToolError("binding self-test failed: TraceLocksEngine accepted %s (or rejected elsewhere: %s)" % (name, idx))
        return name
    with ThreadPoolExecutor(max_workers=2) as ex:
        selftests = list(ex.map(selftest, [("write-lock-over-open-handle", bad, len(bad)), ("handle-left-open", bad2, len(bad2))]))
    ctx.sample({"transaction_lock_stream": txs[0][:10]})
    big = max(txs, key=len)
    ctx.sample({"longest_transaction_events": len(big), "max_open_handles": _max_open(big)})
    nev = sum(len(t) for t in txs)
    return {"distinct_nontrivial": len({json.dumps(t, sort_keys=True) for t in txs}), "exhaustive": False,
            "transactions_scenarios": len(s_txs), "transactions_ledger_histories": len(l_txs), "transactions_accepted": good,
            "events": nev, "locks_refused": refused, "operations": {k: v for k, v in ops.items() if k in ("lock", "unlock", "locks_new")},
            "outcomes": dict(outcomes), "binding_selftests": selftests,
            "rule": "S: MCSubstateLocks (the C13 model) exhaustive. T: hook H3 records every lock / unlock of the kernel's substate lock "
                    "table (substate, read_only, granted handle or refusal) while %s of the repository's transaction scenarios (all "
                    "protocol versions) and %d seeded LedgerSimulator transactions execute; each transaction is one trace validated by "
                    "TraceLocksEngine.tla: every result is the one SubstateLocks.tla determines (next handle number or refusal), "
                    "WriterExclusive and HandlesFresh in every state, no handle open after a successful transaction. "
                    "distinct = distinct transaction lock streams" % ("every transaction (quick: without max_transaction, after all protocol updates)" if q else "every transaction", len(l_txs))}


def _max_open(t):
    o, m = 0, 0
    for e in t:
        if e["a"] == "lock" and e["ret"] >= 0:
            o += 1
            m = max(m, o)
        elif e["a"] == "unlock":
            o -= 1
        elif e["a"] == "new":
            o = 0
    return m


PROPS = {
    "X02": dict(fn=X02, level="model_checking", design_ref="7/H2, 5/C12",
                technique="TLA+ spec Track: trace validation (TraceTrackEngine) of the real engine's Track call stream recorded through hook H2 "
                          "during the repository's transaction scenarios and seeded ledger histories",
                text="Extension of C12 to real executions: a cfg-guarded thread-local sink in radix-engine/src/track/track.rs records every "
                     "CommitableSubstateStore call with its result; every executed transaction becomes a trace that TraceTrackEngine.tla "
                     "accepts only if every read returns Track.tla's abstract view (base database learned lazily, then fixed), scans "
                     "return present entries (all of them when short of the limit, in key order for sorted scans), a revert keeps "
                     "exactly the force-written substates and the final state updates are exactly the overlaid differences.",
                note="Trusted: TLC, hook H2 (add-only, cfg radixdlt_radixdlt_scrypto_verif), the harness projection (ranks by database sort "
                     "key, value ids by blake2b hash, limits capped at 10^6). The database content is not read independently: what the first "
                     "read of a location returns defines it (Track.tla leaves db arbitrary), so a wrong FIRST read is invisible here "
                     "(C12's unit-level replay covers it). Operations that fail inside the costing callback leave no event."),
    "X03": dict(fn=X03, level="model_checking", design_ref="7/H3, 5/C13",
                technique="TLA+ spec SubstateLocks: trace validation (TraceLocksEngine) of the real kernel's lock/unlock stream recorded through "
                          "hook H3 during the repository's transaction scenarios and seeded ledger histories",
                text="Extension of C13 to real executions: the kernel's lock table reports every lock (granted handle or refusal) and unlock "
                     "through the cfg-guarded sink; every executed transaction is a trace of SubstateLocks.tla with exactly the recorded "
                     "results, with WriterExclusive and HandlesFresh evaluated in every state and no open handle after success.",
                note="Trusted: TLC, hook H3, the harness projection (substate ranks). Failed transactions may end with open handles "
                     "(the kernel is dropped); only successful ones are required to close all."),
}

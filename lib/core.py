"""Shared machinery of the /verif driver: harness build, TLC runs, trace validation,
behaviour extraction, evidence and violation reporting.

Exit code contract (see DESIGN.md section 3): 0 = property held on everything explored,
1 = violation (always with a VIOLATION line and a replay file), 2 = tool error / timeout.
"""
import fcntl, json, os, re, shutil, subprocess, sys, time, hashlib, random

ROOT = os.path.dirname(os.path.dirname(os.path.abspath(__file__)))
REPO = "/repo"
SPEC = os.path.join(ROOT, "spec")
WORK = os.path.join(ROOT, "work")
REPLAY = os.path.join(ROOT, "replay")
EVID = os.path.join(ROOT, "evidence")
HARNESS = os.path.join(ROOT, "harness")
TARGET_DIR = os.environ.get("VERIF_TARGET_DIR") or os.path.join(HARNESS, "target")
BIN_DIR = os.path.join(TARGET_DIR, "debug")
TLA_JAR = "/opt/veriftools/tla/tla2tools.jar"
COMMUNITY = "/opt/veriftools/tla/CommunityModules-deps.jar"


class ToolError(Exception):
    pass


def log(*a):
    print("[check]", *a, file=sys.stderr, flush=True)


# --------------------------------------------------------------------------------------------
# harness build

_built = set()


def build_harness(binary):
    """cargo build of one harness binary against /repo's current working tree (path deps)."""
    if binary in _built or os.environ.get("VERIF_NO_BUILD"):
        return 0.0
    os.makedirs(WORK, exist_ok=True)
    lock = open(os.path.join(WORK, ".build-%s.lock" % hashlib.sha1(TARGET_DIR.encode()).hexdigest()[:8]), "w")
    fcntl.flock(lock, fcntl.LOCK_EX)
    try:
        hl = os.path.join(HARNESS, "Cargo.lock")
        rl = os.path.join(REPO, "Cargo.lock")
        ht = os.path.join(HARNESS, "Cargo.toml")
        if (not os.path.exists(hl)) or os.path.getmtime(ht) > os.path.getmtime(hl) \
                or os.path.getmtime(rl) > os.path.getmtime(hl):
            shutil.copy(rl, hl)
        t0 = time.time()
        env = dict(os.environ, CARGO_NET_OFFLINE="true", CARGO_TARGET_DIR=TARGET_DIR)
        p = subprocess.run(["cargo", "build", "--offline", "--quiet", "--bin", binary], cwd=HARNESS, env=env,
                           stdout=subprocess.PIPE, stderr=subprocess.STDOUT, text=True)
        if p.returncode != 0:
            sys.stderr.write(p.stdout[-6000:])
            raise ToolError("harness build failed (the tree under /repo does not compile with the harness)")
        _built.add(binary)
        dt = time.time() - t0
        log("harness %s built in %.1fs" % (binary, dt))
        return dt
    finally:
        fcntl.flock(lock, fcntl.LOCK_UN)
        lock.close()


def vh(binary, args, stdin_path=None, stdout_path=None, timeout=3600, env=None, check=True):
    """Build (once per process) and run a harness binary. Returns (rc, stdout_text)."""
    build_harness(binary)
    VH = os.path.join(BIN_DIR, binary)
    e = dict(os.environ)
    e.setdefault("RUST_BACKTRACE", "0")
    if env:
        e.update(env)
    t_vh = time.time()
    sin = open(stdin_path, "rb") if stdin_path else subprocess.DEVNULL
    sout = open(stdout_path, "wb") if stdout_path else subprocess.PIPE
    try:
        p = subprocess.run([VH] + [str(a) for a in args], stdin=sin, stdout=sout,
                           stderr=subprocess.PIPE, timeout=timeout, env=e)
    except subprocess.TimeoutExpired:
        raise ToolError("harness timeout: vh " + " ".join(map(str, args)))
    finally:
        if stdin_path:
            sin.close()
        if stdout_path:
            sout.close()
    out = "" if stdout_path else p.stdout.decode("utf-8", "replace")
    log("%s %s: %.1fs" % (binary, " ".join(map(str, args[:2])), time.time() - t_vh))
    if check and p.returncode != 0:
        sys.stderr.write(p.stderr.decode("utf-8", "replace")[-4000:])
        raise ToolError("harness failed rc=%d: vh %s" % (p.returncode, " ".join(map(str, args))))
    return p.returncode, out


# --------------------------------------------------------------------------------------------
# TLC

class TlcResult:
    def __init__(self, rc, out):
        self.rc = rc
        self.out = out
        m = re.search(r"(\d+) states generated, (\d+) distinct states found, (\d+) states left", out)
        self.generated = int(m.group(1)) if m else 0
        self.distinct = int(m.group(2)) if m else 0
        m = re.search(r"The depth of the complete state graph search is (\d+)", out)
        self.depth = int(m.group(1)) if m else 0
        self.violated = None
        m = re.search(r"Invariant (\S+) is violated", out)
        if m:
            self.violated = m.group(1)
        m = re.search(r"Action property (\S+) is violated", out)
        if m:
            self.violated = m.group(1)
        m = re.search(r"Temporal properties were violated", out)
        if m and not self.violated:
            self.violated = "temporal"
        if "Assumption" in out and "is false" in out:
            self.violated = self.violated or "assumption"
        self.ok = (rc == 0 and "Model checking completed. No error has been found" in out) or \
                  (rc == 0 and "Finished in" in out and "Error:" not in out)
        # coverage: <Action line a, col b to line c, col d of module M>: distinct:generated
        self.actions = {}
        for m in re.finditer(r"^<(\w+) line \d+, col \d+ to line \d+, col \d+ of module (\w+)(?: \([\d ]+\))?>: (\d+):(\d+)",
                             out, re.M):
            name = m.group(1)
            d, g = int(m.group(3)), int(m.group(4))
            pd, pg = self.actions.get(name, (0, 0))
            self.actions[name] = (pd + d, pg + g)

    def printed(self, tag):
        """Values printed by PrintT(<<tag, "json string">>) -> list of parsed JSON."""
        res = []
        pre = '<<"%s", "' % tag
        for line in self.out.splitlines():
            if line.startswith(pre) and line.endswith('">>'):
                s = line[len(pre) - 1:-2]
                try:
                    res.append(json.loads(json.loads(s)))
                except Exception:
                    # TLA+ string printing escapes like JSON for \" and \\ only
                    s2 = s[1:-1].replace('\\"', '"').replace("\\\\", "\\")
                    res.append(json.loads(s2))
        return res

    def printed_raw(self, tag):
        res = []
        pre = '<<"%s", ' % tag
        for line in self.out.splitlines():
            if line.startswith(pre) and line.endswith('>>'):
                res.append(line[len(pre):-2])
        return res


_tlc_counter = [0]


def tlc(spec_dir, module, cfg=None, workers=8, simulate=None, depth=None, seed=None,
        env=None, timeout=1800, heap="4g", coverage=True, deadlock=False, extra=None,
        dfs=False, stack="64m", out_file=None, consts=None, libs=()):
    """Run TLC on spec/<spec_dir>/<module>.tla. Returns TlcResult. Raises ToolError on timeout/crash."""
    d = os.path.join(SPEC, spec_dir)
    _tlc_counter[0] += 1
    meta = os.path.join(WORK, "tlc-%s-%d-%d" % (module, os.getpid(), _tlc_counter[0]))
    os.makedirs(meta, exist_ok=True)
    libpath = os.pathsep.join([os.path.join(SPEC, "common")] + [os.path.join(SPEC, x) for x in libs])
    # java.io.tmpdir: TLC creates a scratch directory per run; keep it inside the (removed) metadir, not in /tmp
    jopts = "-Xss%s -Xmx%s -XX:+UseParallelGC -DTLA-Library=%s -Djava.io.tmpdir=%s" % (stack, heap, libpath, meta)
    if dfs:
        jopts += " -Dtlc2.tool.queue.IStateQueue=StateDeque"
    cp = ":".join([TLA_JAR, COMMUNITY, os.path.join(SPEC, "common")])
    cmd = ["java"] + jopts.split() + ["-cp", cp, "tlc2.TLC",
           "-workers", str(workers), "-metadir", meta, "-cleanup", "-noGenerateSpecTE"]
    if coverage and not simulate:
        cmd += ["-coverage", "1"]
    if not deadlock:
        cmd += ["-deadlock"]  # -deadlock disables deadlock checking
    if simulate:
        cmd += ["-simulate", "num=%d" % simulate]
        if depth:
            cmd += ["-depth", str(depth)]
    if seed is not None:
        cmd += ["-seed", str(seed)]
    if extra:
        cmd += extra
    cfg_path = (cfg or module) + ".cfg"
    if consts:
        # override constants of the base cfg (lines of the form `  NAME = value`)
        txt = open(os.path.join(d, cfg_path)).read()
        for k, v in consts.items():
            txt, n = re.subn(r"(?m)^(\s*)%s\s*=.*$" % re.escape(k), r"\g<1>%s = %s" % (k, v), txt)
            if n != 1:
                raise ToolError("constant %s not found in %s" % (k, cfg_path))
        cfg_path = os.path.join(meta, "override.cfg")
        with open(cfg_path, "w") as f:
            f.write(txt)
    cmd += ["-config", cfg_path, module + ".tla"]
    e = dict(os.environ)
    e.pop("JAVA_TOOL_OPTIONS", None)
    if env:
        e.update({k: str(v) for k, v in env.items()})
    t0 = time.time()
    try:
        if out_file:
            with open(out_file, "w") as f:
                p = subprocess.run(cmd, cwd=d, env=e, stdout=f, stderr=subprocess.STDOUT,
                                   timeout=timeout)
            out = open(out_file).read()
        else:
            p = subprocess.run(cmd, cwd=d, env=e, stdout=subprocess.PIPE, stderr=subprocess.STDOUT,
                               timeout=timeout, text=True)
            out = p.stdout
    except subprocess.TimeoutExpired:
        shutil.rmtree(meta, ignore_errors=True)
        raise ToolError("TLC timeout on %s/%s" % (spec_dir, module))
    shutil.rmtree(meta, ignore_errors=True)
    r = TlcResult(p.returncode, out)
    r.wall = time.time() - t0
    log("tlc %s/%s %s: %.1fs, %d distinct states" % (spec_dir, module, cfg or "", r.wall, r.distinct))
    return r


def tlc_must_pass(r, what, required_actions=()):
    """S-step: the model itself must satisfy its properties and must not be vacuous."""
    if not r.ok:
        sys.stderr.write(r.out[-5000:])
        raise ToolError("TLC run failed for %s (violated=%s rc=%d)" % (what, r.violated, r.rc))
    for a in required_actions:
        if a not in r.actions or r.actions[a][1] == 0:
            sys.stderr.write(r.out[-3000:])
            raise ToolError("vacuous model %s: action %s never taken" % (what, a))


# --------------------------------------------------------------------------------------------
# trace validation (impl -> spec)

def write_ndjson(path, events):
    with open(path, "w") as f:
        for e in events:
            f.write(json.dumps(e, separators=(",", ":")) + "\n")


def read_ndjson(path):
    res = []
    with open(path) as f:
        for line in f:
            line = line.strip()
            if line:
                res.append(json.loads(line))
    return res


def validate_trace(spec_dir, module, trace_path, cfg=None, timeout=1800, heap="2g", dfs=False, env=None, libs=()):
    """Stateful trace validation. The trace module must define POSTCONDITION that prints
    <<"TRACE-REJECTED", d>> (d = 1-based index of first unmatched event) when not accepted.
    Returns (accepted, first_unmatched_index or None, TlcResult)."""
    e = {"TRACE": trace_path}
    if env:
        e.update(env)
    r = tlc(spec_dir, module, cfg=cfg, workers=1, env=e, timeout=timeout, heap=heap,
            coverage=False, dfs=dfs, stack="1g", libs=libs)
    m = re.search(r'<<"TRACE-REJECTED", (\d+)', r.out)
    if m:
        return False, int(m.group(1)), r
    if r.violated:
        # an invariant of the specification failed inside the trace: also a rejection
        m2 = re.search(r"l = (\d+)", r.out[r.out.rfind("State "):] if "State " in r.out else "")
        return False, (int(m2.group(1)) - 1 if m2 else 0), r
    if not r.ok:
        sys.stderr.write(r.out[-5000:])
        raise ToolError("trace validation run failed for %s" % module)
    return True, None, r


def validate_calls(spec_dir, module, events, name, chunks=12, cfg=None, timeout=1800, heap="2g", env=None):
    """Stateless call-trace validation: every event is checked against the TLA+ post-condition
    independently; the module prints <<"BAD", l>> for each failing event and never blocks.
    Events are split over `chunks` TLC processes. Returns sorted list of failing global indices."""
    from concurrent.futures import ThreadPoolExecutor
    n = len(events)
    if n == 0:
        return []
    chunks = max(1, min(chunks, (n + 49) // 50))
    size = (n + chunks - 1) // chunks
    jobs = []
    for c in range(chunks):
        part = events[c * size:(c + 1) * size]
        if not part:
            continue
        p = os.path.join(WORK, "%s-%d-calls-%d.ndjson" % (name, os.getpid(), c))
        write_ndjson(p, part)
        jobs.append((c * size, p, len(part)))

    def run(job):
        base, p, ln = job
        e = {"TRACE": p}
        if env:
            e.update(env)
        r = tlc(spec_dir, module, cfg=cfg, workers=1, env=e, timeout=timeout, heap=heap,
                coverage=False, stack="1g")
        if not r.ok:
            sys.stderr.write(r.out[-5000:])
            raise ToolError("call-trace validation failed to run for %s" % module)
        m = re.search(r'<<"DONE", (\d+)>>', r.out)
        if not m or int(m.group(1)) != ln:
            sys.stderr.write(r.out[-3000:])
            raise ToolError("call-trace validation of %s consumed %s of %d events" % (module, m and m.group(1), ln))
        bad = [base + int(x) - 1 for x in re.findall(r'<<"BAD", (\d+)>>', r.out)]
        os.unlink(p)
        return bad

    with ThreadPoolExecutor(max_workers=min(len(jobs), 14)) as ex:
        res = list(ex.map(run, jobs))
    return sorted(i for b in res for i in b)


# --------------------------------------------------------------------------------------------
# violations, known findings, evidence

def load_known():
    p = os.path.join(ROOT, "known_findings.json")
    if not os.path.exists(p):
        return []
    return json.load(open(p)).get("findings", [])


class Ctx:
    def __init__(self, pid, tier, seed):
        self.pid = pid
        self.tier = tier
        self.seed = seed
        self.t0 = time.time()
        self.violations = []   # dicts: key, what, replay
        self.known_hits = {}   # key -> what
        self.cov = {"samples": [], "states": 0, "transitions": 0,
                    "traces_validated_against_impl": 0, "evaluations": 0,
                    "distinct_nontrivial": 0}
        self.assumptions = []
        self.rng = random.Random(seed)
        os.makedirs(WORK, exist_ok=True)
        os.makedirs(REPLAY, exist_ok=True)

    @property
    def quick(self):
        return self.tier == "quick"

    def wpath(self, name):
        return os.path.join(WORK, "%s-%d-%s" % (self.pid, os.getpid(), name))

    def add_tlc(self, r):
        self.cov["states"] += r.distinct
        self.cov["transitions"] += r.generated

    def sample(self, s, cap=6):
        if len(self.cov["samples"]) < cap:
            self.cov["samples"].append(s)

    def violation(self, key, what, replay_obj):
        """Record a violation. key identifies the failing input class / call site (for known_findings)."""
        known = [k for k in load_known() if k.get("property") == self.pid and k.get("status") == "known"]
        for k in known:
            if k["key"] == key:
                if key not in self.known_hits:
                    self.known_hits[key] = k.get("what", what)
                return
        # at most 3 replay files per key (a mass mismatch must not flood replay/)
        if sum(1 for v in self.violations if v["key"] == key) >= 3:
            self.violations.append({"key": key, "what": what, "replay": next(v["replay"] for v in self.violations if v["key"] == key)})
            return
        h = hashlib.sha1((key + json.dumps(replay_obj, sort_keys=True, default=str)).encode()).hexdigest()[:10]
        path = os.path.join(REPLAY, "%s-%s.json" % (self.pid, h))
        with open(path, "w") as f:
            json.dump({"property": self.pid, "key": key, "what": what, "seed": self.seed,
                       "tier": self.tier, "replay": replay_obj}, f, indent=1, default=str)
        self.violations.append({"key": key, "what": what, "replay": path})

    def finish(self, level, extra_cov=None):
        cov = dict(self.cov)
        if extra_cov:
            cov.update(extra_cov)
        if not cov["samples"]:
            cov["samples"] = ["(no sample recorded)"]
        ev = {"property_id": self.pid, "tier": self.tier, "seed": self.seed, "level": level,
              "coverage": cov, "assumptions": self.assumptions,
              "wall_s": round(time.time() - self.t0, 2), "violations": len(self.violations)}
        os.makedirs(EVID, exist_ok=True)
        with open(os.path.join(EVID, self.pid + ".json"), "w") as f:
            json.dump(ev, f, indent=1, default=str)
        for key, what in self.known_hits.items():
            print("KNOWN-FINDING: property=%s %s [%s]" % (self.pid, what, key), flush=True)
        seen = set()
        for v in self.violations:
            if v["key"] in seen:
                continue
            seen.add(v["key"])
            log("violation:", v["key"], "-", v["what"])
            print("VIOLATION property=%s replay=%s" % (self.pid, v["replay"]), flush=True)
        return 1 if self.violations else 0

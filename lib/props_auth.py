"""Authorization column at ledger level: Auth (C08), Locking (C51).  Harness binary: vh_auth
(scrypto_test::LedgerSimulator + native test blueprints, harness/src/bin/vh_auth/tb.rs)."""
import json, os, re, collections
from concurrent.futures import ThreadPoolExecutor
import core
from core import tlc, tlc_must_pass, vh, ToolError, write_ndjson, read_ndjson, validate_trace

BIN = "vh_auth"


def actions_of(r):
    """coverage lines of TLC including sub-actions reported with a location suffix (core.TlcResult.actions misses
    `<Name line .. of module M (a b c d)>: x:y`)"""
    acts = dict(r.actions)
    for m in re.finditer(r"^<(\w+) line \d+, col \d+ to line \d+, col \d+ of module \w+(?: \([\d ]+\))?>: (\d+):(\d+)", r.out, re.M):
        d, g = int(m.group(2)), int(m.group(3))
        pd, pg = acts.get(m.group(1), (0, 0))
        acts[m.group(1)] = (max(pd, d), max(pg, g))
    return acts


def replay_cases(ctx, module, cases, vh_args=(), what="case", key=None, count=True, mode="replay", parts=1):
    """spec -> impl: cases carrying the verdict expected by the specification go to `vh_auth <module> replay`
    (optionally split over several processes); every mismatch line is a violation."""
    if not cases:
        raise ToolError("no cases generated for " + module)
    p = ctx.wpath(module + "-cases.ndjson")
    write_ndjson(p, cases)

    def run(i):
        rc, out = vh(BIN, [module, mode] + [a.replace("{part}", str(i)) for a in vh_args] + ["part=%d" % i, "parts=%d" % parts],
                     stdin_path=p, timeout=7200)
        return out
    core.build_harness(BIN)
    with ThreadPoolExecutor(max_workers=parts) as ex:
        outs = list(ex.map(run, range(parts)))
    os.unlink(p)
    mism, extra, steps, done_n = [], [], 0, 0
    for out in outs:
        done = None
        for line in out.splitlines():
            o = json.loads(line)
            if "mismatch" in o:
                mism.append(o)
            elif "done" in o:
                done = o
            else:
                extra.append(o)
        if done is None or done["done"] != len(cases):
            raise ToolError("replay of %s did not complete" % module)
        steps += done["steps"]
        done_n += 1
    if sum(e.get("cases", 0) for e in extra if "part" in e) != len(cases):
        raise ToolError("replay of %s: the parts did not cover all cases" % module)
    if count:
        ctx.cov["traces_validated_against_impl"] += len(cases)
        ctx.cov["evaluations"] += steps
    if key is not None:
        for o in mism:
            k = key(o, cases[o["b"]])
            ctx.violation(k, "%s %d: %s expected %s got %s" % (what, o["b"], o["mismatch"], json.dumps(o["exp"])[:300],
                                                               json.dumps(o["got"])[:300]),
                          {"module": module, "case": cases[o["b"]], "mismatch": o, "vh_args": list(vh_args)})
    return mism, extra


def merged_classes(extra):
    c = collections.Counter()
    for e in extra:
        for k, v in e.get("classes", {}).items():
            c[k[:60]] += v
    return dict(c)


# ---------------------------------------------------------------------------------------------
# C08 authorization
C08_QUICK = {"ThinA10": 8, "ThinA1": 120, "ThinA13": 800, "ThinB1": 20, "ThinB2": 20, "ThinD": 32, "NRand": 200}
C08_THOROUGH = {"ThinA10": 1, "ThinA1": 1, "ThinA13": 12, "ThinB1": 1, "ThinB2": 1, "ThinD": 2, "NRand": 4000}


def c08_key(o, case):
    t = case["target"]
    crashed = ":panic" if isinstance(o.get("got"), str) and o["got"].startswith("panic:") else ""
    return "auth:%s:%s:%s:%s%s" % (case["fam"], t["kind"], o["mismatch"], case["site"], crashed)


def C08(ctx):
    q = ctx.quick
    # S (1): the call stack as a state machine - structure of the zone table, barriers, badges, monotonicity
    r0 = tlc("Auth", "MCAuth", workers=4, consts={"MaxFrames": 3 if q else 4}, timeout=3000)
    r0.actions = actions_of(r0)
    tlc_must_pass(r0, "MCAuth", required_actions=["Invoke", "Push", "Return"])
    ctx.add_tlc(r0)
    # S (2) + G: the bounded universe of cases; laws checked on each, each printed with the expected verdict
    consts = dict(C08_QUICK if q else C08_THOROUGH, Seed=ctx.seed % 65521)
    out_file = ctx.wpath("gen.out")
    r = tlc("Auth", "GenAuth", workers=6 if q else 4, consts=consts, timeout=6000, out_file=out_file, heap="4g")
    os.unlink(out_file)
    tlc_must_pass(r, "GenAuth (laws of Auth on the bounded universe of cases)", required_actions=["Expand"])
    ctx.add_tlc(r)
    cases = r.printed("B")
    r.out = ""
    fams = collections.Counter(c["fam"] for c in cases)
    if len(cases) < (12000 if q else 50000):
        raise ToolError("GenAuth produced only %d cases" % len(cases))
    # non-vacuity: every family, every target kind with both verdicts, every creation verdict
    for f in ("A1", "A2", "A3", "A4", "B1", "B2", "C", "D", "E"):
        if fams[f] == 0:
            raise ToolError("vacuous universe: no case of family " + f)
    verdicts = collections.Counter((c["fam"], c["target"]["kind"], c["exp"]["outcome"]) for c in cases)
    for f in ("A1", "A2", "A3", "B1", "B2", "C"):
        for tk, deny in (("method", "unauthorized"), ("function", "unauthorized"), ("assert", "assert_failed")):
            if verdicts[(f, tk, "ok")] == 0 or verdicts[(f, tk, deny)] == 0:
                raise ToolError("vacuous universe: family %s never expects %s to %s" % (f, tk, "succeed / fail"))
    creates = collections.Counter((c["site"], c["exp"]["create"]) for c in cases if c["fam"] == "E")
    for site in ("create_owner", "create_role", "set_role", "set_owner"):
        for v in ("ok", "Depth", "Nodes"):
            if creates[(site, v)] == 0:
                raise ToolError("vacuous universe: site %s never expects %s" % (site, v))
    if creates[("function", "ok")] == 0 or creates[("function", "Nodes")] == 0:
        raise ToolError("vacuous universe: function site")
    if not any(c["sim"] and c["exp"]["outcome"] == "ok" for c in cases):
        raise ToolError("vacuous universe: simulate-all never grants")
    ctx.sample({"case": next(c for c in cases if c["fam"] == "A1" and len(c["frames"]) == 3 and c["exp"]["outcome"] == "ok"
                             and c["target"]["kind"] == "assert")})
    ctx.sample({"case": next(c for c in cases if c["fam"] == "B2" and c["exp"]["outcome"] == "unauthorized")})
    ctx.sample({"case": next(c for c in cases if c["fam"] == "D" and c["target"]["method"] == "m_self" and c["exp"]["outcome"] == "ok")})
    ctx.sample({"case": next(c for c in cases if c["fam"] == "C" and len(c["frames"]) == 3)})
    parts = 4
    mism, extra = replay_cases(ctx, "auth", cases, [], "authorization case", key=c08_key, parts=parts)
    classes = merged_classes(extra)

    # binding self-test: corrupted expectations must be reported
    def pick(pred):
        return json.loads(json.dumps(next(c for c in cases if pred(c))))
    sel = [pick(lambda c: c["fam"] == "A1" and c["exp"]["outcome"] == "ok" and c["target"]["kind"] == "method"),
           pick(lambda c: c["fam"] == "B2" and c["exp"]["outcome"] == "unauthorized" and c["target"]["kind"] == "function"),
           pick(lambda c: c["fam"] == "A3" and c["exp"]["outcome"] == "assert_failed"),
           pick(lambda c: c["fam"] == "E" and c["exp"]["create"] == "Depth"),
           pick(lambda c: c["fam"] == "E" and c["exp"]["create"] == "ok" and c["site"] == "set_role")]
    sel[0]["exp"]["outcome"] = "unauthorized"
    sel[1]["exp"]["outcome"] = "ok"
    sel[2]["exp"]["outcome"] = "ok"
    sel[3]["exp"]["create"] = "Nodes"
    sel[4]["exp"]["create"] = "Depth"
    bad, _ = replay_cases(ctx, "auth", sel, [], count=False)
    if sorted(o["b"] for o in bad) != [0, 1, 2, 3, 4]:
        raise ToolError("binding self-test of auth: corrupted expectations reported for %s of 5" % sorted(o["b"] for o in bad))

    def ident(c):
        return json.dumps({k: v for k, v in c.items() if k not in ("exp", "fam")}, sort_keys=True)
    distinct = len({ident(c) for c in cases if len(c["frames"]) > 1 or c["frames"][0]["proofs"] or c["signers"]
                    or c["target"]["rule"]["kind"] == "protected"})
    return {"exhaustive": not q, "distinct_nontrivial": distinct, "cases_per_family": dict(fams),
            "impl_answers": classes, "mcauth_states": r0.distinct,
            "rule": "MCAuth: every call stack of <= %d frames (transaction processor, functions, global components, owned "
                    "children, frame-owned objects) with <= 2 proofs as a state machine (Invoke / Push / Return) with the structural "
                    "invariants of the zone table.  GenAuth: families A1 (10 call-chain shapes x method / function / assert targets x "
                    "placements of <= 3%s proofs of 5 kinds over the frames x 13 single-requirement rules), A2 (signer sets, "
                    "simulate-all via preview), A3 (global-caller / package badges), A4 (ill-typed requirement), B1 (283 basic "
                    "requirements over 3 independent leaves x 8 truth assignments x 3 target kinds), B2 (composite trees of depth <= 3 "
                    "with <= 3 leaves x 8 assignments), C (seeded random mixtures), D (owner x r1 x r2 assignments x 10 methods x 7 "
                    "caller shapes x 8 assignments x 2 proof positions), E (rules at the depth / node limits x 5 storing sites); %s. "
                    "Every case is executed as a real transaction (or preview) on a LedgerSimulator through native test blueprints and "
                    "the receipt class compared with the specification's verdict; distinct = distinct cases other than the bare "
                    "AllowAll / DenyAll transaction-level ones"
                    % (3 if q else 4, " (thinned)" if q else " (3 proofs: one in 12)",
                       "quick tier: never thinned are the boundary products (A1: no proof, one proof x every requirement about its "
                       "resource, two proofs of one resource in one frame x every amount-of requirement; A2, A3, A4, E; B1 lists of "
                       "length <= 2; B2 depth-2 trees x 3 target kinds; D every role configuration x method x shape with no / all proofs); "
                       "only the bulk is thinned by a seeded residue class (A1 rest 1/8, 1/120, 1/800; B1 length-3 lists 1/20; B2 depth-3 "
                       "trees 1/20; D rest 1/32; 200 random cases)" if q else
                       "all cases of A1 (<= 2 proofs), A2, A3, A4, B1, B2, E; D one in 2; 3-proof placements one in 12")}


# ---------------------------------------------------------------------------------------------
# C51 locked state stays locked
def load_monitor(path, offset):
    """events of one recording with substate / value numbers shifted (several recordings are validated as one trace)"""
    evs = read_ndjson(path)
    for e in evs:
        e["w"] = [[w[0] + offset, w[1], (w[2] + offset) if w[2] >= 0 else -1, w[3]] for w in e["w"]]
    return evs


def C51(ctx):
    q = ctx.quick
    # S: every state x every operation x every caller; Sticky and its companions as action properties
    # (quick: 5 of the 7 items - the items are independent of each other except through the owner role; thorough: all 7)
    r = tlc("Locking", "MCLocking", workers=4, timeout=6000,
            consts={"Items": '{"field", "kvs", "md", "owner", "role"}'} if q else None)
    r.actions = actions_of(r)
    tlc_must_pass(r, "MCLocking", required_actions=["Do", "Remove", "Lock", "LockWrite", "LockTx"])
    ctx.add_tlc(r)
    # G: seeded random walks of the model from every kind of initial state, replayed on a ledger
    k = 8 if q else 10
    g = tlc("Locking", "GenLocking", workers=4, coverage=False, consts={"K": k}, simulate=75 if q else 1000, depth=k + 2,
            seed=ctx.seed, timeout=6000, heap="4g")
    beh = g.printed("B")
    g.out = ""
    if len(beh) < (200 if q else 2500):
        raise ToolError("GenLocking produced only %d behaviours" % len(beh))
    # systematic families, never sampled: (a) every operation x item x value x caller as a one-step behaviour from the
    # all-unlocked and the all-locked state; (b) a transaction locks one item, then every operation x caller follows
    sysb = []
    for cfg, n in (("GenLockingAll", 656), ("GenLockingAll2", 312)):
        gs = tlc("Locking", "GenLocking", cfg=cfg, workers=2, coverage=False, timeout=3000)
        got = gs.printed("B")
        if not gs.ok or len(got) != n:
            raise ToolError("%s produced %d of %d behaviours" % (cfg, len(got), n))
        sysb += got
    n_random = len(beh)
    beh = sysb + beh
    ops = collections.Counter((e["item"], e["op"], e["vd"]) for b in beh for e in b[1:])
    for item in ("field", "kv", "kvs", "md", "roy"):
        for op in ("update", "lock"):
            if ops[(item, op, "ok")] == 0 or ops[(item, op, "locked")] == 0:
                raise ToolError("vacuous behaviours: %s %s never %s" % (item, op, "succeeds / hits a lock"))
    if ops[("owner", "lock", "ok")] == 0 or ops[("owner", "update", "auth")] == 0 or ops[("owner", "update", "ok")] == 0:
        raise ToolError("vacuous behaviours: owner role")
    locked_then_tried = sum(1 for b in beh for i, e in enumerate(b[1:], 1) if e["item"] in b[i - 1]["locked"] and b[i - 1]["locked"][e["item"]])
    if locked_then_tried < n_random:
        raise ToolError("vacuous behaviours: only %d attempts on locked items" % locked_then_tried)
    ctx.sample({"behaviour": next(b for b in beh[len(sysb):] if any(e["vd"] == "locked" for e in b) and any(e["op"] == "lock" and e["vd"] == "ok" for e in b))})
    ctx.sample({"behaviour": next(b for b in beh if any(e["op"] == "lockwrite" and e["vd"] == "ok" for e in b))})
    parts = 2 if q else 4
    mon = ctx.wpath("monitor")

    def lock_key(o, b):
        e = b[o["step"]]
        return "locking:%s:%s:%s" % (e["item"], e["op"], o["mismatch"])
    hosts = "hosts=component,resource,account"
    mism, extra = replay_cases(ctx, "locking", beh, ["monitor=%s.{part}" % mon, hosts], "behaviour", key=lock_key, parts=parts)
    classes = merged_classes(extra)
    # T: global monitor over (a) the replayed histories, (b) the repository's transaction scenarios of every protocol version
    scen = ctx.wpath("scenarios.ndjson")
    rc, out = vh(BIN, ["locking", "scenarios", "out=" + scen] + (["skip=max_transaction"] if q else []), timeout=7200)
    stats = json.loads(out.splitlines()[-1])
    if stats["scenario_txs"] < 100 or stats["locked_writes"] < 300:
        raise ToolError("scenario recording is too small: %s" % stats)
    scen_events = load_monitor(scen, 0)
    events = list(scen_events)
    sources = [(len(events), "scenarios")]
    for i in range(parts):
        pth = "%s.%d" % (mon, i)
        events += load_monitor(pth, (i + 1) * 10000000)
        sources.append((len(events), "replay part %d" % i))
        os.unlink(pth)
        os.unlink(pth + ".legend")
    legend = json.load(open(scen + ".legend"))
    os.unlink(scen)
    os.unlink(scen + ".legend")
    tp = ctx.wpath("monitor-all.ndjson")
    write_ndjson(tp, events)
    ok, idx, tr = validate_trace("Locking", "TraceLocking", tp, heap="4g", timeout=6000)
    os.unlink(tp)
    n_tx = sum(1 for e in events if e["a"] == "tx")
    n_w = sum(len(e["w"]) for e in events)
    ctx.cov["evaluations"] += n_w
    ctx.cov["traces_validated_against_impl"] += 1 + parts
    if not ok:
        e = events[idx - 1] if idx and idx <= len(events) else {}
        ctx.violation("locking:monitor:%s" % str(e.get("src", "?")).split(":")[0].rstrip("0123456789"),
                      "transaction %s changes or deletes a substate that was locked earlier" % e.get("src"),
                      {"first_unmatched": idx, "event": e, "legend": {str(w[0]): legend.get(str(w[0])) for w in e.get("w", [])},
                       "tlc_violated": tr.violated})
    ctx.sample({"monitor_event": next(e for e in scen_events if e["a"] == "tx" and any(w[1] == 1 for w in e["w"]))})

    # binding self-tests: (1) wrong expectations in a behaviour are reported, (2) a recording in which a later transaction
    # rewrites / unlocks / deletes a locked substate is rejected at that transaction
    bad = json.loads(json.dumps(beh[len(sysb):len(sysb) + 40]))
    i1, s1 = next((i, j) for i, b in enumerate(bad) for j, e in enumerate(b) if e["vd"] == "locked")
    bad[i1][s1]["vd"] = "ok"
    i2, s2 = next((i, j) for i, b in enumerate(bad) for j, e in enumerate(b) if j > 0 and e["vd"] == "ok" and e["op"] == "lock" and i != i1)
    bad[i2][s2]["locked"][bad[i2][s2]["item"]] = False
    rep, _ = replay_cases(ctx, "locking", bad, [hosts], count=False)
    if not any(o["b"] == i1 and o["mismatch"].startswith("outcome") for o in rep) \
            or not any(o["b"] == i2 and o["mismatch"].startswith("state") for o in rep):
        raise ToolError("binding self-test of locking: corrupted expectations were not reported")
    lw = [(i, w) for i, e in enumerate(scen_events) for w in e["w"] if w[1] == 1 and w[3] == 0]
    last_tx = max(i for i, e in enumerate(scen_events) if e["a"] == "tx")
    for n, mut in enumerate((lambda w: [w[0], 1, w[2] + 5000000, 0], lambda w: [w[0], 0, w[2], 0], lambda w: [w[0], 0, -1, 0])):
        i, w = lw[(len(lw) * (n + 1)) // 4]
        if i >= last_tx:
            raise ToolError("binding self-test of TraceLocking: no locked write before the last transaction")
        fake = json.loads(json.dumps(scen_events))
        fake[last_tx]["w"].append(mut(w))
        fp = ctx.wpath("monitor-bad.ndjson")
        write_ndjson(fp, fake)
        ok2, idx2, _ = validate_trace("Locking", "TraceLocking", fp)
        os.unlink(fp)
        if ok2 or idx2 != last_tx + 1:
            raise ToolError("binding self-test of TraceLocking failed: corrupted recording %d accepted / rejected at %s" % (n, idx2))
        if q:
            break
    distinct = len({json.dumps(b, sort_keys=True) for b in beh})
    return {"exhaustive": False, "distinct_nontrivial": distinct, "impl_answers": classes, "attempts_on_locked_items": locked_then_tried,
            "monitor": {"transactions": n_tx, "protocol_update_events": len(events) - n_tx, "substate_writes": n_w,
                        "scenario_stats": stats},
            "rule": "MCLocking: every state (items x locked x value) x every operation (update / remove / lock / lock-and-write "
                    "through one handle / lock then update as two calls of one transaction) x every caller (no badge, either badge, both); systematically every operation x item x value x "
                    "caller as a one-step behaviour from the all-unlocked and the all-locked state with present and with absent entries "
                    "(656) and, after a transaction that locked one of the six lockable items (present or absent entry), every "
                    "operation on that item by every caller (312); %d seeded random walks of %d operations from "
                    "random initial states (items created locked / unlocked, present / absent), each operation one transaction on a "
                    "component of the native test blueprint with metadata, royalty and role-assignment modules (all 7 items), and the "
                    "walk restricted to metadata / owner / role again on a fresh fungible resource manager (role = minter) and to "
                    "metadata / owner on a fresh account; outcome class and the (lock flag, value) of the host's items read back from "
                    "the database after every step; global monitor over these %d "
                    "transactions and the %d transactions of the repository's scenarios under all protocol versions%s; distinct = "
                    "distinct walks" % (n_random, k, n_tx - stats["scenario_txs"], stats["scenario_txs"],
                                        " (max_transaction left out in the quick tier)" if q else "")}


PROPS = {
    "C08": dict(fn=C08, level="model_checking", design_ref="5/C08",
                technique="TLA+ spec Auth (auth-zone construction per call transcribed from create_auth_zone, zone visibility, recursive "
                          "Sat over require / amount-of / count-of / all-of / any-of and their composition, role resolution with _self_ "
                          "and owner fallback, rule size limits): TLC checks the zone-table invariants on the call-stack state machine and "
                          "the laws (monotonicity, barriers, empty lists, count laws, order independence) on every case of the bounded "
                          "universe, and emits each case with the expected verdict; replay as real transactions on a LedgerSimulator",
                text="The specification defines which zones a callee can see (local implicit badges, the global caller's zone chain, the "
                     "parent chain - never its own proofs), when a rule tree is satisfied and which rule a role key resolves to; "
                     "Authorized(case) is the existence of a satisfied role in the method's role list (or the satisfied function / asserted "
                     "rule). TLC enumerates call chains, proof placements, signer sets and rule trees, evaluates Authorized and prints "
                     "the expected receipt class. The harness compiles each case: the rule becomes the access rule of a role of a real "
                     "component of a native test blueprint, a function access rule of a published package, or an explicit "
                     "assert_access_rule; the chain global component -> owned child / frame-owned object / function -> ... is executed "
                     "by the blueprint, each frame pushing the proofs the model placed there (taken from vaults of a bank component), "
                     "signer badges come from the transaction's initial proofs, simulate-all from a preview with "
                     "assume_all_signature_proofs. Observed Success / AuthError::Unauthorized for exactly the protected target / "
                     "AssertAccessRuleFailed is compared with the model; rules beyond the depth / node limits must be refused with the "
                     "predicted error where they are stored.",
                note="Modelled as coded: amount-of looks at single proofs; simulate-all satisfies only non-fungible-id requirements; a "
                     "frame-owned caller keeps the global-caller zone but carries no badge. Observed and allowed (family A4): a "
                     "requirement naming a non-fungible id of a fungible resource fails with SystemError(TypeCheckError) instead of "
                     "Unauthorized when a proof of that resource is visible - the call is denied either way. Function access rules "
                     "travel inside a package definition in manifest SBOR (depth 24), so rules deeper than 4 cannot be submitted and the "
                     "depth limit of that site is only reachable through the node limit cases; at the other sites the rule is handed to "
                     "native code as bytes. Not covered: inner blueprints with UseOuter roles, OuterObjectOnly, direct-access methods, "
                     "VERIFY_PARENT of subintents, Ed25519 signer badges, fractional amounts. Trusted: TLC, the test blueprint (no "
                     "decision logic: it pushes the proofs and makes the calls the plan says) and the projection of receipts."),
    "C51": dict(fn=C51, level="model_checking", design_ref="5/C51",
                technique="TLA+ spec Locking (items field / key-value collection entry / standalone KeyValueStore entry / metadata entry / component royalty / owner role / role with "
                          "lock flag and value; actions Update, Remove, Lock, LockWrite per caller; property Sticky): TLC checks Sticky and "
                          "its companions on every transition; seeded walks replayed as transactions on a LedgerSimulator with state "
                          "read-back; TraceLocking is a global monitor over the lock_status of every field / key-value substate written "
                          "by recorded histories",
                text="Sticky == [][locked[i] => locked'[i] /\\ val'[i] = val[i]]_vars is checked by TLC for every state, operation and "
                     "caller of the model, together with: every attempt on a locked item fails for every caller, failures change nothing, "
                     "an operation touches only its item. The model's verdict for an operation is 'auth' (caller does not satisfy the rule "
                     "the operation is protected by: public, owner role, owner fallback of the module roles, DenyAll after lock_owner_role), "
                     "'locked' or 'ok'. Walks of the model are replayed: metadata set / remove / lock, set_royalty / lock_royalty, "
                     "set_owner_role / lock_owner_role, role set, and field_write / field_lock / key_value_entry set / remove / lock of a "
                     "native test blueprint, called with no badge, the owner's badge, the other badge or all badges; the metadata / owner / "
                     "role part of every walk is repeated on a resource manager and on an account; receipt class and "
                     "the lock flags and values read from the substate database are compared after every transaction. Independently the "
                     "monitor decodes the lock_status of all field and key-value-entry substates in each committed transaction's "
                     "state_updates and TraceLocking rejects a transaction that rewrites with another value, unlocks or deletes a "
                     "substate seen locked before.",
                note="As coded and modelled: locking and then writing through the SAME open handle (field_lock + field_write, "
                     "key_value_entry_lock + set) stores an unlocked substate again - the item was never locked in a committed state, so "
                     "this is not a violation of the statement, but blueprint authors get no error. Monitor exceptions: the transaction "
                     "tracker's partitions (rings reset wholesale) are not monitored; genesis and protocol-update flashes / system "
                     "transactions are accepted and refresh the monitor's knowledge (they are not transactions of a caller). The monitor "
                     "only knows locks it has seen being written during the recording. Package-level royalty / blueprint definitions are "
                     "covered only through the monitor. Quick tier leaves out the max_transaction scenario (3.5 min at opt-level 1). "
                     "Trusted: TLC, the test blueprint, the projection (typed decoding of the six substates, numbering of substates and "
                     "values by the recorder)."),
}

"""Ledger-level life cycle: TxLifecycle / NativeCalls (C11), Determinism (C01)."""
import json, os, re, random
from concurrent.futures import ThreadPoolExecutor
import core
from core import tlc, tlc_must_pass, vh, ToolError, write_ndjson, read_ndjson, log

BIN = "vh_life"
THREADS = 6


# ---------------------------------------------------------------------------------------------
# helpers

def lifecycle_trace(ctx, events, name, chunk=8000):
    """Stateful validation of a Submit/Receipt/Panic stream by TraceTxLifecycle in chunks (cut between
    transactions, each chunk closed by an End event).  Returns the global indices of the forbidden events
    (BAD) ; a structural rejection (receipt without submit, unanswered submit ...) is returned as
    ('rejected', index)."""
    # cut points: after a Receipt/Panic
    chunks, cur = [], []
    for i, e in enumerate(events):
        cur.append((i, e))
        if len(cur) >= chunk and e["a"] in ("Receipt", "Panic"):
            chunks.append(cur)
            cur = []
    if cur:
        chunks.append(cur)

    def run(job):
        ci, part = job
        p = ctx.wpath("%s-life-%d.ndjson" % (name, ci))
        write_ndjson(p, [e for _, e in part] + [{"a": "End", "id": 0}])
        r = tlc("TxLifecycle", "TraceTxLifecycle", workers=1, env={"TRACE": p}, coverage=False, stack="1g", heap="3g")
        if "TRACE" in r.out and "No such file" in r.out or not os.path.exists(p):
            raise ToolError("work file %s disappeared while TLC was running (work/ cleaned by another process?)" % p)
        os.unlink(p)
        bad = [part[int(x) - 1][0] for x in re.findall(r'<<"BAD", (\d+)>>', r.out)]
        m = re.search(r'<<"TRACE-REJECTED", (\d+)', r.out)
        rejected = None
        if m:
            d = int(m.group(1))          # diameter: d-1 events were consumed
            rejected = part[d - 1][0] if d - 1 < len(part) else part[-1][0]
        elif r.violated:
            rejected = part[0][0]
        elif not r.ok:
            raise ToolError("TraceTxLifecycle failed to run: %s" % r.out[-1500:])
        return bad, rejected
    with ThreadPoolExecutor(max_workers=8) as ex:
        res = list(ex.map(run, list(enumerate(chunks))))
    bad = sorted(i for b, _ in res for i in b)
    rejected = [r for _, r in res if r is not None]
    ctx.cov["evaluations"] += len(events)
    ctx.cov["traces_validated_against_impl"] += len(chunks)
    return bad, rejected


def norm_msg(msg):
    """stable part of a panic message (no addresses / numbers)"""
    return re.sub(r"[0-9a-f]{16,}|\d+", "#", msg or "")[:90]


# ---------------------------------------------------------------------------------------------
def C11(ctx):
    q = ctx.quick
    # S: the life-cycle specification itself (safety + answered-liveness, 3 transactions)
    r = tlc("TxLifecycle", "MCTxLifecycle", workers=4)
    tlc_must_pass(r, "MCTxLifecycle", required_actions=["Submit", "Receipt"])
    ctx.add_tlc(r)
    # catalog of the real functions / input schemas, read by the harness from the package definitions
    cp = ctx.wpath("catalog.json")
    vh(BIN, ["crash", "catalog"], stdout_path=cp)
    cat = json.load(open(cp))["fns"]
    if len(cat) < 200:
        raise ToolError("catalog too small: %d functions" % len(cat))
    # G: test purposes enumerated by TLC over the catalog
    g = tlc("TxLifecycle", "NativeCalls", workers=2, coverage=False, env={"CATALOG": cp},
            # edge operators (boundary / arity / dangling / wrongres): every path x every variant in BOTH tiers
            # (quick: in the rich state with the auth module off, the deepest-reaching class); only the bulk
            # operator (wrongkind) and the state x authorisation product are subsampled in quick
            consts={"MaxPaths": "1" if q else "0", "MaxVariants": "2" if q else "0",
                    "Auths": '{"owner"}' if q else '{"none", "owner", "system", "noauth"}',
                    "EdgeStates": '{"rich"}' if q else '{"genesis", "rich"}',
                    "EdgeAuths": '{"noauth"}' if q else '{"none", "owner", "system", "noauth"}'})
    tlc_must_pass(g, "NativeCalls")
    ctx.add_tlc(g)
    os.unlink(cp)
    per_fn = g.printed("B")
    unreachable = g.printed("U")
    purposes = []
    for x in per_fn:
        for p in x["purposes"]:
            p["id"] = len(purposes) + 1
            purposes.append(p)
    if len(per_fn) < 200 or len(purposes) < 3000:
        raise ToolError("too few purposes: %d functions, %d purposes" % (len(per_fn), len(purposes)))
    ops = {p["op"] for p in purposes}
    if ops != {"nominal", "boundary", "wrongkind", "arity", "dangling", "wrongres", "cross", "twice", "proofthenuse"}:
        raise ToolError("operators missing: %s" % ops)
    ctx.sample({"purpose": purposes[0], "function": [cat[purposes[0]["f"] - 1][k] for k in ("bp", "ident")]})
    ctx.sample({"purpose": purposes[len(purposes) // 2], "function": [cat[purposes[len(purposes) // 2]["f"] - 1][k] for k in ("bp", "ident")]})
    pp = ctx.wpath("purposes.ndjson")
    write_ndjson(pp, purposes)
    tp = ctx.wpath("crash-trace.ndjson")
    vh(BIN, ["crash", "run", "threads=%d" % THREADS], stdin_path=pp, stdout_path=tp)
    os.unlink(pp)
    evs = read_ndjson(tp)
    os.unlink(tp)
    skips = [e for e in evs if e["a"] == "Skip"]
    evs = [e for e in evs if e["a"] != "Skip"]
    if len(skips) > len(purposes) // 20:
        raise ToolError("%d purposes could not be concretised: %s" % (len(skips), skips[0]))
    # seeded random manifests + mutated scenario manifests
    rp = ctx.wpath("crash-random.ndjson")
    vh(BIN, ["crash", "random", "seed=%d" % ctx.seed, "n=%d" % (1000 if q else 50000), "threads=%d" % THREADS,
             "base=%d" % 10_000_000], stdout_path=rp)
    revs = [e for e in read_ndjson(rp) if e["a"] != "Skip"]
    os.unlink(rp)
    sp = ctx.wpath("crash-scen.ndjson")
    quick_scen = "transfer_xrd,radiswap,metadata,fungible_resource,non_fungible_resource,account_authorized_depositors," \
                 "account_locker,access-controller-v2,royalties"
    vh(BIN, ["crash", "scenarios", "seed=%d" % ctx.seed, "mutants=%d" % (3 if q else 6), "base=%d" % 20_000_000,
             "max=%d" % (400 if q else 100000), "scen=%s" % (quick_scen if q else "")], stdout_path=sp)
    sevs = [e for e in read_ndjson(sp) if e["a"] != "Skip"]
    os.unlink(sp)
    allev = evs + revs + sevs
    receipts = [e for e in allev if e["a"] == "Receipt"]
    classes = {}
    for e in receipts:
        classes[e["cls"]] = classes.get(e["cls"], 0) + 1
    if classes.get("CommitSuccess", 0) < 100 or classes.get("CommitFailure", 0) < 1000 or classes.get("Reject", 0) < 5:
        raise ToolError("outcome classes not exercised: %s" % classes)
    ctx.sample({"trace_event": receipts[3]})
    ctx.sample({"trace_event": next(e for e in revs if e["a"] == "Receipt")})
    # T: the recorded stream against TraceTxLifecycle
    bad, rejected = lifecycle_trace(ctx, allev, "crash", chunk=8000 if q else 20000)
    pmap = {p["id"]: p for p in purposes}
    for i in bad:
        e = allev[i]
        p = pmap.get(e["id"])
        what_kind = "panic" if e["a"] == "Panic" else "trap"
        if p is not None:
            f = cat[p["f"] - 1]
            key = "crash:%s:%s.%s:%s:%s" % (what_kind, f["bp"], f["ident"], p["op"], p["kind"])
            if e.get("export") and not e["export"].startswith(f["ident"]):
                key += ":in:" + e["export"]        # the trap happened in a callee
            what = "%s.%s with %s at path %s (kind %s, variant %d, state %s, auth %s): %s" % (
                f["bp"], f["ident"], p["op"], p["path"], p["kind"], p["k"], p["state"], p["auth"],
                (e.get("msg") or e.get("detail") or "")[:300])
            rep = {"purpose": p, "function": {k: f[k] for k in ("bp", "ident", "recv", "pkg")}, "event": e,
                   "how": "vh_life crash run < purpose (one JSON line); vh_life crash show decompiles the manifest"}
        else:
            src = e.get("src", "?")
            key = "crash:%s:%s:%s" % (what_kind, src, e.get("export") or norm_msg(e.get("msg")))
            what = "%s manifest (seed index %s): %s" % (src, e.get("seed"), (e.get("msg") or e.get("detail") or "")[:300])
            rep = {"event": e, "seed": ctx.seed, "how": "vh_life crash %s seed=%d (event carries the index / manifest)" % (src, ctx.seed)}
        ctx.violation(key, what, rep)
    for i in rejected:
        ctx.violation("crash:lifecycle", "life cycle broken at event %d: %s" % (i, json.dumps(allev[i])[:300]),
                      {"index": i, "context": allev[max(0, i - 3):i + 2]})
    # binding self-test: a panic, a foreign trap and a missing receipt must be reported
    base = [e for e in evs[:40]]
    t1 = json.loads(json.dumps(base))
    ridx = next(i for i, e in enumerate(t1) if e["a"] == "Receipt")
    t1[ridx] = {"a": "Panic", "id": t1[ridx]["id"], "msg": "injected"}
    ridx2 = next(i for i, e in enumerate(t1) if e["a"] == "Receipt" and i > ridx)
    t1[ridx2].update(trap=True, export="withdraw")
    b1, r1 = lifecycle_trace(ctx, t1, "crash-self1")
    t2 = json.loads(json.dumps(base))
    del t2[ridx]
    b2, r2 = lifecycle_trace(ctx, t2, "crash-self2")
    if b1 != [ridx, ridx2] or r1 or not r2:
        raise ToolError("binding self-test failed: bad=%s rejected=%s / %s %s" % (b1, r1, b2, r2))
    errs = {}
    for e in receipts:
        errs[e["err"]] = errs.get(e["err"], 0) + 1
    distinct = len({(p["f"], p["op"], json.dumps(p["path"]), p["k"], p["state"], p["auth"]) for p in purposes}) + len(revs) // 2 + len(sevs) // 2
    return {"exhaustive": False, "distinct_nontrivial": distinct,
            "functions_in_catalog": len(cat), "functions_with_purposes": len(per_fn), "functions_unreachable": len(unreachable),
            "purposes": len(purposes), "random_manifests": len(revs) // 2, "scenario_mutants": len(sevs) // 2,
            "receipt_classes": classes, "error_classes": len(errs), "skipped": len(skips),
            "rule": "NativeCalls.tla enumerates test purposes (function or method of the catalog read from the package definitions in the "
                    "database) x (mutation operator at a path of the input type tree, variant) x (state class) x (authorisation class); "
                    "each is concretised by a schema-directed value builder into a manifest (lock_fee, supply of buckets/proofs/"
                    "reservations, the call under test - internal objects through a native Probe blueprint - clean-up) and executed "
                    "without commit under catch_unwind; plus seeded random manifests and mutated repository-scenario manifests. "
                    "TraceTxLifecycle decides: every Submit has exactly one Receipt of an allowed class, no Panic, no native trap "
                    "(except TestUtils::panic). distinct = distinct purposes + random + mutant transactions"}


FAST_SCENARIOS = "transfer_xrd,radiswap,metadata,fungible_resource,non_fungible_resource,account_locker," \
                 "account_authorized_depositors,royalties,access-controller-v2"


def determinism_trace(ctx, events, name, per_chunk=60):
    """TraceDeterminism on the Exec events, chunked by transaction index (every chunk holds all runs of its
    transactions).  Returns global indices of deviating observations."""
    idx = sorted({e["i"] for e in events})
    groups = [set(idx[k:k + per_chunk]) for k in range(0, len(idx), per_chunk)]

    def run(job):
        ci, g = job
        part = [(n, e) for n, e in enumerate(events) if e["i"] in g]
        p = ctx.wpath("%s-det-%d.ndjson" % (name, ci))
        write_ndjson(p, [e for _, e in part])
        r = tlc("Determinism", "TraceDeterminism", workers=1, env={"TRACE": p}, coverage=False, stack="1g", heap="3g")
        if not os.path.exists(p):
            raise ToolError("work file %s disappeared while TLC was running (work/ cleaned by another process?)" % p)
        os.unlink(p)
        if re.search(r'<<"TRACE-REJECTED"', r.out) or not r.ok:
            raise ToolError("TraceDeterminism did not consume the recording: %s" % r.out[-1500:])
        return [part[int(x) - 1][0] for x in re.findall(r'<<"BAD", (\d+)>>', r.out)]
    with ThreadPoolExecutor(max_workers=6) as ex:
        res = list(ex.map(run, list(enumerate(groups))))
    ctx.cov["evaluations"] += len(events)
    ctx.cov["traces_validated_against_impl"] += len(groups)
    return sorted(i for b in res for i in b)


def C01(ctx):
    q = ctx.quick
    # S: the acceptance rule on a small instance; G: the run plan (points of the lattice)
    r = tlc("Determinism", "MCDeterminism", workers=4, consts={"PlanMode": '"quick"', "DebugLen": "50" if q else "40"})
    tlc_must_pass(r, "MCDeterminism", required_actions=["MCNext"] if r.actions.get("MCNext") else [])
    if r.distinct < 100:
        raise ToolError("MCDeterminism explored only %d states" % r.distinct)
    ctx.add_tlc(r)
    quick_plan = r.printed("B")
    if len(quick_plan) != 16:
        raise ToolError("quick run plan has %d runs" % len(quick_plan))
    jobs = [("quickplan", quick_plan, FAST_SCENARIOS, 4 if q else 8)]
    if not q:
        rf = tlc("Determinism", "MCDeterminism", workers=4, coverage=False, consts={"PlanMode": '"full"', "DebugLen": "40"})
        tlc_must_pass(rf, "MCDeterminism(full plan)")
        full_plan = rf.printed("B")
        if len(full_plan) != 128:
            raise ToolError("full run plan has %d runs" % len(full_plan))
        rs = tlc("Determinism", "MCDeterminism", workers=4, coverage=False, consts={"PlanMode": '"small"', "DebugLen": "40"})
        tlc_must_pass(rs, "MCDeterminism(small plan)")
        small_plan = rs.printed("B")
        if len(small_plan) != 6:
            raise ToolError("small run plan has %d runs" % len(small_plan))
        jobs = [("lattice", full_plan, FAST_SCENARIOS, 4), ("scenarios", small_plan, "all", 3)]
    ctx.sample({"run": quick_plan[0]})
    ctx.sample({"run": quick_plan[-1]})
    total_obs, total_tx, runs_done = 0, 0, 0
    for name, plan, scen, gen in jobs:
        pp = ctx.wpath("det-plan-%s.ndjson" % name)
        write_ndjson(pp, plan)
        op = ctx.wpath("det-%s.ndjson" % name)
        vh(BIN, ["determinism", "exec", "scen=%s" % scen, "gen=%d" % gen, "out=%s" % op, "par=%d" % 8],
           stdin_path=pp, stdout_path="/dev/null", timeout=3000)
        os.unlink(pp)
        evs = read_ndjson(op)
        os.unlink(op)
        runs = {e["run"] for e in evs}
        if len(runs) != len(plan):
            raise ToolError("%s: %d of %d runs reported" % (name, len(runs), len(plan)))
        ntx = max(e["i"] for e in evs)
        kinds = {e["digest"][0] for e in evs}
        if ntx < 100 or not {"CommitSuccess", "CommitFailure", "Reject"} <= kinds:
            raise ToolError("%s: workload too small (%d transactions, outcome kinds %s)" % (name, ntx, kinds))
        for pr in plan:
            n_r = max((e["i"] for e in evs if e["run"] == str(pr["run"])), default=0)
            if n_r < min(pr["len"], ntx) or (pr["threads"] == 4 and len({e["thread"] for e in evs if e["run"] == str(pr["run"])}) != 4):
                raise ToolError("%s: run %s incomplete (%d transactions)" % (name, pr, n_r))
        ctx.sample({"trace_event": evs[len(evs) // 2]})
        bad = determinism_trace(ctx, evs, "det-" + name)
        plan_by = {str(pr["run"]): pr for pr in plan}
        first = {}
        for e in evs:
            first.setdefault(e["i"], e)
        for i in bad:
            e = evs[i]
            c = first[e["i"]]
            fields = ["class", "outcome", "state_updates", "events", "fee_summary", "fee_source", "fee_destination", "nullifications"]
            diff = [fields[k] for k in range(8) if e["digest"][k] != c["digest"][k]]
            pr, pc = plan_by[e["run"]], plan_by[c["run"]]
            dims = [d for d in ("diag", "cache", "threads", "proc") if pr[d] != pc[d]] or ["thread"]
            family = re.sub(r"\d+", "", e["label"])        # e.g. consensus:round, gen:resources, radiswap:...
            ctx.violation("determinism:%s:%s" % ("+".join(diff), family),
                          "transaction %d (%s): %s differ between run %s and run %s (differing in %s)" % (e["i"], e["label"], diff, pc, pr, dims),
                          {"transaction": e["label"], "i": e["i"], "observation": e, "canonical": c, "run": pr, "canonical_run": pc,
                           "workload": {"scen": scen, "gen": gen}})
        total_obs += len(evs)
        total_tx += ntx
        runs_done += len(plan)
        # binding self-test: a flipped digest must be reported
        if name == jobs[0][0]:
            cor = json.loads(json.dumps([e for e in evs if e["i"] <= 3]))
            k = next(n for n, e in enumerate(cor) if e["i"] == 2 and e["run"] != cor[0]["run"])
            cor[k]["digest"][2] = "00" + cor[k]["digest"][2][2:] if not cor[k]["digest"][2].startswith("00") else "11" + cor[k]["digest"][2][2:]
            b = determinism_trace(ctx, cor, "det-selftest")
            if b != [k]:
                raise ToolError("binding self-test failed: %s (expected [%d])" % (b, k))
    return {"exhaustive": False, "distinct_nontrivial": total_obs, "runs": runs_done, "transactions": total_tx, "observations": total_obs,
            "rule": "TLC enumerates the run plan (quick: 16 points incl. 5 fresh processes; thorough: all 128 points of diag-subset x cache x "
                    "threads x process); the harness executes the same transaction sequence (a consensus part: genesis with 5 staked "
                    "validators, fee-paying round changes with made/missed proposals, 4 epoch changes with emissions and rewards, "
                    "stake-to-all-validators transactions; repository scenarios at the latest protocol version + generated "
                    "transactions creating many vaults / non-fungible ids / metadata entries at once + failing, unauthorised and rejected "
                    "transactions) from a fresh ledger under every run (4 threads = 4 concurrent copies sharing the code cache; fresh = child "
                    "process) and records per transaction the hashes of the SBOR-encoded outcome, state updates, events, fee summary, "
                    "fee source/destination, nullifications (thorough: full lattice on the fast scenarios, a six-run plan on all scenarios); "
                    "TraceDeterminism requires every observation to equal the first one. "
                    "distinct = observations (run x thread x transaction)"}


PROPS = {
    "C11": dict(fn=C11, level="exploration", design_ref="5/C11",
                technique="TLA+ spec TxLifecycle (TLC: exactly-one-receipt life cycle) + NativeCalls test-purpose generator over the real function "
                          "catalog; schema-directed hostile calls, random and mutated scenario manifests executed on a LedgerSimulator under "
                          "catch_unwind; Submit/Receipt/Panic stream validated by TraceTxLifecycle",
                text="TxLifecycle.tla states the life cycle (every submitted transaction gets exactly one receipt: commit success/failure, "
                     "reject, abort; panics and native traps are not actions). NativeCalls.tla enumerates test purposes over the catalog the "
                     "harness reads from the database (every function/method of every package with its input schema): argument mutation "
                     "operators (boundary values, wrong kind, missing/extra field, dangling/consumed/foreign ids and addresses, wrong resource "
                     "kind, repeated call, proof-then-use) at every path of the input type, in two ledger state classes and three "
                     "authorisation classes. The harness builds real manifests, executes them under catch_unwind and records "
                     "Submit/Receipt/Panic; TraceTxLifecycle validates the stream. Seeded random manifests and mutants of the repository's "
                     "scenario transactions feed the same trace specification.",
                note="Exploration guided by the model, not exhaustive. Allowed outcomes are all RuntimeError classes except "
                     "VmError::Native(Trap); TestUtils::panic (a native function whose purpose is to panic) is the one intended trap. "
                     "Values beyond the transport depth limit make the test-transaction builder panic before the engine is entered; these "
                     "are recorded as NotExecutable (real transactions arrive as bytes and are refused by the decoder). Worktop methods and "
                     "TransactionProcessor::run are reached only through manifest instructions. WASM blueprints other than the genesis "
                     "packages (Faucet, GenesisHelper) are out of scope. Transactions are executed without commit against fixed fixture "
                     "states (genesis + fixture; rich fixture with validator, pools, access controller, locker) and the evolving scenario "
                     "states."),
    "C01": dict(fn=C01, level="model_checking", design_ref="5/C01",
                technique="TLA+ spec Determinism: TLC-enumerated run plan over the lattice (diagnostic flags x code cache x threads x process); "
                          "the same transaction sequence executed under every run; per-transaction digests validated for equality by "
                          "TraceDeterminism",
                text="Determinism.tla defines a run as a point of the lattice SUBSET{kernel_trace, cost_breakdown, execution_trace, "
                     "debug_information} x {warm, cold code cache} x {1, 4 threads} x {same, fresh process} and the acceptance rule "
                     "(an observation of transaction i is accepted iff it equals the first observation of i). TLC checks the rule on a "
                     "small instance and prints the run plan. The harness executes the same sequence - the repository's scenarios at the "
                     "latest protocol version and generated transactions that create many vaults, non-fungible ids and key-value entries "
                     "in one transaction, plus failing, unauthorised and rejected ones - from a freshly bootstrapped ledger under every "
                     "run of the plan and records per transaction the hashes of the SBOR encodings of outcome, state updates, application "
                     "events, fee summary, fee source, fee destination and performed nullifications (not fee_details, execution trace or "
                     "debug information). TraceDeterminism decides equality across all runs and threads.",
                note="Trusted: SBOR encoding and blake2b used for the digests; TLC. Schedules are real OS schedules (4 concurrent copies), "
                     "not enumerated. Runs with debug information (several times slower) execute a prefix of the sequence (40-50 "
                     "transactions); in the thorough tier the full lattice runs the fast scenarios + generated transactions and the 16-run "
                     "plan runs all scenarios. Determinism across machines / architectures and across database implementations is out "
                     "of reach here (in-memory database only)."),
}

"""Manifest text and SBOR schema column: ManifestText lexical layer (C31), manifest
decompile/compile round trip (C30), SborSchema payload validation (C22), schema comparison (C23)."""
import collections, glob, json, os, subprocess, sys
import core
from core import tlc, tlc_must_pass, vh, ToolError, write_ndjson, read_ndjson, validate_calls

BIN = "vh_mtext"


def dedupe(items):
    seen, out = set(), []
    for c in items:
        k = json.dumps(c, sort_keys=True)
        if k not in seen:
            seen.add(k)
            out.append(c)
    return out


def validate_by_record(ctx, spec_dir, module, events, proj, name, full_sample=0, **kw):
    """Call-trace validation where the TLA+ predicate is a function of the projected record
    `proj(event)`: every DISTINCT record is validated by TLC (validate_calls) and the verdict is
    applied to every event that produced it.  `full_sample` > 0 additionally validates that many
    raw events one by one (seeded sample).  Returns indices of the bad events."""
    groups = collections.OrderedDict()
    for i, e in enumerate(events):
        groups.setdefault(json.dumps(proj(e), sort_keys=True), []).append(i)
    recs = [json.loads(k) for k in groups]
    bad_recs = validate_calls(spec_dir, module, recs, name, chunks=max(1, min(4, len(recs) // 150)), **kw)
    bad = []
    keys = list(groups)
    for b in bad_recs:
        bad += groups[keys[b]]
    if full_sample and events:
        idx = sorted(ctx.rng.sample(range(len(events)), min(full_sample, len(events))))
        b2 = validate_calls(spec_dir, module, [proj(events[i]) for i in idx], name + "-s", chunks=8, **kw)
        extra = {idx[j] for j in b2} - set(bad)
        if extra:
            raise ToolError("%s: per-record and per-event validation disagree" % module)
    ctx.cov["evaluations"] += len(events)
    return sorted(bad), len(recs)


def validate_parts(ctx, spec_dir, module, parts, proj, name, forged=(), forged_expect=(), chunks=None, **kw):
    """One call-trace validation for several event lists at once: the distinct projected records of every part,
    followed by forged records (binding self-test: exactly the indices `forged_expect` of them must be rejected).
    Returns (list of bad event indices per part, number of distinct records)."""
    recs, owner = [], []          # owner[i] = (part number, [event indices])
    for pi, events in enumerate(parts):
        groups = collections.OrderedDict()
        for i, e in enumerate(events):
            groups.setdefault(json.dumps(proj(e), sort_keys=True), []).append(i)
        for k, idx in groups.items():
            recs.append(json.loads(k))
            owner.append((pi, idx))
        ctx.cov["evaluations"] += len(events)
    nreal = len(recs)
    allrecs = recs + list(forged)
    bad = validate_calls(spec_dir, module, allrecs, name, chunks=chunks or max(1, min(6, len(allrecs) // 300)), **kw)
    got = [b - nreal for b in bad if b >= nreal]
    if forged and got != list(forged_expect):
        raise ToolError("binding self-test failed (%s): forged records rejected %s, expected %s" % (module, got, list(forged_expect)))
    out = [[] for _ in parts]
    for b in bad:
        if b < nreal:
            out[owner[b][0]] += owner[b][1]
    return [sorted(x) for x in out], nreal


# =============================================================================================
# C31

def rtm_corpus():
    p = subprocess.run(["find", core.REPO, "-name", "*.rtm", "-not", "-path", "*/target/*"], stdout=subprocess.PIPE, text=True)
    files = sorted(p.stdout.split())
    if len(files) < 100:
        raise ToolError("rtm corpus not found")
    return files


def c31_key(ev, term):
    """stable name of the failing input class (reporting only; the verdict is TLA+'s)"""
    what = []
    ks = ev["k"]
    if any("panic" in k["c"] for k in ks):
        what.append("compile panic")
    if any("panic" in k["d"][0] + k["d"][1] or k["p"] == "panic" for k in ks):
        what.append("diagnostics panic")
    if not what:
        what.append("nondeterministic or inconsistent result")
    stage = "".join(sorted({s for s in ev["st"] if s in ("L", "P", "G")}))
    return "%s stage=%s term=%s %s" % ("+".join(what), stage or "-", term, "later-line" if ev["el"] > 1 else "line1")


# generator error classes the alphabet reaches in the quick tier (measured on the unchanged tree; a change of the
# case set that loses one of them is a tool error, not a silent loss of coverage)
C31_GENERATOR_KINDS = ["G:" + k for k in (
    "ArgumentCouldNotBeReadAsExpectedType", "BlobNotFound", "HeaderInstructionMustComeFirst", "IdValidationError",
    "InstructionNotSupportedInManifestVersion", "IntentCannotBeUsedInValue", "IntentCannotBeUsedAsValueKind",
    "NamedIntentCannotBeUsedAsValueKind", "InvalidAstValue", "InvalidBlobHash", "InvalidBytesHex", "InvalidDecimal",
    "InvalidExpression", "InvalidGlobalAddress", "InvalidInternalAddress", "InvalidNonFungibleGlobalId",
    "InvalidNonFungibleLocalId", "InvalidPackageAddress", "InvalidPreciseDecimal", "InvalidResourceAddress",
    "InvalidSubTransactionId", "NameResolverError", "NamedIntentCannotBeUsedInValue", "UnexpectedValueKind")]


def c31_project(e):
    return {"k": e["k"]}


def C31(ctx):
    q = ctx.quick
    # ---- S
    r = tlc("ManifestText", "MCManifestLex", workers=4, timeout=600)
    tlc_must_pass(r, "MCManifestLex", required_actions=["Compile1", "Compile2", "Diag", "Pretty"])
    ctx.add_tlc(r)

    if ctx.replay_path:
        rp = json.load(open(ctx.replay_path))["replay"]
        p = ctx.wpath("replay.ndjson")
        if "case" in rp:
            write_ndjson(p, [rp["case"]])
            _, out = vh(BIN, ["lex", "run", "threads=1"], stdin_path=p)
        else:
            write_ndjson(p, [{"text": rp["text"]}])
            _, out = vh(BIN, ["lex", "text", "threads=1"], stdin_path=p)
        evs = [json.loads(l) for l in out.splitlines()]
        bad = validate_calls("ManifestText", "TraceManifestLex", [c31_project(e) for e in evs], "c31r", chunks=1)
        for b in bad:
            ctx.violation(c31_key(evs[b], rp.get("case", {}).get("term", "?")), "replayed text still violates: %s" % json.dumps(evs[b])[:300], rp)
        os.unlink(p)
        ctx.sample({"replayed": rp, "outcome": evs[0]})
        return {"rule": "replay of one stored text", "distinct_nontrivial": 1}

    # ---- G: TLC-enumerated token sequences x layouts
    if q:
        # nothing here depends on the seed except the random bulk: every alphabet element alone under the full
        # boundary-layout product, every pair touching the core alphabet, every core edit of every template
        runs = [("singles+core-pairs", dict(consts={"Mode": '"cross"', "R": 0})),
                ("template-edits-core", dict(consts={"Mode": '"tmpl"', "R": 1, "AlphaName": '"core"'})),
                # CALL_METHOD Address(..) "f" ; edited with the FULL alphabet: every phrase / literal as argument,
                # address, method name (reaches every generator error class the alphabet has)
                ("call-template-edits-full", dict(consts={"Mode": '"tmpl"', "R": 0, "TemplateSet": "{2}"})),
                ("random-6", dict(consts={"K": 6, "R": 1, "Rand": "TRUE"}, simulate=20, depth=7, seed=ctx.seed))]
    else:
        runs = [("pairs-full", dict(consts={"K": 2, "R": 2})),
                ("singles+core-pairs", dict(consts={"Mode": '"cross"', "R": 0})),
                ("triples-core", dict(consts={"K": 3, "R": 1, "AlphaName": '"core"'})),
                ("template-edits-full", dict(consts={"Mode": '"tmpl"', "R": 2})),
                ("random-6", dict(consts={"K": 6, "R": 1, "Rand": "TRUE"}, simulate=3000, depth=7, seed=ctx.seed))]
    cases, alphabet, per_run = [], None, {}
    for name, kw in runs:
        g = tlc("ManifestText", "GenManifestLex", workers=8, coverage=False, timeout=1500, **kw)
        if not g.ok:
            raise ToolError("GenManifestLex %s failed: %s" % (name, g.out[-1500:]))
        b = g.printed("B")
        per_run[name] = len(b)
        cases += b
        alphabet = g.printed("A")[0]
        del g
    cases = dedupe(cases)
    if len(cases) < 1000:
        raise ToolError("too few C31 cases generated")
    cp, ep = ctx.wpath("lex-cases.ndjson"), ctx.wpath("lex-events.ndjson")
    write_ndjson(cp, cases)
    vh(BIN, ["lex", "run", "threads=8"], stdin_path=cp, stdout_path=ep)
    evs = read_ndjson(ep)
    os.unlink(cp)
    os.unlink(ep)
    if len(evs) != len(cases):
        raise ToolError("harness returned %d events for %d cases" % (len(evs), len(cases)))
    # the regression family must really be in the case set (CRLF, error after line 1, each stage)
    fam = collections.Counter()
    stages = collections.Counter()
    ekinds = collections.Counter()
    bl = collections.Counter()       # boundary layout product actually exercised with an error on the payload line
    for c, e in zip(cases, evs):
        for k in e["ek"]:
            ekinds[k] += 1
        for st in set(e["st"]):
            stages[st] += 1
            if c["term"] == "CRLF" and e["el"] > 1 and st in ("L", "P", "G"):
                fam[st] += 1
        if len(c["names"]) == 1 and e["el"] >= 1:
            bl[(c["at"], c["term"], c["terms"][-1] != "")] += 1
    for st in ("L", "P", "G"):
        if fam[st] < 20:
            raise ToolError("regression family missing: CRLF + %s error after line 1 (%d cases)" % (st, fam[st]))
    if stages["ok"] < 20:
        raise ToolError("no successfully compiling cases generated")
    # every error class of the lexer and the parser, and the generator classes the alphabet can reach
    need = ["L:UnexpectedEof", "L:UnexpectedChar", "L:InvalidIntegerLiteral", "L:InvalidIntegerType", "L:InvalidInteger",
            "L:InvalidUnicode", "L:MissingUnicodeSurrogate",
            "P:UnexpectedEof", "P:UnexpectedToken", "P:InvalidArgument", "P:InvalidNumberOfValues", "P:InvalidNumberOfTypes",
            "P:UnknownEnumDiscriminator", "P:MaxDepthExceeded"] + C31_GENERATOR_KINDS
    missing = [k for k in need if ekinds[k] == 0]
    if missing:
        raise ToolError("error classes never produced by the case set: %s (seen: %s)" % (missing, sorted(ekinds)))
    want = {(at, t, last) for at in (1, 6, 7, 12) for t in ("LF", "CRLF", "CR", "MIX3", "MIX2", "LFCR") for last in (True, False)}
    if not want <= set(bl):
        raise ToolError("boundary layout product incomplete: missing %s" % sorted(want - set(bl))[:6])
    ctx.sample({"case": cases[0], "outcome": evs[0]})
    i_crlf = next(i for i, (c, e) in enumerate(zip(cases, evs)) if c["term"] == "CRLF" and e["el"] > 1 and "G" in e["st"])
    ctx.sample({"case": cases[i_crlf], "outcome": evs[i_crlf]})
    ctx.cov["traces_validated_against_impl"] += len(evs)
    hashes = {e["h"] for e in evs}

    # ---- T: mutation traffic from the repository's .rtm corpus: one round of ALL files per mutation kind, in
    #      the order CRLF, CRLF + damaged token, CRLF + damaged last token, CRLF + damaged first token, other
    #      endings, ... (the seed only drives positions and replacement tokens)
    files = rtm_corpus()
    n = len(files) * (5 if q else 72)
    mp, mo = ctx.wpath("lex-mut-in.json"), ctx.wpath("lex-mut-events.ndjson")
    with open(mp, "w") as f:
        f.write(json.dumps({"alphabet": alphabet, "files": files}) + "\n")
    margs = ["lex", "mutate", "seed=%d" % ctx.seed, "n=%d" % n, "threads=8"]
    vh(BIN, margs, stdin_path=mp, stdout_path=mo)
    lines = read_ndjson(mo)
    os.unlink(mo)
    meta, mev = lines[0]["meta"], lines[1:]
    if len(mev) != n or len(meta) != n:
        raise ToolError("mutation run incomplete")
    hows = collections.Counter(m[1] for m in meta)
    mstages = collections.Counter(st for e in mev for st in set(e["st"]))
    crlf_later = sum(1 for m, e in zip(meta, mev) if m[1].startswith("crlf") and e["el"] > 1)
    if crlf_later < 20 or mstages["ok"] < 20 or min(hows[k] for k in ("crlf", "crlf+token", "crlf+last-token", "crlf+first-token", "endings")) < len(files):
        raise ToolError("mutation traffic is degenerate (crlf later-line errors: %d, ok: %d, kinds: %s)" % (crlf_later, mstages["ok"], dict(hows)))
    ctx.sample({"mutant_kinds": dict(hows), "outcome_stages": dict(mstages), "example_outcome": mev[1]})
    ctx.cov["traces_validated_against_impl"] += len(mev)
    hashes |= {e["h"] for e in mev}

    # ---- one validation run: case outcomes, mutant outcomes, and the binding self-test (corrupted copies of
    #      recorded outcomes, which the Trace module must reject)
    good = [json.loads(json.dumps(c31_project(e))) for e in evs[:40]]
    good[3]["k"][2]["d"][1][0] = "panic"
    good[11]["k"][0]["same"] = False
    good[17]["k"][3]["c"][1] = "panic"
    good[23]["k"][1]["p"] = "panic"
    exp = [3, 11, 17, 23]
    if "err" in good[29]["k"][0]["c"]:
        good[29]["k"][0]["dsame"][0] = False
        exp.append(29)
    (bad, mbad), nrec = validate_parts(ctx, "ManifestText", "TraceManifestLex", [evs, mev], c31_project, "c31",
                                       forged=good, forged_expect=sorted(exp), chunks=1)
    nrec2 = 0
    if not q:
        validate_by_record(ctx, "ManifestText", "TraceManifestLex", evs, c31_project, "c31x", full_sample=20000)
    for b in bad[:40]:
        ctx.violation(c31_key(evs[b], cases[b]["term"]),
                      "tokens %s in layout at=%d term=%s: outcome %s" % (cases[b]["names"], cases[b]["at"], cases[b]["term"], json.dumps(evs[b])[:400]),
                      {"case": cases[b], "outcome": evs[b]})
    for b in mbad[:40]:
        _, out = vh(BIN, margs + ["only=%d" % b], stdin_path=mp)
        t = json.loads(out)
        ctx.violation(c31_key(mev[b], "CRLF" if "\r\n" in t["text"] else ("CR" if "\r" in t["text"] else "LF")),
                      "mutant (%s) of %s: outcome %s" % (t["how"], t["file"], json.dumps(mev[b])[:400]),
                      {"text": t["text"], "file": t["file"], "how": t["how"], "outcome": mev[b]})
    os.unlink(mp)

    return {"exhaustive": False, "distinct_nontrivial": len(hashes),
            "cases_per_generator": per_run, "distinct_outcome_records": nrec + nrec2,
            "regression_family_crlf_later_line": dict(fam), "stages": dict(stages), "error_classes": dict(ekinds),
            "mutants": n, "corpus_files": len(files),
            "rule": "token sequences (<= 6 tokens over a %d-element alphabet incl. malformed literals and non-ASCII) enumerated by TLC "
                    "(every single element under the full product payload line 1/6/7/12 x 6 terminator styles x terminated/unterminated "
                    "last line; all pairs%s, all single edits of %d instruction templates, seeded random length-6 sequences), each rendered by the "
                    "spec in 3 fixed layouts (LF single line; CRLF with the payload on line 7 of 12; CRLF spread over the last lines; "
                    "templates and singles also CRLF line 6 of 12 and mixed line 6 of 6) "
                    "plus rotating layouts out of 672 (1/6/12 lines x payload line 1/6/7/12 x LF/CRLF/CR/LFCR/mixed x fillers), compiled for "
                    "all 4 manifest kinds twice with diagnostics in both styles twice under catch_unwind; plus %d seeded byte-/token-/"
                    "line-ending mutants of the %d .rtm files of the repository; every recorded outcome validated by "
                    "TraceManifestLex (OutcomeOk); distinct = distinct texts compiled" %
                    (len(alphabet), " touching the 28-element core alphabet" if q else ", and all triples of the core alphabet",
                     21, n, len(files))}

# =============================================================================================
# C30

C30_ACTIONS = ["NTake", "NBucketOp", "NProofNew", "NProofOp", "NNoArg", "NAssert", "NAllocate", "NVerify",
               "NCall", "NCallFunction", "NYield"]
ESC_KEY = "object name needs escaping"


def c30_project(e):
    """what the TLA+ law looks at (free-text diagnostics and the decompiled text are dropped)"""
    def part(p):
        return {k: v for k, v in p.items() if k not in ("msg", "text", "class", "kind")}
    o = {"per": [part(p) for p in e["per"]]}
    for k in ("exp", "names", "dec_exp", "depth"):
        if k in e:
            o[k] = e[k]
    return o


def special_chars(s):
    """the characters of a spec string (with ~XXXXXX notation) that are not plain printable ASCII letters / digits /
    space / underscore / '#' / ';' - as notation tokens"""
    out, i = set(), 0
    while i < len(s):
        if s[i] == "~" and i + 7 <= len(s) and all(ch in "0123456789ABCDEF" for ch in s[i + 1:i + 7]):
            out.add(s[i:i + 7])
            i += 7
        else:
            if not (s[i].isalnum() or s[i] in " _#;"):
                out.add(s[i])
            i += 1
    return out


def c30_detail(c, vtab):
    """names the argument classes of the failing case's last instruction (stable part of the violation key)"""
    vs, chars = set(), set()

    def walk(x):
        if x["t"] == "String":
            chars.update(special_chars(x["s"]))
        elif not x["k"]:
            vs.add(vtab.get((x["t"], x["s"])) or x["t"])
        for ch in x["k"]:
            walk(ch)
    for a in c["ins"][-1]["args"]:
        walk(a)
    d = ""
    if vs:
        d += "; argument leaves " + ",".join(sorted(vs))[:120]
    if chars:
        d += "; string characters " + " ".join(sorted(chars))[:80]
    return d


def c30_what(e):
    for p in e["per"]:
        if p.get("src", "ok") != "ok":
            if p["src"] == "panic":
                return "source compile panic"
            continue
        if p["dec"] != "ok":
            return "decompile " + p["dec"]
        if p.get("comp") != "ok":
            return "compile of decompiled text: %s %s" % (p.get("comp"), p.get("class", ""))
        for f in ("eq_ins", "eq_blobs", "eq_children", "eq_pre", "fix", "eq_names", "eq", "eq_bytes"):
            if not p.get(f):
                return "not identical (%s)" % f
    return "names differ from expectation"


def shape_set(*ranges):
    """TLC cfg constant: an explicit finite set of shape numbers"""
    return "{" + ", ".join(str(i) for lo, hi in ranges for i in range(lo, hi + 1)) + "}"


ALL_OPS = ["TakeFromWorktop", "TakeNonFungiblesFromWorktop", "TakeAllFromWorktop", "ReturnToWorktop", "BurnResource",
           "AssertWorktopContainsAny", "AssertWorktopContains", "AssertWorktopContainsNonFungibles", "AssertWorktopResourcesOnly",
           "AssertWorktopResourcesInclude", "AssertNextCallReturnsOnly", "AssertNextCallReturnsInclude", "AssertBucketContents",
           "CreateProofFromBucketOfAmount", "CreateProofFromBucketOfNonFungibles", "CreateProofFromBucketOfAll",
           "CreateProofFromAuthZoneOfAmount", "CreateProofFromAuthZoneOfNonFungibles", "CreateProofFromAuthZoneOfAll", "CloneProof",
           "DropProof", "PushToAuthZone", "PopFromAuthZone", "DropAuthZoneProofs", "DropAuthZoneRegularProofs",
           "DropAuthZoneSignatureProofs", "DropNamedProofs", "DropAllProofs", "CallFunction", "CallMethod", "CallRoyaltyMethod",
           "CallMetadataMethod", "CallRoleAssignmentMethod", "CallDirectVaultMethod", "AllocateGlobalAddress", "YieldToParent",
           "YieldToChild", "VerifyParent"]


def C30(ctx):
    q = ctx.quick
    nleaves, nwraps = 191, 10            # asserted by MCManifestAst (ShapeLaws) and against the printed variant table below
    nshapes = nleaves * (1 + nwraps + nwraps * nwraps)
    # the depth-boundary leaves (Nest 10/16/17/18/18/19) are the last 6 leaves: their singly and doubly
    # wrapped shapes (depth 19 / 20 / 21 around the SBOR limit) are contiguous index ranges
    nest_single = (nleaves + (nleaves - 6) * nwraps + 1, nleaves + nleaves * nwraps)
    nest_double = (nleaves * (1 + nwraps) + (nleaves - 6) * nwraps * nwraps + 1, nshapes)
    # ---- S: the manifest state machine against independent well-formedness statements + law predicate.
    # quick: S and the structural generator are ONE TLC run (MCManifestAst extends the generator; the
    # invariants are evaluated on exactly the states that are printed); coverage statistics are
    # switched off there - that every instruction kind occurs is checked on the printed cases.
    if q:
        lo = 1 + (ctx.seed * 37) % (nshapes - 200)
        runs = [("struct-2+S", dict(module="MCManifestAst", cfg="MCGenManifestAst", consts={"K": 2})),
                # every leaf (all value kinds, numeric / decimal extremes, odd strings, empty composites) and the
                # complete wrapped depth-boundary family, plus a seeded window of ordinary wrapped shapes
                ("args-leaves+depth-boundary+window", dict(consts={"Mode": '"args"', "ShapeSet": shape_set((1, nleaves), nest_single, nest_double, (lo, lo + 149))})),
                ("args-with-objects", dict(consts={"Mode": '"args"', "ShapeSet": shape_set((1, 1), (1 + lo % 1000, 50 + lo % 1000)), "Prefixed": "TRUE"})),
                ("random-4", dict(consts={"Mode": '"rand"', "K": 4}, simulate=80, depth=5, seed=ctx.seed))]
    else:
        r = tlc("ManifestText", "MCManifestAst", workers=8, timeout=1500, consts={"K": 3})
        tlc_must_pass(r, "MCManifestAst", required_actions=C30_ACTIONS)
        ctx.add_tlc(r)
        runs = [("struct-3", dict(consts={"K": 3})),
                ("args-all-shapes", dict(consts={"Mode": '"args"', "ShapeSet": shape_set((1, nshapes))})),
                ("args-with-objects", dict(consts={"Mode": '"args"', "ShapeSet": shape_set((1, 3000), nest_single, nest_double), "Prefixed": "TRUE"})),
                ("random-5", dict(consts={"Mode": '"rand"', "K": 5}, simulate=6000, depth=6, seed=ctx.seed)),
                ("escaped-names", dict(consts={"Mode": '"esc"', "K": 2}))]
    # Each generator run is streamed: TLC output -> case file -> harness -> event file, read back line by
    # line; only aggregates are kept (one representative per distinct outcome record), so that the
    # thorough tier (half a million cases) stays within a few hundred MB.
    import hashlib
    groups = collections.OrderedDict()      # (run, projected record) -> [count, first case, first event]
    per_run, ops, kinds = {}, collections.Counter(), collections.Counter()
    ok_rt, total, distinct_h = 0, 0, set()
    reservoir, sample_pairs = [], []
    vtab, required_variants, variants, name_chars, string_chars = None, set(), collections.Counter(), set(), set()

    def walk(x):
        v = vtab.get((x["t"], x["s"])) or {"NamedAddress": "Address:Named", "Address": "Address:Static"}.get(x["t"], x["t"])
        variants[v] += 1
        if x["t"] == "String":
            string_chars.update(special_chars(x["s"]))
        for ch in x["k"]:
            walk(ch)
    cp, ep = ctx.wpath("rt-cases.ndjson"), ctx.wpath("rt-events.ndjson")
    for name, kw in runs:
        kw = dict(kw)
        module = kw.pop("module", "GenManifestAst")
        g = tlc("ManifestText", module, workers=8, coverage=False, timeout=2400, heap="6g", **kw)
        if not g.ok:
            if module == "MCManifestAst":
                sys.stderr.write(g.out[-4000:])
                raise ToolError("TLC run failed for MCManifestAst (violated=%s)" % g.violated)
            raise ToolError("GenManifestAst %s failed: %s" % (name, g.out[-1500:]))
        if module == "MCManifestAst":
            ctx.add_tlc(g)
        if vtab is None:
            vt = g.printed("V")[0]
            if len(vt["table"]) != nleaves:
                raise ToolError("leaf table has %d entries, driver assumes %d" % (len(vt["table"]), nleaves))
            vtab = {(x["t"], x["s"]): x["v"] for x in vt["table"]}
            required_variants = set(vt["required"])
        seen, n = set(), 0
        with open(cp, "w") as f:
            for line in g.out.splitlines():
                if line.startswith('<<"B", "') and line.endswith('">>'):
                    text = json.loads(line[7:-2])          # the JSON text TLC printed (still a string)
                    h = hashlib.md5(text.encode()).digest()
                    if h not in seen:
                        seen.add(h)
                        f.write(text + "\n")
                        n += 1
        del g, seen
        per_run[name] = n
        if n == 0:
            raise ToolError("GenManifestAst %s printed no case" % name)
        vh(BIN, ["rt", "run", "threads=4"], stdin_path=cp, stdout_path=ep)
        m = 0
        with open(cp) as fc, open(ep) as fe:
            for cl, el in zip(fc, fe):
                c, e = json.loads(cl), json.loads(el)
                m += 1
                total += 1
                for i in c["ins"]:
                    ops[i["op"]] += 1
                    for a_ in i["args"]:
                        walk(a_)
                for cl_ in ("buckets", "proofs", "resv", "addrs", "intents"):
                    for nm_ in c["given"].get(cl_, []):
                        name_chars.update((cl_, ch_) for ch_ in special_chars(nm_))
                for p_ in e["per"]:
                    kinds[p_.get("kind")] += 1
                    if p_.get("comp") == "ok" and p_.get("eq"):
                        ok_rt += 1
                distinct_h.add(hashlib.md5(json.dumps([c["fam"], c["pre"], c["children"], c["ins"]], sort_keys=True).encode()).digest()[:8])
                pr = c30_project(e)
                key = ("escaped-names" if c["names"] in ("quote", "backslash", "newline") or c["names"].startswith("ch") else name,
                       json.dumps(pr, sort_keys=True))
                gq = groups.get(key)
                if gq is None:
                    groups[key] = [1, c, e]
                else:
                    gq[0] += 1
                if not q:       # reservoir of raw records for the per-event cross-check
                    if len(reservoir) < 5000:
                        reservoir.append(pr)
                    elif ctx.rng.random() < 5000.0 / total:
                        reservoir[ctx.rng.randrange(5000)] = pr
                if len(sample_pairs) < 2 and (not sample_pairs or (len(c["ins"]) >= 2 and any(i2["args"] for i2 in c["ins"]))):
                    sample_pairs.append({"case": c, "outcome": e})
        if m != n:
            raise ToolError("harness returned %d events for %d cases (%s)" % (m, n, name))
        os.unlink(cp)
        os.unlink(ep)
    if total < 2000:
        raise ToolError("too few C30 cases generated")
    # non-vacuity of the generated set
    missing = [o for o in ALL_OPS if ops[o] == 0]
    if missing:
        raise ToolError("instruction kinds never generated: %s" % missing)
    if any(kinds[k] == 0 for k in ("V1", "SystemV1", "V2", "SubintentV2")):
        raise ToolError("a manifest kind was never built: %s" % dict(kinds))
    if ok_rt < 1000:
        raise ToolError("hardly any manifest round-tripped: harness or generator broken")
    # every variant of every manifest custom value kind occurred as an argument (list printed by the spec)
    lacking = sorted(v for v in required_variants if variants[v] == 0)
    if lacking:
        raise ToolError("custom value variants never used as an argument: %s" % lacking)
    # every special character (C0, DEL, C1, backslash, quote, separators, astral) alone in a string value and in a
    # name of every object class
    wanted = {"~%06X" % n for n in list(range(0, 32)) + [127] + list(range(128, 160)) + [0x2028, 0x2029, 0x1F600, 0x10FFFF]} | {"\\", '"'}
    if not wanted <= string_chars:
        raise ToolError("special characters never put into a string value: %s" % sorted(wanted - string_chars)[:8])
    for cl_ in ("buckets", "proofs", "resv", "addrs", "intents"):
        got_ = {ch_ for c2, ch_ in name_chars if c2 == cl_}
        if not wanted <= got_:
            raise ToolError("special characters never put into a %s name: %s" % (cl_, sorted(wanted - got_)[:8]))
    keys = list(groups)
    if not any(k[0] == "escaped-names" for k in keys):
        raise ToolError("escaped-name family missing")
    depths = {groups[k][2]["depth"] for k in keys}
    if not {19, 20} <= depths:
        raise ToolError("depth-boundary family missing (argument depths seen: %s)" % sorted(depths))
    for sp_ in sample_pairs:
        ctx.sample(sp_)
    ctx.cov["traces_validated_against_impl"] += total
    ctx.cov["evaluations"] += total

    # ---- T: repository corpus (.rtm) and, thorough, the executed transaction scenarios
    files = rtm_corpus()
    fp = ctx.wpath("rt-files.json")
    with open(fp, "w") as f:
        f.write(json.dumps({"files": files}) + "\n")
    _, out = vh(BIN, ["rt", "corpus"], stdin_path=fp)
    os.unlink(fp)
    cev = [json.loads(l) for l in out.splitlines()]
    if len(cev) != len(files):
        raise ToolError("corpus run incomplete")
    compiled = sum(1 for e in cev for p in e["per"] if p["src"] == "ok")
    if compiled < 1500:
        raise ToolError("only %d (file, kind) pairs of the corpus compile" % compiled)
    sev = []
    if not q:
        sp = ctx.wpath("rt-scen.ndjson")
        vh(BIN, ["rt", "scenarios"], stdout_path=sp, timeout=3000)
        sev = read_ndjson(sp)
        os.unlink(sp)
        if len(sev) < 100:
            raise ToolError("scenario run produced only %d transactions" % len(sev))
    tev = cev + sev
    tgroups = collections.OrderedDict()
    for i, e in enumerate(tev):
        tgroups.setdefault(json.dumps(c30_project(e), sort_keys=True), []).append(i)
    tkeys = list(tgroups)
    ctx.sample({"corpus_file": cev[0]["file"], "outcome": cev[0]})
    ctx.cov["traces_validated_against_impl"] += len(tev)
    ctx.cov["evaluations"] += len(tev)

    # ---- one validation run: generated-case records, corpus / scenario records, and the binding
    #      self-test (forged copies of accepted-looking records, which must be rejected)
    recs = [json.loads(k[1]) for k in keys]
    trecs = [json.loads(k) for k in tkeys]
    forged = [json.loads(k[1]) for k in keys if groups[k][2]["dec_exp"] == "ok" and groups[k][2]["names"] == "default"
              and groups[k][2]["depth"] <= 19 and all(p_.get("eq") for p_ in groups[k][2]["per"])][:12]
    if len(forged) < 12:
        raise ToolError("not enough accepted records for the self-test")
    forged[1]["per"][0]["eq_ins"] = False
    forged[3]["per"][-1]["eq"] = False
    forged[5]["per"][0]["comp"] = "err"
    forged[7]["exp"]["buckets"] = forged[7]["exp"]["buckets"] + ["bucket99"]
    forged[9]["per"][0]["fix"] = False
    forged[10]["per"][0]["dec"] = "panic"
    allrecs = recs + trecs + forged
    allbad = validate_calls("ManifestText", "TraceManifestAst", allrecs, "c30", chunks=max(1, min(8, len(allrecs) // 400)))
    n1, n2 = len(recs), len(recs) + len(trecs)
    bad_recs = [b for b in allbad if b < n1]
    tbad = [b - n1 for b in allbad if n1 <= b < n2]
    got = [b - n2 for b in allbad if b >= n2]
    if got != [1, 3, 5, 7, 9, 10]:
        raise ToolError("binding self-test failed: rejected %s" % got)
    nrec, nrec2 = len(recs), len(trecs)
    if reservoir:
        b2 = validate_calls("ManifestText", "TraceManifestAst", reservoir, "c30-s", chunks=8)
        badset = {keys[b][1] for b in bad_recs}
        if any(json.dumps(reservoir[i], sort_keys=True) not in badset for i in b2):
            raise ToolError("per-record and per-event validation disagree")
    nviol = collections.Counter()
    for b in bad_recs:
        name, _ = keys[b]
        cnt, c, e = groups[keys[b]]
        if name == "escaped-names":
            key = ESC_KEY
        else:
            key = "round trip: %s (last instruction %s%s)" % (c30_what(e), c["ins"][-1]["op"], c30_detail(c, vtab))
        nviol[key] += cnt
        ctx.violation(key, "manifest %s names=%s (%d cases with this outcome): %s" % ([i["op"] for i in c["ins"]], c["names"], cnt, c30_what(e)),
                      {"case": c, "outcome": e})
    for b in tbad[:20]:
        i = tgroups[tkeys[b]][0]
        e = tev[i]
        ctx.violation("round trip of %s: %s" % ("corpus file" if i < len(cev) else "scenario manifest", c30_what(e)),
                      "%s: %s" % (e["file"], c30_what(e)), {"source": e["file"], "outcome": e})

    distinct = len(distinct_h)
    return {"exhaustive": False, "distinct_nontrivial": distinct, "cases_per_generator": per_run,
            "distinct_outcome_records": nrec + nrec2, "round_trips_identical": ok_rt,
            "instruction_kinds_generated": len(ops), "corpus_files": len(files), "corpus_pairs_compiled": compiled,
            "scenario_transactions": len(sev), "violations_by_key": dict(nviol),
            "rule": "manifests generated by TLC from the ManifestAst state machine (instruction sequences up to length %d over all %d "
                    "instruction kinds, guarded by the bucket/proof/reservation lifecycle; one call-like instruction x argument shapes "
                    "out of a %d-entry table of value trees (every value kind, numeric and decimal extremes, odd strings, custom "
                    "kinds, up to two nested wrappers, depth-boundary nests) alone and next to / around objects; seeded random "
                    "sequences; object names default / plain / non-ASCII / unknown / needing escapes), each built as real manifest "
                    "objects of every applicable kind (V1+SystemV1, SystemV1 with preallocated addresses, V2+SubintentV2 with children), "
                    "decompiled and compiled with the same network and blob provider, compared by ==, per component, manifest_encode "
                    "bytes, object names against the specification's expectation and decompile fix-point; outcomes validated by "
                    "TraceManifestAst; plus compile->decompile->compile of the %d .rtm files for all kinds%s; "
                    "distinct = distinct (header, instruction list) pairs" %
                    (2 if q else 3, len(ops), nshapes, len(files),
                     "" if q else " and the manifests of all %d executed scenario transactions" % len(sev))}

# =============================================================================================
# C23

def C23(ctx):
    q = ctx.quick
    r = tlc("SborSchema", "MCSborSchema", workers=8, timeout=2400, consts={"Heavy": "FALSE" if q else "TRUE"})
    tlc_must_pass(r, "MCSborSchema", required_actions=["GInit", "GNext"])
    ctx.add_tlc(r)
    universe = int(r.printed_raw("U")[0])
    # ---- G: schema pairs from TLC, verdicts from the real comparison
        # all single edits of all 16 bases in both tiers (this is the boundary product: every validation bound
    # in {none, 0..3} x lower / upper x kind, every variant / field / reference edit); the double edits are
    # the bulk: a 1/40 sample in quick, half of them in thorough
    runs = [("single-edits", {"Depth": 1, "Sample": 1}), ("double-edits", {"Depth": 2, "Sample": 40 if q else 2})]
    pairs, per_run = [], {}
    for name, consts in runs:
        g = tlc("SborSchema", "GenSborSchema", workers=8, coverage=False, timeout=2400, consts=consts)
        if not g.ok:
            raise ToolError("GenSborSchema %s failed: %s" % (name, g.out[-1500:]))
        b = g.printed("B")
        per_run[name] = len(b)
        pairs += b
    pairs = dedupe(pairs)
    if len(pairs) < 575:
        raise ToolError("too few schema pairs")
    pp = ctx.wpath("schema-pairs.ndjson")
    write_ndjson(pp, pairs)
    _, out = vh(BIN, ["schema", "compare"], stdin_path=pp)
    os.unlink(pp)
    evs = [json.loads(l) for l in out.splitlines()]
    if len(evs) != len(pairs):
        raise ToolError("compare returned %d events for %d pairs" % (len(evs), len(pairs)))
    # ---- TLC decides: reported extension / equality must be sound over the payload universe
    proj = [{k: e[k] for k in ("base", "new", "schemas_valid", "eq", "ext", "eqn", "extn")} for e in evs]
    # binding self-test in the same validation run: "valid extension" claimed for pairs the real comparison
    # rejected - appended after the real records
    rej = [json.loads(json.dumps(p)) for p, e in zip(proj, evs) if e["ext"] == "invalid" and e["extn"] == "invalid" and e["eq"] == "invalid"][:24]
    for p in rej:
        p["ext"] = "valid"
    # Pairs are validated in groups sharing the base schema (the set of payloads the base accepts is then
    # computed once per group by TLC); a rejected group is re-validated pair by pair to find the culprit.
    from concurrent.futures import ThreadPoolExecutor

    def groups_of(idx_list, size):
        by_base = collections.OrderedDict()
        for i in idx_list:
            by_base.setdefault(json.dumps(allp[i]["base"], sort_keys=True), []).append(i)
        out = []
        for _, idx in by_base.items():
            for a in range(0, len(idx), size):
                out.append(idx[a:a + size])
        return out
    allp = proj + rej
    grp = groups_of(range(len(proj)), 12) + [[len(proj) + j] for j in range(len(rej))]
    gev = [{"base": allp[g[0]]["base"], "news": [{k: allp[i][k] for k in ("new", "schemas_valid", "eq", "ext", "eqn", "extn")} for i in g]} for g in grp]
    P = 8
    buckets = [list(range(b, len(gev), P)) for b in range(P)]

    def run_bucket(b):
        if not buckets[b]:
            return []
        bb = validate_calls("SborSchema", "TraceSborSchema", [gev[i] for i in buckets[b]], "c23-%d" % b, chunks=1, timeout=3000, heap="2g")
        return [buckets[b][x] for x in bb]
    with ThreadPoolExecutor(max_workers=P) as ex:
        badg = sorted(x for r_ in ex.map(run_bucket, range(P)) for x in r_)
    suspects = [i for g in badg for i in grp[g]]
    allbad = []
    if suspects:
        sb = validate_calls("SborSchema", "TraceSborSchema", [allp[i] for i in suspects], "c23-p", chunks=4, timeout=3000, heap="2g")
        allbad = sorted(suspects[x] for x in sb)
        if {g for g in badg} != {gi for gi, g in enumerate(grp) if any(i in set(allbad) for i in g)}:
            raise ToolError("grouped and pairwise validation disagree")
    bad = [b for b in allbad if b < len(proj)]
    got = [b for b in allbad if b >= len(proj)]
    ctx.cov["evaluations"] += len(evs)
    ctx.cov["traces_validated_against_impl"] += len(evs)

    def edit_summary(e):
        return {"base_kinds": [d["k"] for d in e["base"]["s"]], "new_kinds": [d["k"] for d in e["new"]["s"]],
                "verdicts": {k: e[k] for k in ("eq", "ext", "eqn", "extn")}}
    for b in bad[:30]:
        e = evs[b]
        what = "reported equal" if "valid" in (e["eq"], e["eqn"]) else "reported valid extension"
        def bp(d):
            return {(False, False): "unbounded", (True, False): "lower only", (False, True): "upper only", (True, True): "both bounds"}[(d["lo"]["some"], d["hi"]["some"])]
        b0, n0 = e["base"]["s"][0], e["new"]["s"][0]
        detail = ", %s -> %s" % (bp(b0), bp(n0)) if b0["k"] == n0["k"] and b0["k"] in ("U8", "String", "Array", "Map") else ""
        ctx.violation("unsound verdict: %s (root kind %s%s)" % (what, e["base"]["s"][0]["k"], detail),
                      "%s but the payload sets differ: %s" % (what, json.dumps(edit_summary(e))),
                      {"pair": {"base": e["base"], "new": e["new"]}, "verdicts": edit_summary(e)["verdicts"]})
    stats = collections.Counter()
    for e in evs:
        if "panic" in (e["eq"], e["ext"], e["eqn"], e["extn"]):
            stats["comparison_panicked"] += 1
        if e["eq"] == "valid":
            stats["reported_equal"] += 1
        elif e["ext"] == "valid":
            stats["reported_extension_only"] += 1
        elif "valid" in (e["eqn"], e["extn"]):
            stats["valid_only_with_name_changes_allowed"] += 1
        else:
            stats["reported_invalid"] += 1
    if min(stats["reported_equal"], stats["reported_extension_only"], stats["reported_invalid"]) < 20:
        raise ToolError("verdict classes degenerate: %s" % dict(stats))
    ctx.sample({"pair": {"base": evs[1]["base"], "new": evs[1]["new"]}, "verdicts": edit_summary(evs[1])["verdicts"]})
    k = next(i for i, e in enumerate(evs) if e["ext"] == "valid" and e["eq"] == "invalid")
    ctx.sample({"pair": {"base": evs[k]["base"], "new": evs[k]["new"]}, "verdicts": edit_summary(evs[k])["verdicts"]})
    pk = [e for e in evs if "panic" in (e["eq"], e["ext"], e["eqn"], e["extn"])]
    if pk:
        ctx.sample({"comparison_panic_example": edit_summary(pk[0]), "note": "a panicking comparison reports nothing; not a soundness violation"})
    if len(got) < len(rej) // 3:
        raise ToolError("binding self-test failed: only %d of %d forged verdicts rejected" % (len(got), len(rej)))
    nontrivial = sum(1 for e in evs if "valid" in (e["eq"], e["ext"], e["eqn"], e["extn"]))
    return {"exhaustive": True, "distinct_nontrivial": nontrivial, "pairs": len(pairs), "pairs_per_generator": per_run,
            "verdict_classes": dict(stats), "payload_universe": universe, "forged_verdicts_rejected": "%d/%d" % (len(got), len(rej)),
            "rule": "schema pairs enumerated by TLC: 32 base schemas (tuples, enums, arrays, maps, strings, validated U8, nested, shared, "
                    "recursive types, well-known leaves; plus the validation family: U8 / String / Array / Map roots with each bound independently absent / present, whose edits replace both bounds by every combination of none/0/1/2/3) x all single edits and %s double edits (add / remove / renumber variants, add / remove / "
                    "swap fields, widen / narrow / drop / add validations, redirect child references, replace types by Any / Bool / U8 / "
                    "unit / array, rename types / fields / variants, append unreachable types); both real schemas built and validated, "
                    "compare_single_type_schemas run with require_equality() and allow_extension() (also with all name changes allowed); "
                    "for every reported valid extension TLC checks Valid(old) => Valid(new), for every reported equality Valid(old) <=> "
                    "Valid(new), over the complete bounded payload universe (every value tree of <= 3 nodes plus 4-node chains / triples / length ladders of 0..5 elements / "
                    "two-cell lists); distinct = pairs with at least one 'valid' verdict" % ("a 1/40 sample of" if q else "half of all")}


# =============================================================================================
# C22

OWN_KEY = "typed decode laxer than schema: Own entity type"


def c22_project(e):
    return {k: e[k] for k in ("schema", "root", "origin", "tree", "has_tree", "validator", "typed", "roundtrip")}


def C22(ctx):
    q = ctx.quick
    r = tlc("SborSchema", "MCSborSchema", workers=8, timeout=2400, consts={"Heavy": "FALSE" if q else "TRUE"})
    tlc_must_pass(r, "MCSborSchema", required_actions=["GInit", "GNext"])
    ctx.add_tlc(r)

    # ---- G: (schema, value, Valid) cases from TLC against the real payload validator
    # quick: (a) all 16 bases and ALL their validation-bound edits, with every valid value and every near miss
    # (value rejected only by a bound) - the boundary product, independent of the seed; (b) bulk: all edits of the
    # bases of one residue class, invalid values sampled.  thorough: all edits of all bases.
    if q:
        gruns = [{"EditSet": '"val"', "Stride": 150, "Off": ctx.seed % 150},
                 {"BaseMod": 4, "BaseRem": ctx.seed % 4, "Stride": 90, "Off": ctx.seed % 90}]
    else:
        gruns = [{"BaseMod": 1, "BaseRem": 0, "Stride": 25, "Off": ctx.seed % 25}]
    consts = gruns[-1]
    cases = []
    for gc in gruns:
        g = tlc("SborSchema", "GenSborValid", workers=8, coverage=False, timeout=2400, heap="6g", consts=gc)
        if not g.ok:
            raise ToolError("GenSborValid failed: %s" % g.out[-1500:])
        cases += g.printed("B")
        del g
    cases = dedupe(cases)
    nvalid = sum(1 for c in cases if c["exp"])
    if len(cases) < 3000 or nvalid < 500 or len(cases) - nvalid < 500:
        raise ToolError("degenerate validator cases: %d cases, %d valid" % (len(cases), nvalid))
    cp = ctx.wpath("valid-cases.ndjson")
    write_ndjson(cp, cases)
    _, out = vh(BIN, ["schema", "validate"], stdin_path=cp)
    done = None
    for line in out.splitlines():
        o = json.loads(line)
        if "mismatch" in o:
            c = cases[o["b"]]
            ctx.violation("validator verdict differs from Valid (%s, root kind %s)" % (o["mismatch"], c["schema"][0]["k"]),
                          "schema %s value %s: specification says %s, validate_payload_against_schema says %s" %
                          (json.dumps([d["k"] for d in c["schema"]]), json.dumps(c["x"])[:200], o["exp"], o["got"]), {"case": c, "mismatch": o})
        if "done" in o:
            done = o
    if done is None or done["done"] != len(cases):
        raise ToolError("validator replay did not complete")
    ctx.cov["evaluations"] += len(cases)
    ctx.cov["traces_validated_against_impl"] += len(cases)
    ctx.sample({"validator_case": cases[0]})
    # binding self-test (G): a wrong expected verdict must be reported
    forged = [json.loads(json.dumps(c)) for c in cases[:20]]
    forged[4]["exp"] = not forged[4]["exp"]
    forged[11]["exp"] = not forged[11]["exp"]
    write_ndjson(cp, forged)
    _, out2 = vh(BIN, ["schema", "validate"], stdin_path=cp)
    os.unlink(cp)
    mm = sorted(json.loads(l)["b"] for l in out2.splitlines() if "mismatch" in json.loads(l))
    if mm != [4, 11]:
        raise ToolError("binding self-test (validator cases) failed: %s" % mm)

    # ---- T: engine types: built values (+ harvested event payloads, thorough) and their mutants
    sp, ep = ctx.wpath("schemas.ndjson"), ctx.wpath("type-events.ndjson")
    vh(BIN, ["schema", "types", "seed=%d" % ctx.seed, "mutants=%d" % (10 if q else 300), "harvest=%d" % (0 if q else 1), "schemas=" + sp],
       stdout_path=ep, timeout=3000)
    lines = read_ndjson(ep)
    os.unlink(ep)
    end, evs = lines[-1], lines[:-1]
    if not end.get("end") or end["types"] < 20:
        raise ToolError("type run incomplete: %s" % end)
    # one validation run: all distinct event records + the binding self-test (forged verdicts on encoded values)
    enc0 = [e for e in evs if e["origin"] == "encoded"]
    forged = [json.loads(json.dumps(c22_project(e))) for e in enc0[:10]]
    forged[2]["validator"] = "err"
    forged[5]["roundtrip"] = False
    forged[7]["tree"]["k"] = "Bool" if forged[7]["tree"]["k"] != "Bool" else "U8"
    (bad,), nrec = validate_parts(ctx, "SborSchema", "TraceSborSchema", [evs], c22_project, "c22", forged=forged, forged_expect=[2, 5, 7],
                                  timeout=3000, heap="3g", env={"SCHEMAS": sp})
    nviol = collections.Counter()
    for b in bad:
        e = evs[b]
        if e["origin"] == "mutant" and e["typed"] == "ok" and e["validator"] == "err" and e["tree"]["k"] == "Own":
            key = OWN_KEY
        else:
            key = "type %s (%s payload): validator=%s typed=%s roundtrip=%s" % (e["type"], e["origin"], e["validator"], e["typed"], e["roundtrip"])
        nviol[key] += 1
        if nviol[key] <= 2:
            ctx.violation(key, "%s %s payload of %d bytes: validator %s, typed decode %s, value tree %s" %
                          (e["type"], e["origin"], e["size"], e["validator"], e["typed"], json.dumps(e["tree"])[:200]), {"event": e})
    enc = [e for e in evs if e["origin"] == "encoded"]
    kinds = set()

    def walk(t):
        kinds.add(t["k"])
        for c in t["c"]:
            walk(c)
    for e in enc:
        walk(e["tree"])
    need = {"Bool", "I8", "I16", "I32", "I64", "I128", "U8", "U16", "U32", "U64", "U128", "String", "Tuple", "Enum", "Array", "Map",
            "Reference", "Own", "Decimal", "PreciseDecimal", "NonFungibleLocalId"}
    if not need <= kinds:
        raise ToolError("value kinds never produced: %s" % sorted(need - kinds))
    schemas = read_ndjson(sp)
    vkinds = {(d["k"], d["lo"]["some"] or d["hi"]["some"], d["cv"]) for s_ in schemas for d in s_["defs"]}
    if not any(k == "Array" and b for k, b, _ in vkinds) or not any(cv for _, _, cv in vkinds):
        raise ToolError("no length / custom validation among the engine schemas")
    mut = collections.Counter((e["untyped"], e["validator"], e["typed"]) for e in evs if e["origin"] == "mutant")
    if mut[("ok", "ok", "ok")] < 50 or mut[("ok", "err", "err")] < 20 or mut[("err", "err", "err")] < 50:
        raise ToolError("mutant classes degenerate: %s" % dict(mut))
    ctx.sample({"type_event": {k: enc[3][k] for k in ("type", "origin", "validator", "typed", "roundtrip", "size")}, "tree": enc[3]["tree"]})
    ctx.sample({"mutant_classes(untyped,validator,typed)": {"/".join(k): v for k, v in mut.items()}})
    ctx.cov["traces_validated_against_impl"] += len(evs)
    os.unlink(sp)
    distinct = len({json.dumps(c22_project(e), sort_keys=True) for e in evs}) + len(cases)
    return {"exhaustive": False, "distinct_nontrivial": distinct, "validator_cases": len(cases), "validator_cases_expected_valid": nvalid,
            "engine_types": end["types"], "encoded_values": len(enc), "mutants": len(evs) - len(enc),
            "distinct_type_event_records": nrec, "payloads_over_size_cap": end["skipped_large"], "violations_by_key": dict(nviol),
            "rule": "G: for %d small schemas (all 16 bases with all their validation-bound edits; all other single edits for %s) every universe "
                    "value the specification says is valid, every value rejected only by a validation bound, plus a rotating 1/%d sample of the others, encoded as real basic SBOR payloads and judged by "
                    "validate_payload_against_schema - verdict must equal Valid; T: %d engine / Scrypto types (addresses, Own wrappers, "
                    "decimals, ids, keys and hashes with length validation, access rules, metadata values, vault substates, consensus "
                    "config, events, fee structures, std composites, a struct with every primitive kind), their generated schemas "
                    "exported by the harness, %d built%s values encoded -> untyped value tree, validator verdict, typed decode round "
                    "trip, and per value the deterministic boundary mutants (one byte short / long, each of the first 8 bytes +-1) plus %d seeded mutants; TraceSborSchema recomputes Valid: encoded values valid and round-tripping, "
                    "typed-decode Ok => Valid, validator verdict = Valid; distinct = distinct event records + validator cases" %
                    (len({json.dumps(c["schema"], sort_keys=True) for c in cases}), "the bases of one residue class mod 4" if q else "all bases",
                     consts["Stride"], end["types"], len(enc),
                     "" if q else " and scenario-harvested", 10 if q else 300)}



PROPS = {
    "C22": dict(fn=C22, level="exploration", design_ref="5/C22",
                technique="TLA+ spec SborSchema: Valid(schema, type, value tree) checked by TLC on a bounded universe, bound to the real "
                          "payload validator by TLC-generated cases, and used by a trace module to judge encode / validate / typed-decode "
                          "records of engine types and their mutants",
                text="SborSchema defines the satisfaction relation between schemas (type kinds, numeric / length / custom validations) "
                     "and untyped value trees. TLC checks its laws on a bounded universe and emits (schema, value, verdict) cases that "
                     "the harness replays against validate_payload_against_schema with real schemas and payloads (spec -> impl). For a "
                     "list of engine types the harness exports the generated Scrypto schema with its own exporter, encodes built (and, "
                     "thorough, scenario-harvested) values, decodes them untyped into value trees, records the validator verdict and the "
                     "typed-decode round trip, and the same for seeded mutants; TraceSborSchema recomputes Valid and requires: encoded "
                     "values valid and round-tripping, typed decode Ok implies Valid, validator verdict equals Valid (impl -> spec).",
                note="Level exploration: values of engine types are built / harvested / mutated, not enumerated; the model-checked part "
                     "is the relation itself and its agreement with the validator on small schemas. Trusted: TLC, the harness schema "
                     "exporter and value-tree projection (byte arrays summarised as length / min / max), typed-decoders of the listed "
                     "types only. Payloads above 2 KB are skipped for the TLA+ evaluation (counted). Typed references are checked only "
                     "statically (as the validator without a type-info lookup does)."),
    "C23": dict(fn=C23, level="model_checking", design_ref="5/C23",
                technique="TLA+ spec SborSchema: TLC-enumerated schema pairs, verdicts of the real schema comparison checked by TLC "
                          "against payload validity over a complete bounded payload universe",
                text="SborSchema defines schemas (type kinds, validations, names) and the satisfaction relation Valid(schema, type, "
                     "value tree). TLC enumerates base schemas and edited schemas; the harness builds both as real sbor schemas, "
                     "checks validate_schema, runs compare_single_type_schemas under require_equality() and allow_extension() and "
                     "returns the verdicts; a trace module then evaluates, for each reported valid extension / equality, the promised "
                     "inclusion / equality of accepted payload sets over every value tree of the bounded universe. Valid itself is "
                     "bound to the real payload validator by C22 and checked here against laws (closed intervals, unknown discriminators, "
                     "element kinds, Any).",
                note="Trusted: TLC, the harness schema builder (JSON -> SchemaV1<NoCustomSchema>). Only the basic (no custom kinds) "
                     "schema flavour and single-root comparisons are driven; custom Scrypto validations (reference / own kinds) are "
                     "compared by code not exercised here. A comparison that panics (observed: allow_extension with an enum replaced by "
                     "Any) reports nothing and is counted, not failed: the statement is about reported verdicts."),
    "C30": dict(fn=C30, level="model_checking", design_ref="5/C30",
                technique="TLA+ spec ManifestText (abstract syntax layer): TLC-generated manifests built as real objects, "
                          "decompile -> compile round trip recorded and validated by a TLA+ trace module; corpus and scenario manifests",
                text="The abstract-syntax layer of the ManifestText specification is a state machine with one action per manifest "
                     "instruction kind whose guards are the object lifecycle rules of the compiler (declared before use, consumed "
                     "objects are gone, buckets with live proofs are locked), a table of manifest SBOR value shapes, headers "
                     "(preallocated addresses, child subintents, blobs) and object naming styles. TLC checks the machine against "
                     "independent well-formedness statements, then enumerates manifests; the harness builds each as a real "
                     "TransactionManifestV1 / SystemTransactionManifestV1 / TransactionManifestV2 / SubintentManifestV2 from direct "
                     "instruction structs, decompiles it, compiles the text with the same network and blobs and records equality "
                     "(==, per component, encoded bytes), the resulting object names and the decompile fix-point; the TLA+ law "
                     "decides. The repository's .rtm corpus and (thorough) the executed scenario transactions go through the same loop.",
                note="Trusted: TLC, the harness concretisation table (symbolic atoms -> concrete addresses/decimals/ids) and its "
                     "equality projections. Static addresses always carry a valid entity type (others cannot be decoded from a "
                     "transaction); arguments that are not a tuple are expected to be refused by the decompiler; manifests deeper "
                     "than the SBOR depth limit are only required to round-trip when manifest_encode accepts them. Sequence length "
                     "is bounded (2 quick / 3 thorough exhaustive, 4-5 random)."),
    "C31": dict(fn=C31, level="model_checking", design_ref="5/C31",
                technique="TLA+ spec ManifestText (lexical layer): TLC-enumerated token sequences x line layouts compiled by the real "
                          "manifest compiler, outcomes validated by a TLA+ trace module; .rtm corpus mutation traffic",
                text="The lexical layer of the ManifestText specification defines the token alphabet (instruction and type names, "
                     "punctuation, well-formed and malformed literals, non-ASCII characters), line layouts with every terminator "
                     "style, and the property as a predicate over the recorded outcome (compile returns Ok or Err for each of the "
                     "four manifest kinds, an Err renders to a string in both diagnostic styles, repeated calls agree, nothing "
                     "panics). TLC checks the predicate on the complete universe of recordable outcomes and the layout laws, then "
                     "enumerates token sequences and layouts; the harness renders each case, runs compile_any_manifest and "
                     "compile_error_diagnostics under catch_unwind and logs outcome classes; TraceManifestLex decides. The case "
                     "set provably contains CRLF texts with lexer, parser and generator errors after line 1 (the input class "
                     "that panicked before commit d898a9283f).",
                note="Trusted: TLC, the harness rendering (join with spaces, terminator table, ~XXXXXX expansion) and "
                     "catch_unwind (stack overflows or aborts would kill the harness and surface as a tool error). The blob "
                     "provider is empty; network is the simulator. Texts are bounded to 6 alphabet elements (some of them "
                     "multi-token phrases) plus fillers, and mutants of real manifests; arbitrary long random strings are not covered."),
}

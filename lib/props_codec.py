"""Codec column: KeyMapper (C16), Sbor (C20, C21), Bech32m / Ids (C28).

Harness binary: vh_codec (harness/src/bin/vh_codec/*).  Specifications: spec/KeyMapper, spec/Sbor,
spec/Bech32m, spec/Ids."""
import copy, json, os
from concurrent.futures import ThreadPoolExecutor
import core
from core import tlc, tlc_must_pass, vh, ToolError, write_ndjson, read_ndjson, validate_trace, validate_calls

BIN = "vh_codec"


# ---------------------------------------------------------------------------------------------
# helpers (candidates for lib/core.py)

def validate_traces_parallel(spec_dir, module, paths, par=8, **kw):
    """validate_trace() on several independent stateful traces at once.
    Returns list of (accepted, first_unmatched_index) in the order of `paths`."""
    def run(p):
        ok, idx, _r = validate_trace(spec_dir, module, p, **kw)
        return ok, idx
    with ThreadPoolExecutor(max_workers=par) as ex:
        return list(ex.map(run, paths))


def validate_calls_why(spec_dir, module, cfg, events, name, chunks=12, timeout=3000, heap="3g"):
    """Like core.validate_calls, but the trace module additionally prints <<"WHY", l, {names of the failed
    conjuncts}>> for every BAD event.  Returns {global event index: [failed conjunct names]}."""
    import re
    n = len(events)
    if n == 0:
        return {}
    chunks = max(1, min(chunks, (n + 49) // 50))
    size = (n + chunks - 1) // chunks
    jobs = []
    for c in range(chunks):
        part = events[c * size:(c + 1) * size]
        if part:
            p = os.path.join(core.WORK, "%s-%d-calls-%d.ndjson" % (name, os.getpid(), c))
            write_ndjson(p, part)
            jobs.append((c * size, p, len(part)))

    def run(job):
        base, p, ln = job
        r = tlc(spec_dir, module, cfg=cfg, workers=1, env={"TRACE": p}, timeout=timeout, heap=heap, coverage=False, stack="1g")
        m = re.search(r'<<"DONE", (\d+)>>', r.out)
        if not r.ok or not m or int(m.group(1)) != ln:
            import sys
            sys.stderr.write(r.out[-4000:])
            raise ToolError("call-trace validation of %s (%s) did not complete: consumed %s of %d events" % (module, cfg, m and m.group(1), ln))
        bad = {base + int(x) - 1: [] for x in re.findall(r'<<"BAD", (\d+)>>', r.out)}
        for x, names in re.findall(r'<<"WHY", (\d+), \{([^}]*)\}>>', r.out):
            bad[base + int(x) - 1] = re.findall(r'"([^"]+)"', names)
        os.unlink(p)
        return bad

    res = {}
    with ThreadPoolExecutor(max_workers=min(len(jobs), 12)) as ex:
        for b in ex.map(run, jobs):
            res.update(b)
    return res


def split_on(events, pred):
    """cut a recording into independent traces at the events satisfying pred (dropped)."""
    chunks, cur = [], []
    for e in events:
        if pred(e):
            if cur:
                chunks.append(cur)
            cur = []
        else:
            cur.append(e)
    if cur:
        chunks.append(cur)
    return chunks


# ---------------------------------------------------------------------------------------------
# C16 KeyMapper

def _km_class(ev):
    """input class of a recorded mapper call (for stable violation keys / distinct counting)"""
    k = ev.get("k")
    if k == "panic":
        return "panic:%s" % ev.get("what")
    if k in ("map", "sorted"):
        n = len(ev["body"])
        return "%s:len%s" % (k, n if n <= 2 else ("le32" if n <= 32 else "long"))
    return k


def C16(ctx):
    q = ctx.quick
    # S: every hash function over a tiny domain x every mapper call; laws as invariants
    r = tlc("KeyMapper", "MCKeyMapper", workers=8, consts={"HL": 1 if q else 2})
    tlc_must_pass(r, "MCKeyMapper", required_actions=["MapNode", "MapField", "MapMap", "MapSorted"])
    ctx.add_tlc(r)
    # G': TLC enumerates the input classes, the harness fills them and records the real mapper
    g = tlc("KeyMapper", "GenKeyMapper", workers=1, coverage=False)
    classes = g.printed("B")
    if len(classes) < 1000:
        raise ToolError("GenKeyMapper produced only %d classes" % len(classes))
    cp = ctx.wpath("km-classes.ndjson")
    write_ndjson(cp, classes)
    tp = ctx.wpath("km-trace.ndjson")
    vh(BIN, ["keymapper", "record", "seed=%d" % ctx.seed, "reps=%d" % (3 if q else 100), "chunk=2000"],
       stdin_path=cp, stdout_path=tp)
    os.unlink(cp)
    evs = read_ndjson(tp)
    os.unlink(tp)
    chunks = split_on(evs, lambda e: e["k"] == "reset")
    if os.environ.get("VERIF_CORRUPT"):      # demonstration of binding: one corrupted field must make the check fail
        e = next(e for e in chunks[0] if e["k"] == "sorted" and len(e["body"]) > 0)
        e["db"][1] ^= 0x80
        core.log("VERIF_CORRUPT: flipped the top bit of the 2nd db-key byte of one recorded sorted call")
    ctx.sample({"class": classes[0]})
    for k in ("node", "map", "sorted"):
        s = next((e for e in chunks[0] if e["k"] == k and len(e.get("body", [])) <= 30), None)
        if s:
            ctx.sample({"call": s})
    # T: validate every chunk against the specification
    paths = []
    for i, c in enumerate(chunks):
        p = ctx.wpath("km-chunk-%d.ndjson" % i)
        write_ndjson(p, c)
        paths.append(p)
    res = validate_traces_parallel("KeyMapper", "TraceKeyMapper", paths, par=8 if q else 12)
    nev = 0
    for (ok, idx), c, p in zip(res, chunks, paths):
        nev += len(c)
        if ok:
            ctx.cov["traces_validated_against_impl"] += 1
        else:
            ev = c[idx - 1] if idx and idx <= len(c) else None
            ctx.violation("keymapper:%s" % (_km_class(ev) if ev else "trace"),
                          "SpreadPrefixKeyMapper call rejected by TraceKeyMapper at event %s: %s" % (idx, json.dumps(ev)[:300]),
                          {"trace_module": "TraceKeyMapper", "first_unmatched": idx, "context": c[max(0, (idx or 1) - 3):(idx or 1)]})
    ctx.cov["evaluations"] += nev
    # binding self-test: corrupt one recorded field of an accepted chunk -> must be rejected at that event
    if all(ok for ok, _ in res):
        def usable(c):
            return (any(e["k"] == "map" for e in c) and any(e["k"] == "node" for e in c)
                    and any(e["k"] == "sorted" and e["ord"] and c[i - 1]["p"] != e["p"] for i, e in enumerate(c)))
        base = min((c for c in chunks if usable(c)), key=len, default=None)
        if base is None:
            raise ToolError("binding self-test: no chunk with all event kinds")
        muts = []
        i_s = next(i for i, e in enumerate(base) if e["k"] == "sorted" and len(e["body"]) > 0)
        m = copy.deepcopy(base); m[i_s]["db"][5] ^= 1; muts.append(("sorted db byte flipped", m, i_s + 1))
        i_m = next(i for i, e in enumerate(base) if e["k"] == "map")
        m = copy.deepcopy(base); m[i_m]["back"] = m[i_m]["back"] + [0]; muts.append(("map from_db result extended", m, i_m + 1))
        i_o = next(i for i, e in enumerate(base) if e["k"] == "sorted" and e["ord"] and base[i - 1]["p"] != e["p"])
        m = copy.deepcopy(base); m[i_o - 1], m[i_o] = m[i_o], m[i_o - 1]; m[i_o - 1]["ord"] = base[i_o - 1]["ord"]; m[i_o]["ord"] = True
        muts.append(("two keys swapped in database order", m, None))
        i_n = next(i for i, e in enumerate(base) if e["k"] == "node")
        m = copy.deepcopy(base); m.insert(i_n + 1, dict(copy.deepcopy(base[i_n]), body=base[i_n]["body"][:29] + [base[i_n]["body"][29] ^ 1],
                                                        back=base[i_n]["body"][:29] + [base[i_n]["body"][29] ^ 1], h=base[i_n]["h"]))
        m[i_n + 1]["db"] = base[i_n]["db"]
        muts.append(("two node ids sharing one db key", m, i_n + 2))
        i_r = next(i for i, e in enumerate(base) if e["k"] == "sorted" and e["p"][0] != e["p"][1])
        m = copy.deepcopy(base); m[i_r]["alt"][0][0], m[i_r]["alt"][0][1] = m[i_r]["alt"][0][1], m[i_r]["alt"][0][0]
        muts.append(("by-reference entry point with the sort prefix bytes swapped", m, i_r + 1))
        mpaths = []
        for j, (_, m, _) in enumerate(muts):
            p = ctx.wpath("km-mut-%d.ndjson" % j)
            write_ndjson(p, m)
            mpaths.append(p)
        mres = validate_traces_parallel("KeyMapper", "TraceKeyMapper", mpaths, par=4)
        for (what, _, at), (ok, idx), p in zip(muts, mres, mpaths):
            os.unlink(p)
            if ok or (at is not None and idx != at):
                raise ToolError("binding self-test failed: %s accepted / rejected elsewhere (idx=%s, expected %s)" % (what, idx, at))
    for p in paths:
        os.unlink(p)
    distinct = len({json.dumps([e["k"], e.get("p"), e.get("body"), e.get("f"), e.get("pn")]) for e in evs if e["k"] != "reset"})
    return {"exhaustive": False, "distinct_nontrivial": distinct,
            "hash_functions_enumerated": r.actions["Init"][0], "input_classes": len(classes),
            "entry_points_per_key": "to_db_sort_key, to_db_sort_key_from_ref, field/map/sorted_to_db_sort_key, to_db_partition_key, to_db_node_key, "
                                    "to_db_partition_num and the inverses from_db_sort_key::<K>, from_db_sort_key_to_inner::<K>, "
                                    "field/map/sorted_from_db_sort_key, from_db_partition_key, from_db_node_key, from_db_partition_num",
            "rule": "S: TLC enumerates every hash function [bodies of length <= 2 over {0,1} -> %d hash byte(s)] and every "
                    "node/field/map/sorted mapper call; round trip, injectivity per key kind and the sort-prefix order law are "
                    "invariants. T: %d input classes enumerated by GenKeyMapper (all entity-type bytes x partition numbers, all 256 "
                    "field keys, body length classes 0..1024 x relation to the previous body {fresh, same, prefix, extension, "
                    "starts-with-a-hash} x 10 boundary sort prefixes) x seeded random fill, each mapped by the real "
                    "SpreadPrefixKeyMapper and validated by TraceKeyMapper in independent traces of ~2000 calls incl. a listing of "
                    "the sorted keys in database order; distinct = distinct logical keys mapped" % (1 if q else 2, len(classes))}


# ---------------------------------------------------------------------------------------------
# C20 / C21 Sbor

# which replay mismatch kinds / trace conjuncts belong to which property
_G_KINDS = {
    "C20": {"value not constructible", "encoded bytes", "decoded value", "re-encoded bytes", "encodable value does not decode",
            "decode verdict (invalid content)", "decode verdict@64"},
    "C21": {"encode verdict", "decode verdict", "traverse verdict", "traverser depth", "traverse verdict at depth limit 0"},
}


def _sbor_key(what, f=None, d=None, cls=None):
    """stable violation key: input class / call site, never the concrete input"""
    if what in ("traverse verdict at depth limit 0",) or (what == "trav" and d == 0):
        return "sbor:depth-limit-0:traverser-accepts-root"
    if what in ("encodable value does not decode",) or (what == "roundtrip" and (cls or "").startswith("invalid-custom")):
        return "sbor:%s:invalid-custom-content-encodes" % (f or "manifest")
    c = (cls or "G").split(":")
    c = ":".join(c[:2]) if c[0] in ("mut", "nest", "invalid-custom") else c[0]
    return "sbor:%s:%s:%s" % (f or "any", c, what.replace(" ", "-"))


class _Viol:
    """one ctx.violation per key (first witness + count)"""
    def __init__(self, ctx):
        self.ctx, self.seen = ctx, {}

    def add(self, key, what, replay):
        if key in self.seen:
            self.seen[key] += 1
            return
        self.seen[key] = 1
        self.ctx.violation(key, what, replay)


def _sbor_replay(ctx, prop, viol, module, mode, consts, workers=8):
    """S + G in one TLC run: the Gen module extends the MC module (all its invariants are checked) and prints
    every state with the specification's expectations; the harness replays them into the real codec."""
    g = tlc("Sbor", module, workers=workers, coverage=False, consts=consts, timeout=3000)
    tlc_must_pass(g, module)
    ctx.add_tlc(g)
    cases = g.printed("B")
    if len(cases) != g.distinct:
        raise ToolError("%s printed %d cases for %d states" % (module, len(cases), g.distinct))
    p = ctx.wpath(module + ".ndjson")
    write_ndjson(p, cases)
    rc, out = vh(BIN, ["sbor", mode, "kinds=" + ",".join(k.replace(" ", "_") for k in sorted(_G_KINDS[prop]))], stdin_path=p)
    os.unlink(p)
    done = None
    for line in out.splitlines():
        o = json.loads(line)
        if "done" in o:
            done = o
        elif "counts" in o:
            ctx.cov.setdefault("replay_mismatch_counts", {}).update({"%s: %s" % (module, k): v for k, v in o["counts"].items()})
        elif "mismatch" in o:
            what = o["mismatch"]
            if True:
                c = cases[o["b"]]
                viol.add(_sbor_key(what, c["f"]), "%s: %s at depth limit %s: spec %s, code %s; case %s" % (
                    module, what, o["step"], json.dumps(o["exp"])[:120], json.dumps(o["got"])[:120], json.dumps(c)[:300]),
                    {"module": module, "case": c, "depth_limit": o["step"], "mismatch": o})
    if done is None or done["done"] != len(cases):
        raise ToolError("replay of %s did not complete" % module)
    ctx.cov["traces_validated_against_impl"] += len(cases)
    ctx.cov["evaluations"] += done["steps"]
    return cases, g


def _sbor_selftest_g(ctx, prop, vcases, bcases):
    """a wrong expectation must be reported by the harness"""
    v = copy.deepcopy(next(c for c in vcases if c["wk"] and c["cv"] and c["depth"] == 2))
    b = copy.deepcopy(next(c for c in bcases if c["acc"][-1] and not c["acc"][1]))
    if prop == "C20":
        v["enc"][-1] ^= 1
        b["v"][0] = {"t": "bool", "v": True}
        want = [("replayv", v, "encoded bytes"), ("replayb", b, "decoded value")]
    else:
        v["depth"] += 1
        b["acc"][1] = True
        want = [("replayv", v, "encode verdict"), ("replayb", b, "traverse verdict")]
    for mode, case, kind in want:
        p = ctx.wpath("selftest-g.ndjson")
        write_ndjson(p, [case])
        rc, out = vh(BIN, ["sbor", mode], stdin_path=p)
        os.unlink(p)
        if not any(json.loads(l).get("mismatch") == kind for l in out.splitlines()):
            raise ToolError("binding self-test (G) failed: corrupted expectation '%s' not reported" % kind)


def _sbor_trace(ctx, prop, viol, n, chunks):
    tp = ctx.wpath("sbor-trace.ndjson")
    vh(BIN, ["sbor", "record", "seed=%d" % ctx.seed, "n=%d" % n], stdout_path=tp)
    evs = read_ndjson(tp)
    os.unlink(tp)
    if any(len(e["b"]) > 340 for e in evs):
        raise ToolError("recorded payload longer than the TLA+ evaluation bound")
    if os.environ.get("VERIF_CORRUPT"):      # demonstration of binding: one corrupted field must make the check fail
        e = next(e for e in evs if e["k"] == "bytes" and e["dec64"] and e["cls"] == "random" and e["d"] == 64)
        if prop == "C20":
            e["re"][-1] ^= 1
        else:
            e["trav"] = False
        core.log("VERIF_CORRUPT: corrupted %s of one recorded 'random' payload event" % ("the re-encoded bytes" if prop == "C20" else "the traverser verdict"))
    # binding self-test: corrupted copies of accepted events, appended to the recording; each must be BAD for the expected reason
    by = lambda pred: copy.deepcopy(next(e for e in evs if pred(e)))
    muts = []
    if prop == "C20":
        e = by(lambda e: e["k"] == "bytes" and e["dec64"] and len(e["b"]) > 6); e["dec64"] = False; muts.append((e, "decode-accepts-exactly-the-format"))
        e = by(lambda e: e["k"] == "bytes" and e["dec64"] and len(e["b"]) > 6); e["re"][-1] ^= 1; muts.append((e, "reencode-identical"))
        e = by(lambda e: e["k"] == "bytes" and not e["dec64"] and e["cls"].startswith("mut")); e["dec64"] = True; e["re"] = e["b"]; muts.append((e, "decode-accepts-exactly-the-format"))
        e = by(lambda e: e["k"] == "val" and e["enc"] and len(e["b"]) > 4); e["b"][3] ^= 1; muts.append((e, "encoded-bytes"))
        e = by(lambda e: e["k"] == "val" and e["enc"] and e["dec"]); e["back"] = [{"t": "tup", "e": [e["back"][0]]}]; muts.append((e, "roundtrip"))
    else:
        e = by(lambda e: e["k"] == "bytes" and e["dec64"] and e["trav"] and e["d"] > 0); e["trav"] = False; muts.append((e, "trav"))
        e = by(lambda e: e["k"] == "bytes" and e["dec64"] and not e["dec"] and e["d"] > 0); e["dec"] = True; muts.append((e, "dec"))
        e = by(lambda e: e["k"] == "bytes" and e["dec64"] and e["d"] > 0); e["tdepth"] += 1; muts.append((e, "tdepth"))
        e = by(lambda e: e["k"] == "bytes" and e["dec64"] and not e["enc"] and e["d"] > 0); e["enc"] = True; muts.append((e, "enc"))
        e = by(lambda e: e["k"] == "bytes"); e["peak"] = 1 << 30; muts.append((e, "alloc"))
        e = by(lambda e: e["k"] == "bytes"); e["panic"] = True; muts.append((e, "panic"))
        e = by(lambda e: e["k"] == "val" and not e["enc"] and e["cls"].startswith("nest")); e["enc"] = True; muts.append((e, "enc"))
    all_evs = evs + [m for m, _ in muts]
    bad = validate_calls_why("Sbor", "TraceSbor", "TraceSbor" + prop, all_evs, "%s-sbor" % prop, chunks=chunks)
    for j, (m, reason) in enumerate(muts):
        if reason not in bad.get(len(evs) + j, []):
            raise ToolError("binding self-test (T) failed: corrupted event not rejected for '%s' (got %s)" % (reason, bad.get(len(evs) + j)))
    for i in sorted(bad):
        if i >= len(evs):
            continue
        e = evs[i]
        for why in bad[i]:
            viol.add(_sbor_key(why, e["f"], e.get("d"), e.get("cls")),
                     "TraceSbor(%s): conjunct '%s' fails on recorded %s event (class %s, flavour %s, depth limit %s): %s" % (
                         prop, why, e["k"], e.get("cls"), e["f"], e.get("d"), json.dumps({k: e[k] for k in e if k not in ("v", "back")})[:400]),
                     {"trace_module": "TraceSbor", "cfg": "TraceSbor" + prop, "event": e, "failed_conjuncts": bad[i]})
    ctx.cov["traces_validated_against_impl"] += chunks
    ctx.cov["evaluations"] += len(evs)
    return evs


def _sbor(ctx, prop):
    q = ctx.quick
    viol = _Viol(ctx)
    if prop == "C20":
        vconst = {"MaxNodes": 4, "MaxDepth": 3} if q else {"MaxNodes": 5, "MaxDepth": 4}
        bconst = {"MaxLen": 3 if q else 4}
    else:
        vconst = {"MaxNodes": 3, "MaxDepth": 3} if q else {"MaxNodes": 4, "MaxDepth": 4}
        bconst = {"MaxLen": 3 if q else 4}
    import time
    t0 = time.time()
    vcases, gv = _sbor_replay(ctx, prop, viol, "GenSborV", "replayv", vconst)
    core.log("GenSborV + replay: %d cases, %.1fs" % (len(vcases), time.time() - t0)); t0 = time.time()
    bcases, gb = _sbor_replay(ctx, prop, viol, "GenSborB", "replayb", bconst)
    core.log("GenSborB + replay: %d cases, %.1fs" % (len(bcases), time.time() - t0)); t0 = time.time()
    # non-vacuity of the explored universes (every wrap action / verdict class must occur)
    kinds = {c["v"]["t"] for c in vcases}
    need = [("all value forms", kinds >= {"bool", "int", "str", "arr", "tup", "enum", "map", "cust"}),
            ("ill-kinded values", any(not c["wk"] for c in vcases)), ("invalid custom content", any(not c["cv"] for c in vcases)),
            ("values of depth 3", any(c["depth"] >= 3 for c in vcases)),
            ("accepted payloads of depth >= 3", any(c["acc"][-1] and not c["acc"][2] for c in bcases)),
            ("payloads accepted at limit 1", any(c["acc"][1] for c in bcases)),
            ("rejected payloads", any(not c["acc"][-1] for c in bcases)),
            ("all flavours", {c["f"] for c in vcases} == {c["f"] for c in bcases} == {"basic", "scrypto", "manifest"})]
    for what, ok in need:
        if not ok:
            raise ToolError("vacuous Sbor universe: no %s" % what)
    _sbor_selftest_g(ctx, prop, vcases, bcases)
    ctx.sample({"value_case": next(c for c in vcases if c["depth"] == 3 and len(json.dumps(c)) < 600)})
    ctx.sample({"bytes_case": next(c for c in bcases if c["acc"][-1] and len(c["b"]) >= 5)})
    evs = _sbor_trace(ctx, prop, viol, 8000 if q else 100000, 8 if q else 12)
    # the deterministic boundary families must all be present (never subsampled, also in the quick tier)
    fams = {e["cls"] for e in evs if e["cls"].startswith("boundary:")} | {e["cls"].split(":")[0] for e in evs}
    need = {"boundary:root-kind", "boundary:element-kind", "boundary:size", "boundary:bool", "boundary:utf8", "boundary:custom-fixed",
            "boundary:nf-id", "boundary:nf-char", "boundary:address-entity-byte", "boundary:address-shape", "nest", "huge-length",
            "huge-length-nested", "invalid-custom", "mut", "random", "ill-kinded"}
    if not need <= fams:
        raise ToolError("recorded SBOR traffic lacks families %s" % sorted(need - fams))
    core.log("TraceSbor: %d events, %.1fs" % (len(evs), time.time() - t0))
    ctx.sample({"trace_event": next(e for e in evs if e["k"] == "bytes" and e["cls"].startswith("mut") and len(e["b"]) < 40)})
    ctx.sample({"trace_event": next(e for e in evs if e["k"] == "bytes" and e["cls"].startswith("nest") and e["d"] == 2)})
    accepted = sum(1 for c in bcases if c["acc"][-1])
    distinct = (len({json.dumps([c["f"], c["v"]], sort_keys=True) for c in vcases})
                + len({json.dumps([c["f"], c["b"]]) for c in bcases})
                + len({json.dumps([e["k"], e["f"], e["b"], e.get("d")]) for e in evs}))
    return {"exhaustive": False, "distinct_nontrivial": distinct,
            "value_trees": len(vcases), "byte_strings": len(bcases), "byte_strings_accepted": accepted,
            "trace_events": len(evs), "trace_payloads_accepted": sum(1 for e in evs if e["k"] == "bytes" and e["dec64"]),
            "violation_counts": dict(viol.seen),
            "rule": "S+G: TLC explores every value tree built by wrapping boundary leaves (%s, 3 flavours incl. ill-kinded arrays/maps "
                    "and invalid custom content) and every extension by up to %d bytes (13-14 interesting bytes per flavour) of 12 seeds (empty payload and open nestings of every container kind), checks the "
                    "laws of Sbor.tla as invariants and prints each state with Enc / Depth / Accept under the limits 0..5,64 / Dec; the "
                    "harness builds the real sbor::Value, runs the real encoder, decoder and VecTraverser under those limits and compares. "
                    "T: seeded traffic of the real codec (nesting exactly at d-1, d, d+1 for d in {0,1,2,64} x every container kind, "
                    "huge declared lengths on every header, random value trees up to 40 nodes of the three flavours, their payloads and "
                    "1-4 mutants each: bit flips, truncations, size rewrites, kind swaps, prefix swaps) validated event by event by "
                    "TraceSbor (TLA+ re-parses every payload <= 340 bytes).  distinct = distinct value trees + distinct byte strings + "
                    "distinct recorded (kind, flavour, payload, limit)" % (json.dumps(vconst), bconst["MaxLen"])}


def C20(ctx):
    return _sbor(ctx, "C20")


def C21(ctx):
    return _sbor(ctx, "C21")


# ---------------------------------------------------------------------------------------------
# C28 Bech32m / Ids

def _replay_simple(ctx, viol, spec_dir, module, mode, consts, keyprefix, workers=8):
    g = tlc(spec_dir, module, workers=workers, coverage=False, consts=consts, timeout=3000)
    tlc_must_pass(g, module)
    ctx.add_tlc(g)
    cases = g.printed("B")
    if len(cases) != g.distinct:
        raise ToolError("%s printed %d cases for %d states" % (module, len(cases), g.distinct))
    p = ctx.wpath(module + ".ndjson")
    write_ndjson(p, cases)
    rc, out = vh(BIN, ["ids", mode], stdin_path=p)
    os.unlink(p)
    done = None
    for line in out.splitlines():
        o = json.loads(line)
        if "done" in o:
            done = o
        elif "mismatch" in o:
            c = cases[o["b"]]
            viol.add("%s:%s:%s" % (keyprefix, c.get("mut", "text"), o["mismatch"].replace(" ", "-")),
                     "%s: %s: spec %s, code %s; case %s" % (module, o["mismatch"], json.dumps(o["exp"])[:120], json.dumps(o["got"])[:120], json.dumps(c)[:300]),
                     {"module": module, "case": c, "mismatch": o})
    if done is None or done["done"] != len(cases):
        raise ToolError("replay of %s did not complete" % module)
    ctx.cov["traces_validated_against_impl"] += len(cases)
    ctx.cov["evaluations"] += done["steps"]
    return cases


def C28(ctx):
    import time
    q = ctx.quick
    viol = _Viol(ctx)
    t0 = time.time()
    acases = _replay_simple(ctx, viol, "Bech32m", "GenBech32m", "replayaddr", {"MaxTail": 1 if q else 2}, "bech32m")
    core.log("GenBech32m + replay: %d cases, %.1fs" % (len(acases), time.time() - t0)); t0 = time.time()
    icases = _replay_simple(ctx, viol, "Ids", "GenIds", "replayids", {"MaxLen": 2 if q else 3}, "ids")
    core.log("GenIds + replay: %d cases, %.1fs" % (len(icases), time.time() - t0)); t0 = time.time()
    muts_seen = {c["mut"] for c in acases}
    if muts_seen != {"none", "subst", "upper", "mixed", "hrpswap", "othernet", "drop"}:
        raise ToolError("vacuous Bech32m universe: mutations explored = %s" % sorted(muts_seen))
    forms_seen = {c["id"][0]["f"] for c in icases if c["ok"]}
    if forms_seen != {"str", "int", "bytes", "ruid"} or not any(not c["ok"] for c in icases):
        raise ToolError("vacuous Ids universe: accepted forms = %s" % sorted(forms_seen))
    if not any(c["ok"] for c in acases if c["mut"] == "upper") or any(c["ok"] for c in acases if c["mut"] in ("subst", "mixed", "hrpswap", "othernet")):
        raise ToolError("Bech32m universe: unexpected verdict distribution")
    # binding self-test (G): wrong expectations must be reported
    a = copy.deepcopy(next(c for c in acases if c["mut"] == "none")); a["text"][-1] = 113 if a["text"][-1] != 113 else 112
    i1 = copy.deepcopy(next(c for c in icases if c["ok"] and c["id"][0]["f"] == "int")); i1["id"][0]["b"][-1] ^= 1
    i2 = copy.deepcopy(next(c for c in icases if not c["ok"] and len(c["s"]) > 2)); i2["ok"] = True
    for mode, case, kind in (("replayaddr", a, "encoded text"), ("replayids", i1, "parsed id"), ("replayids", i2, "parse verdict")):
        p = ctx.wpath("selftest-g.ndjson")
        write_ndjson(p, [case])
        rc, out = vh(BIN, ["ids", mode], stdin_path=p)
        os.unlink(p)
        if not any(json.loads(l).get("mismatch") == kind for l in out.splitlines()):
            raise ToolError("binding self-test (G) failed: corrupted expectation '%s' not reported" % kind)
    ctx.sample({"address_case": next(c for c in acases if c["mut"] == "hrpswap")})
    ctx.sample({"id_case": next(c for c in icases if c["ok"] and c["id"][0]["f"] == "bytes")})
    # T
    tp = ctx.wpath("ids-trace.ndjson")
    vh(BIN, ["ids", "record", "seed=%d" % ctx.seed, "n=%d" % (500 if q else 40000)], stdout_path=tp)
    evs = read_ndjson(tp)
    os.unlink(tp)
    if os.environ.get("VERIF_CORRUPT"):      # demonstration of binding: one corrupted field must make the check fail
        e = next(e for e in evs if e["k"] == "addr" and e.get("encok"))
        e["others"][1]["ok"] = True
        core.log("VERIF_CORRUPT: one recorded address now claims to be accepted on another network")
    fams = {e.get("cls") for e in evs if e["k"] in ("text", "addr", "lid")}
    need = {"hrp-swap", "bech32-not-m", "nonzero-padding", "extra-group", "upper-hrp-only", "no-suffix-network", "upper", "substitute",
            "len0", "len1", "len29", "len31", "first0", "first255", "string:64", "string:65", "bytes:64", "bytes:65", "int:boundary", "int:2^64",
            "ruid:extra-hyphen-multibyte", "crafted", "from-id", "ruid:split-canonical", "ruid:missing-hyphen-1", "ruid:missing-hyphen-2",
            "ruid:missing-hyphen-3", "ruid:extra-hyphen", "ruid:hyphen-3-replaced", "ruid:hyphen-3-late", "ruid:hyphen-3-early", "ruid:hyphen-1-late",
            "ruid:65-hex", "ruid:63-hex"} | {"ruid:split:%d:%d:%d" % (a, b, c) for a in (-1, 0, 1) for b in (-1, 0, 1) for c in (-1, 0, 1) if (a, b, c) != (0, 0, 0)}
    if not need <= fams:
        raise ToolError("recorded address / id traffic lacks families %s" % sorted(need - fams))
    if not any(e["k"] == "lid" and e.get("cls") == "ruid:split-canonical" and e["r"]["ok"] for e in evs):
        raise ToolError("the canonical RUID split was not accepted by the code")
    if {tuple(e["sfx"]) for e in evs if e["k"] == "addr" and e.get("encok")} and len({(tuple(e["sfx"]), e["data"][0]) for e in evs if e["k"] == "addr" and e.get("encok") and len(e["data"]) == 30}) < 110:
        raise ToolError("recorded addresses do not cover every entity type on every network")
    by = lambda pred: copy.deepcopy(next(e for e in evs if pred(e)))
    muts = []
    e = by(lambda e: e["k"] == "addr" and e.get("encok") and not any(o["ok"] for o in e["others"])); e["text"][-2] = 113 if e["text"][-2] != 113 else 112; muts.append((e, "encoded-text"))
    e = by(lambda e: e["k"] == "addr" and e.get("encok") and not any(o["ok"] for o in e["others"])); e["others"][0]["ok"] = True; muts.append((e, "rejected-on-other-networks"))
    e = by(lambda e: e["k"] == "text" and not e["r"]["ok"] and e["cls"] == "hrp-swap"); e["r"]["ok"] = True; muts.append((e, "decode-text"))
    e = by(lambda e: e["k"] == "text" and e["r"]["ok"]); e["r"]["typed"]["global"] = not e["r"]["typed"]["global"]; muts.append((e, "decode-text"))
    e = by(lambda e: e["k"] == "lid" and e["r"]["ok"] and e["r"]["id"][0]["f"] == "int"); e["r"]["id"][0]["b"][7] ^= 1; muts.append((e, "parsed-id"))
    e = by(lambda e: e["k"] == "lid" and not e["r"]["ok"] and e["cls"] == "crafted" and len(e["s"]) > 3 and e["s"][0] == 35); e["r"]["ok"] = True; muts.append((e, "parse-verdict"))
    e = by(lambda e: e["k"] == "lid" and e["r"]["ok"]); e["r"]["bin"][-1] ^= 1; muts.append((e, "binary-form"))
    e = by(lambda e: e["k"] == "gid" and e["ok"]); e["res"][5] ^= 1; muts.append((e, "global-parsed"))
    e = by(lambda e: e["k"] == "tx"); e["forms"][0]["askind"][1] = True; muts.append((e, "tx"))
    e = by(lambda e: e["k"] == "lid"); e["panic"] = True; muts.append((e, "panic"))
    bad = validate_calls_why("Ids", "TraceIds", "TraceIds", evs + [m for m, _ in muts], "C28-ids", chunks=6 if q else 12)
    for j, (m, reason) in enumerate(muts):
        if reason not in bad.get(len(evs) + j, []):
            raise ToolError("binding self-test (T) failed: corrupted event not rejected for '%s' (got %s)" % (reason, bad.get(len(evs) + j)))
    for i in sorted(bad):
        if i < len(evs):
            e = evs[i]
            for why in bad[i]:
                viol.add("c28:%s:%s:%s" % (e["k"], (e.get("cls") or "-").split(":")[0], why),
                         "TraceIds: conjunct '%s' fails on recorded %s event (class %s): %s" % (why, e["k"], e.get("cls"), json.dumps(e)[:400]),
                         {"trace_module": "TraceIds", "event": e, "failed_conjuncts": bad[i]})
    ctx.cov["traces_validated_against_impl"] += 6 if q else 12
    ctx.cov["evaluations"] += len(evs)
    core.log("TraceIds: %d events, %.1fs" % (len(evs), time.time() - t0))
    for k in ("addr", "lid", "gid"):
        ctx.sample({"trace_event": next(e for e in evs if e["k"] == k)})
    kinds = {}
    for e in evs:
        kinds[e["k"]] = kinds.get(e["k"], 0) + 1
    distinct = (len({json.dumps([c["net"], c["text"]]) for c in acases}) + len({json.dumps(c["s"]) for c in icases})
                + len({json.dumps([e["k"], e.get("sfx"), e.get("text"), e.get("s"), e.get("data"), e.get("hash")]) for e in evs}))
    return {"exhaustive": False, "distinct_nontrivial": distinct, "address_cases": len(acases), "id_text_cases": len(icases),
            "id_texts_accepted": sum(1 for c in icases if c["ok"]), "trace_events": kinds, "violation_counts": dict(viol.seen),
            "rule": "S+G: TLC explores (a) 3 networks x 5 entity types x data parts of <= %d bytes after the entity byte and one mutation "
                    "each (every single-character substitution by 12 characters at every position, upper-casing, one letter upper-cased, "
                    "HRP of every other entity class with a recomputed checksum, other network, dropped character) and (b) every text "
                    "obtained by appending <= %d characters of a 20-character alphabet to 18 seeds (opened id forms, a decimal just below "
                    "2^64, 63.5 hex bytes, an almost complete RUID), checks the laws of Bech32m.tla / Ids.tla as invariants and prints each "
                    "state with the expected verdict; the harness runs the real encoder/decoder/from_str on each.  T: every entity type x "
                    "5 networks x random node ids (every 4th round other data lengths / non-entity first bytes) with decode on the same and "
                    "all other networks, 5 typed address parsers, 2 random text mutations and one crafted hostile text each (valid "
                    "checksum under another entity's HRP, Bech32 instead of Bech32m, non-zero padding, extra 5-bit group, upper-cased HRP "
                    "only, missing network suffix); 4 transaction-hash kinds; local ids from random ids of the 4 forms, their mutants and "
                    "~50 crafted texts incl. non-ASCII; global ids in 8 shapes; all under catch_unwind and recomputed by TraceIds.  "
                    "distinct = distinct (network, text) address cases + distinct id texts + distinct recorded events"
                    % (1 if q else 2, 2 if q else 3)}


PROPS = {
    "C16": dict(fn=C16, level="model_checking", design_ref="5/C16",
                technique="TLA+ spec KeyMapper with an arbitrary hash function: TLC exhaustive over all hash functions of a tiny domain "
                          "+ TLC-enumerated input classes driven through the real SpreadPrefixKeyMapper and validated by TraceKeyMapper",
                text="KeyMapper.tla defines the database key layout ([2-byte sort prefix] + 20 hash bytes + body; field keys as one "
                     "byte) for an arbitrary hash function.  TLC checks round trip, injectivity per key kind and the order law "
                     "(smaller sort prefix => smaller database key) for every hash function over a small domain.  The real "
                     "SpreadPrefixKeyMapper is then called on TLC-enumerated boundary classes with random fill; TraceKeyMapper "
                     "accepts the recording only if every db key has the specified structure with the hash bytes of an independent "
                     "blake2b-256, from_db returns the logical key, no two logical keys share a db key (history variable), and the "
                     "sorted keys listed in database order have non-decreasing sort prefixes.",
                note="Injectivity is checked within each recorded trace (~2000 calls), not across traces.  from_db_* on byte strings "
                     "that are not images of to_db_* (too short) panics in the code; the statement only speaks about images, so this "
                     "is not exercised.  Trusted: TLC, the blake2 crate, the harness class filling."),
    "C20": dict(fn=C20, level="model_checking", design_ref="5/C20",
                technique="TLA+ spec Sbor (encoder Enc and an independent recursive-descent decoder Parse for the Basic/Scrypto/Manifest "
                          "flavours): TLC exhaustive on bounded value trees and byte strings + replay of every case into the real "
                          "Value codec + trace validation of seeded mutation traffic by TraceSbor",
                text="Sbor.tla transcribes the wire format byte by byte (prefix, value kinds, canonical LEB128 sizes of at most 4 bytes, "
                     "bool in {0,1}, UTF-8, hoisted element kinds, raw Array(U8), custom value bodies of both flavours with their "
                     "validation).  TLC checks Accept(Enc(v)), Dec(Enc(v)) = v, Accept(b) => Enc(Dec(b)) = b and the rejection of every "
                     "non-canonical class on a bounded universe.  Every generated value tree is built as a real BasicValue / "
                     "ScryptoValue / ManifestValue and must encode to Enc(v) and decode back; every generated byte string must be "
                     "accepted by the real decoders exactly when Accept says so and re-encode identically.  Recorded random and "
                     "mutated payloads of the real codec are re-parsed by TLC: the decoder's verdict must equal Accept, re-encoding "
                     "must reproduce the bytes, values built by the harness must encode to Enc(v) and decode back.",
                note="Covers the untyped Value codec of the three flavours (the statement's subject), not the derive-generated typed "
                     "codecs.  Payloads longer than 340 bytes are not generated for T.  Map payloads: the Value codec neither sorts "
                     "nor de-duplicates entries; the spec transcribes that.  Known disagreement recorded by this check: manifest "
                     "custom values with unvalidated public constructors (static address with a non-entity byte, "
                     "ManifestNonFungibleLocalId::String/Bytes with invalid content) are encodable but their payload is rejected "
                     "by the decoders."),
    "C21": dict(fn=C21, level="model_checking", design_ref="5/C21",
                technique="TLA+ spec Sbor (depth accounting of Parse / EncodeOk): TLC exhaustive on bounded universes + replay under depth "
                          "limits 0..5,64 into decoder, VecTraverser and encoder + trace validation of adversarial traffic incl. "
                          "peak-heap measurement by TraceSbor",
                text="The specification's decoder counts depth like the Value codec (root = 1, every child incl. every byte of an "
                     "Array(U8) one deeper).  TLC checks that a depth limit only cuts by depth and that EncodeOk(v,d) <=> Depth(v) <= d.  "
                     "For every generated value and byte string the real decoder, the real VecTraverser (run to completion) and the "
                     "real encoder are run under the limits 0..5 and 64 (values: Depth-1, Depth, 64) and must agree with Accept.  "
                     "Recorded traffic (nesting exactly at d-1,d,d+1 for d in {0,1,2,64} from every container kind, declared lengths "
                     "up to 2^28-1 on every header also nested 8 levels deep, random payloads and mutants) is validated by "
                     "TraceSbor: no panic (also in a set of typed decoders incl. TransactionResult, StateUpdates, InstructionV1/V2, "
                     "RawValue), DecodeOk <=> TraverseOk <=> Accept(b,d), EncodeOk <=> Depth <= d, traverser depth = Depth, peak heap "
                     "(counting global allocator) <= 4*sizeof(Value)*len + 1024*sizeof(Value)*min(64,len) + 64 KiB.",
                note="The allocation bound reflects the decoder's Vec::with_capacity(min(len,1024)) per nesting level.  Typed decoders "
                     "are only checked for panics, not for depth agreement (lead L11; typed RawValue decoding is in fact one level "
                     "stricter than the Value codec).  Known disagreement recorded by this check: with depth limit 0 the traverser "
                     "accepts payloads whose root is a leaf or an empty container, decoder and encoder reject them."),
    "C28": dict(fn=C28, level="model_checking", design_ref="5/C28",
                technique="TLA+ specs Bech32m (BCH checksum with Bitwise, HRP rules, 8<->5 bit regrouping, network/entity binding) and Ids "
                          "(local/global id text forms with long-division u64<->decimal): TLC exhaustive on bounded universes + replay "
                          "into the real codecs + call-trace validation of seeded traffic by TraceIds",
                text="Bech32m.tla defines EncodeAddr/DecodeAddr with every check of the code (last '1' separates, HRP characters, no mixed "
                     "case, charset, checksum constant 0x2bc830a3, padding rule, entity byte, HRP = entity-class prefix + network suffix).  "
                     "TLC checks round trip, rejection on every other network, rejection under another entity class's HRP even with a "
                     "recomputed checksum, rejection of every single-character substitution and of mixed case, acceptance of the "
                     "all-upper-case form.  Ids.tla defines the four local id text forms and the global id form; TLC checks id -> text -> id, "
                     "that accepted text denotes a valid id and is canonical (integers: exactly the canonical decimal < 2^64).  Every "
                     "generated case is replayed into the real encoder / decoder / from_str; recorded traffic of the real code on all 22 "
                     "entity types x 5 networks, hostile texts and arbitrary strings incl. non-ASCII is recomputed by TLC (texts, "
                     "verdicts, decoded bytes, typed address parsers, printed forms, the binary form via Sbor.tla); any panic is a "
                     "violation.",
                note="'Network' is identified by its hrp_suffix (two NetworkDefinitions with the same suffix are indistinguishable by "
                     "design).  The low-level decoder accepts any data length; the 30-byte rule is checked through the typed address "
                     "parsers.  Hex letter case: parsing accepts both cases for [bytes] and {ruid} ids, printing is lower case - the "
                     "statement only demands canonical form for integers, the spec transcribes the code.  Transaction-hash text forms "
                     "(4 kinds) are included although the statement does not mention them."),
}

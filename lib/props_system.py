"""System column: Limits (C49), NodeGraph (C05), Encapsulation (C50).  Harness binary: vh_sys
(ledger level: scrypto_test::LedgerSimulator + native test blueprints written in Rust)."""
import collections, json, os, re
from concurrent.futures import ThreadPoolExecutor
import core
from core import tlc, tlc_must_pass, vh, ToolError, write_ndjson, read_ndjson, validate_calls, validate_trace

BIN = "vh_sys"


# ---------------------------------------------------------------------------------------------
# helpers (candidates for lib/core.py)

def actions_of(r):
    """Coverage per action, also for actions under a quantifier (TLC appends the location of the
    quantified body in parentheses, which core.TlcResult.actions does not parse)."""
    res = {}
    for m in re.finditer(r"^<(\w+) line \d+, col \d+ to line \d+, col \d+ of module \w+(?: \([\d ]+\))?>: (\d+):(\d+)",
                         r.out, re.M):
        d, g = res.get(m.group(1), (0, 0))
        res[m.group(1)] = (d + int(m.group(2)), g + int(m.group(3)))
    return res


def must_pass(r, what, required=()):
    tlc_must_pass(r, what)
    acts = actions_of(r)
    for a in required:
        if acts.get(a, (0, 0))[1] == 0:
            raise ToolError("vacuous model %s: action %s never taken" % (what, a))


def run_cases(ctx, module, cases, vh_args=(), mode="replay", count=True):
    """spec -> impl: cases (each with the verdict the specification expects) through
    `vh_sys <module> <mode>`.  Returns (done, mismatch lines, other lines)."""
    if not cases:
        raise ToolError("no cases generated for " + module)
    p = ctx.wpath(module + "-cases.ndjson")
    write_ndjson(p, cases)
    rc, out = vh(BIN, [module, mode] + list(vh_args), stdin_path=p)
    os.unlink(p)
    done, mism, extra = None, [], []
    for line in out.splitlines():
        o = json.loads(line)
        if "harness_error" in o:
            raise ToolError("harness could not realise a case of %s: %s" % (module, json.dumps(o)[:400]))
        if "mismatch" in o:
            mism.append(o)
        elif "done" in o:
            done = o
        else:
            extra.append(o)
    if done is None or done["done"] != len(cases):
        raise ToolError("replay of %s did not complete" % module)
    if count:
        ctx.cov["traces_validated_against_impl"] += len(cases)
        ctx.cov["evaluations"] += done["steps"]
    return done, mism, extra


# ---------------------------------------------------------------------------------------------
# C49 execution limits
LIMIT_CLASSES = ["CallDepth", "PayloadSize", "TooManyEvents", "EventSize", "TooManyLogs", "LogSize", "PanicSize",
                 "KeySize", "ValueSize", "TrackBytes", "HeapBytes"]


def _prog_str(c):
    return " ".join("%s(%s)" % (o["op"], ",".join(str(o[f]) for f in ("k", "n") if o[f])) for o in c["prog"])


def C49(ctx):
    q = ctx.quick
    envp = ctx.wpath("limenv.json")
    with ThreadPoolExecutor(max_workers=2) as ex:
        fm = ex.submit(tlc, "Limits", "MCLimits", workers=4, consts={"K": 3 if q else 4}, timeout=3000)
        # environment footprint of the two transaction shapes, measured on the engine (parameters of the spec)
        rc, out = vh(BIN, ["limits", "calibrate"])
        env = json.loads(out.splitlines()[-1])
        with open(envp, "w") as f:
            json.dump(env, f)
        g = tlc("Limits", "GenLimits", workers=4, coverage=False, consts={"Tier": 1 if q else 2},
                env={"LIMENV": envp}, timeout=3000)
        r = fm.result()
    must_pass(r, "MCLimits", required=["DoCall", "DoRet", "DoEmit", "DoLog", "DoPanic", "DoWrite", "DoAlloc", "DoIWrite", "DoSWrite", "DoFWrite"])
    ctx.add_tlc(r)
    tlc_must_pass(g, "GenLimits")
    ctx.add_tlc(g)
    cases = g.printed("B")
    g.out = ""
    by_cls = collections.Counter(c["exp"]["err"] or "success" for c in cases)
    for cls in LIMIT_CLASSES + ["success", "AppPanic"]:
        if by_cls[cls] == 0:
            raise ToolError("vacuous case universe: no case whose expected outcome is " + cls)
    # every limit's error class and every op kind in BOTH transaction shapes; the boundary families are
    # enumerated by TLC from the model alone (no seed), identically in both tiers
    for m in ("fee", "nofee"):
        cm = collections.Counter(c["exp"]["err"] or "success" for c in cases if c["mode"] == m)
        for cls in LIMIT_CLASSES + ["success", "AppPanic"]:
            if cm[cls] == 0:
                raise ToolError("vacuous case universe: no %s case whose expected outcome is %s" % (m, cls))
        kinds = {o["op"] for c in cases if c["mode"] == m for o in c["prog"]}
        if kinds != {"call", "ret", "emit", "log", "write", "alloc", "panic", "iwrite", "swrite", "fwrite"}:
            raise ToolError("case universe of mode %s lacks op kinds: %s" % (m, kinds))
        # the value-size limit at / one beyond through EVERY substate-write entry point (KV entry set, node creation,
        # index insert, sorted-index insert, field write), the key-size limit through every keyed one
        for ep in ("write", "alloc", "iwrite", "swrite", "fwrite"):
            for want in ("ValueSize", ""):
                if not any(c["mode"] == m and c["exp"]["err"] == want and c["prog"] and
                           c["prog"][min(c["exp"]["at"], len(c["prog"]) - 1) if want else -1 if c["prog"][-1]["op"] == ep else 0]["op"] == ep
                           and (want or any(o["op"] == ep and o["n"] == c["cfg"]["value"] for o in c["prog"]))
                           for c in cases):
                    raise ToolError("no %s case driving the value limit (%s) through entry point %s" % (m, want or "at the limit, accepted", ep))
        for ep in ("write", "iwrite", "swrite"):
            if not any(c["mode"] == m and c["exp"]["err"] == "KeySize" and c["prog"][c["exp"]["at"]]["op"] == ep for c in cases):
                raise ToolError("no %s case exceeding the key limit through entry point %s" % (m, ep))
    ctx.sample({"case": next(c for c in cases if c["exp"]["err"] == "CallDepth" and c["mode"] == "fee")})
    ctx.sample({"case": next(c for c in cases if c["exp"]["err"] == "TrackBytes" and len(c["prog"]) > 2)})
    ctx.sample({"case": next(c for c in cases if c["exp"]["status"] == "success" and len(c["prog"]) > 3)})

    # G: every case executed by the engine (fee-paying transaction or costing disabled)
    done, mism, extra = run_cases(ctx, "limits", cases)
    for o in mism:
        c = cases[o["b"]]
        ctx.violation("limits:%s:exp=%s got=%s" % (c["mode"], o["exp"]["err"] or o["exp"]["status"], o["got"]["err"] or o["got"]["status"]),
                      "program [%s] under %s: expected %s, engine %s" % (_prog_str(c), json.dumps(c["cfg"]), json.dumps(o["exp"]), json.dumps(o["got"])),
                      {"module": "limits", "case": c, "mismatch": o, "env": env[c["mode"]]})
    answers = extra[0]["classes"] if extra else {}

    # T: seeded random programs x random configurations and unit-level LimitsModule call sequences
    tp = ctx.wpath("limits-trace.ndjson")
    n, units = (500, 200) if q else (25000, 5000)
    vh(BIN, ["limits", "record", "seed=%d" % ctx.seed, "n=%d" % n, "units=%d" % units, "env=" + envp], stdout_path=tp)
    evs = read_ndjson(tp)
    os.unlink(tp)
    for e in evs:
        if "harness_error" in e:
            raise ToolError("harness could not realise a random program: %s" % json.dumps(e)[:300])
    nrun = sum(1 for e in evs if e["a"] == "run")
    unit_evs = [e for e in evs if e["a"] == "unit"]
    if nrun != n or len(unit_evs) < units + 100:
        raise ToolError("limits record produced %d runs, %d unit sequences" % (nrun, len(unit_evs)))
    # the deterministic boundary block of the unit level (first unit events) answers with every class
    ucls = collections.Counter(o["r"] for e in unit_evs[:len(unit_evs) - units] for o in e["obs"])
    for cls in ("ok", "KeySize", "ValueSize", "HeapBytes", "TrackBytes"):
        if ucls[cls] == 0:
            raise ToolError("unit-level boundary sequences never answered " + cls)
    ctx.sample({"trace_event": next(e for e in evs if e["a"] == "run" and e["obs"]["status"] == "failure")})
    ctx.sample({"trace_event": next(e for e in evs if e["a"] == "unit" and len(e["calls"]) > 4)})
    bad = validate_calls("Limits", "TraceLimits", evs, "%s-%d" % (ctx.pid, os.getpid()), chunks=4 if q else 12,
                         env={"LIMENV": envp})
    ctx.cov["evaluations"] += len(evs)
    ctx.cov["traces_validated_against_impl"] += len(evs) - len(bad)
    for i in bad:
        e = evs[i]
        if e["a"] == "run":
            key = "limits:trace:%s:%s" % (e["mode"], e["obs"]["err"] or e["obs"]["status"])
        else:
            key = "limits:unit"
        ctx.violation(key, "recorded %s rejected by TraceLimits: %s" % (e["a"], json.dumps(e)[:400]), {"event": e, "env": env})
    rnd = collections.Counter(e["obs"]["err"] or e["obs"]["status"] for e in evs if e["a"] == "run")

    # binding self-tests: a corrupted expectation / observation must be reported
    i = next(i for i, c in enumerate(cases) if c["exp"]["status"] == "success")
    j = next(i for i, c in enumerate(cases) if c["exp"]["status"] == "failure" and c["exp"]["at"] > 0)
    bad_cases = json.loads(json.dumps(cases[:max(i, j) + 1]))
    bad_cases[i]["exp"] = {"status": "failure", "err": "CallDepth", "at": 0}
    bad_cases[j]["exp"]["at"] -= 1
    _, m2, _ = run_cases(ctx, "limits", bad_cases, count=False)
    if {o["b"] for o in m2} != {i, j} | {o["b"] for o in mism if o["b"] <= max(i, j)}:
        raise ToolError("binding self-test failed for limits: corrupted expectations %s, reported %s" % ([i, j], [o["b"] for o in m2]))
    bad_set = set(bad)
    ri = next(k for k, e in enumerate(evs) if k not in bad_set and e["a"] == "run" and e["obs"]["status"] == "failure")
    ui = next(k for k, e in enumerate(evs) if k not in bad_set and e["a"] == "unit" and any(o["r"] != "ok" for o in e["obs"]))
    tr = json.loads(json.dumps([e for k, e in enumerate(evs[:50]) if k not in bad_set] + [evs[ri], evs[ui]]))
    tr[-2]["obs"]["at"] += 1
    k = next(k for k, o in enumerate(tr[-1]["obs"]) if o["r"] != "ok")
    tr[-1]["obs"][k]["v"] += 1
    b2 = validate_calls("Limits", "TraceLimits", tr, "%s-%d-self" % (ctx.pid, os.getpid()), chunks=1, env={"LIMENV": envp})
    if set(b2) != {len(tr) - 2, len(tr) - 1}:
        raise ToolError("binding self-test failed for TraceLimits: corrupted the last two events, rejected %s" % b2)
    os.unlink(envp)
    distinct = len({json.dumps([c["mode"], c["cfg"], c["prog"]], sort_keys=True) for c in cases if c["prog"]}) \
        + len({json.dumps([e["cfg"], e.get("prog", e.get("calls"))], sort_keys=True) for e in evs})
    return {"exhaustive": False, "distinct_nontrivial": distinct, "cases_by_expected_outcome": dict(by_cls),
            "engine_answers": answers, "random_program_outcomes": dict(rnd), "environment_footprint": env,
            "rule": "S: TLC explores every program of <= %d ops over 10 op kinds x 2 sizes under 32 configurations of a scaled "
                    "instance: no running state beyond a limit, an op fails with a limits error iff performing it would exceed "
                    "a limit, the error names that limit, the Outcome function agrees with the machine. G: TLC enumerates "
                    "(transaction shape fee/no-fee) x (per limit: programs ending at limit-1/limit/limit+1, the value-size limit through every "
                    "substate-write entry point - KV entry set, node creation, index insert, sorted-index insert, field write - and the key-size "
                    "limit through KV / index / sorted-index keys; byte counters: limit "
                    "one below/at/one above every threshold of the program) x (all ordered pairs of 12 limit probes at/beyond%s) x "
                    "(protocol default configuration at its real values) with the expected outcome (status, error class, index "
                    "of the failing op); each case executed on a LedgerSimulator through a native test blueprint under "
                    "SystemOverrides.limit_parameters. T: %d seeded random programs under random tight configurations and %d "
                    "seeded LimitsModule call sequences (process_io_access / process_substate_key / process_substate_value) plus, in every tier, the full "
                    "unit-level boundary product (key kind x key/value/heap/track limit x one below/at/one above x reached by insert / update / re-insert after removal / two entries / with the other counter at its limit) "
                    "validated by TraceLimits.tla (observed outcome = Outcome; a successful run shows exactly the program's events and logs "
                    "and every count/size within the configured limits). distinct = distinct (shape, configuration, program) cases + distinct recorded runs"
                    % (3 if q else 4, "" if q else "; all ordered triples", n, units)}


# ---------------------------------------------------------------------------------------------
# C05 stored ledger well-formed
def _split_at_resets(evs):
    runs, cur = [], []
    for e in evs:
        if e.get("a") == "reset" and cur:
            runs.append(cur)
            cur = []
        cur.append(e)
    if cur:
        runs.append(cur)
    return runs


def _validate_graph_traces(ctx, evs, key, what, procs=4):
    """Cuts the recording at `reset` events (each carries the whole graph), validates the pieces with
    TraceNodeGraph in parallel.  Returns number of accepted events."""
    runs = _split_at_resets(evs)
    n = max(1, min(procs, len(runs)))
    # balance by size
    chunks = [[] for _ in range(n)]
    for r in sorted(runs, key=len, reverse=True):
        min(chunks, key=len).extend(r)

    def one(i):
        p = ctx.wpath("graph-chunk%d-%d.ndjson" % (i, len(chunks[i])))
        write_ndjson(p, chunks[i])
        ok, idx, r = validate_trace("NodeGraph", "TraceNodeGraph", p, timeout=3000, heap="3g")
        os.unlink(p)
        return ok, idx, r, chunks[i]

    with ThreadPoolExecutor(max_workers=n) as ex:
        res = list(ex.map(one, range(n)))
    good = 0
    for ok, idx, r, ch in res:
        ctx.cov["evaluations"] += len(ch)
        if ok:
            good += len(ch)
            ctx.cov["traces_validated_against_impl"] += sum(1 for e in ch if e.get("a") == "reset")
            continue
        ev = ch[idx - 1] if idx and 0 < idx <= len(ch) else {}
        if not r.violated and ev.get("a") == "commit" and ev.get("expect", "any") not in ("any", ev.get("outcome")):
            k = "%s:catalogue program expected %s, engine %s" % (key, ev["expect"], ev["outcome"])
        else:
          k = "%s:%s" % (key, r.violated or ("checker" if ev.get("checker") == "ran" and (ev.get("kernel"), ev.get("system")) != ("ok", "ok") else "rejected"))
        ctx.violation(k, "%s: graph trace rejected at event %s (%s): %s" % (what, idx, r.violated, json.dumps(ev)[:400]),
                      {"trace_module": "TraceNodeGraph", "first_unmatched": idx, "tlc_violated": r.violated,
                       "context": ch[max(0, (idx or 1) - 3):(idx or 1)]})
    return good


def _graph_selftest(ctx, evs):
    """Binding: a corrupted graph edge must be rejected, with the invariant that protects it."""
    run = _split_at_resets(evs)[0][:40]
    run = [e for e in run if e.get("a") in ("reset", "commit")]
    wanted = []
    # (1) drop an own edge of a commit: the child has no owner any more
    t1 = json.loads(json.dumps(run))
    i = next((i for i, e in enumerate(t1) if e["a"] == "commit" and any(u["owns"] for u in e["upd"])), None)
    if i is None:
        raise ToolError("graph self-test: no commit with an ownership edge in the first run")
    u = next(u for u in t1[i]["upd"] if u["owns"])
    u["owns"] = u["owns"][1:]
    wanted.append(("own edge dropped", t1[:i + 1], "InvUniqueOwner"))
    # (2) duplicate an own edge
    t2 = json.loads(json.dumps(run))
    u = next(u for u in t2[i]["upd"] if u["owns"])
    u["owns"] = u["owns"] + u["owns"][:1]
    wanted.append(("own edge duplicated", t2[:i + 1], "InvUniqueOwner"))
    # (3) a reference to an internal node
    t3 = json.loads(json.dumps(run))
    u = next(u for u in t3[i]["upd"] if u["owns"])
    u["refs"] = u["refs"] + u["owns"][:1]
    wanted.append(("reference to an internal node", t3[:i + 1], "InvRefsGlobal"))
    # (4) a wrong entity type for a newly created node
    t4 = json.loads(json.dumps(run))
    j = next((j for j, e in enumerate(t4) if e["a"] == "commit" and any(x[1] == "InternalKeyValueStore" for x in e["ids"])), None)
    if j is not None:
        for x in t4[j]["ids"]:
            if x[1] == "InternalKeyValueStore":
                x[1] = "InternalGenericComponent"
                break
        wanted.append(("entity type changed", t4[:j + 1], "InvEntityType"))

    def one(w):
        name, tr, inv = w
        p = ctx.wpath("graph-self-%s.ndjson" % inv + str(abs(hash(name)) % 1000))
        write_ndjson(p, tr)
        ok, idx, r = validate_trace("NodeGraph", "TraceNodeGraph", p, timeout=1200)
        os.unlink(p)
        return name, ok, r.violated, inv

    with ThreadPoolExecutor(max_workers=4) as ex:
        for name, ok, violated, inv in ex.map(one, wanted):
            if ok or violated != inv:
                raise ToolError("binding self-test failed for TraceNodeGraph: %s was %s (violated=%s, expected %s)"
                                % (name, "accepted" if ok else "rejected", violated, inv))
    return len(wanted)


NATIVE_BLUEPRINTS = [("package", "Package"), ("resource", "FungibleResourceManager"), ("resource", "NonFungibleResourceManager"),
                     ("resource", "FungibleVault"), ("resource", "NonFungibleVault"), ("consensus_manager", "ConsensusManager"),
                     ("consensus_manager", "Validator"), ("access_controller", "AccessController"), ("account", "Account"),
                     ("identity", "Identity"), ("pool", "OneResourcePool"), ("pool", "TwoResourcePool"), ("pool", "MultiResourcePool"),
                     ("locker", "AccountLocker"), ("transaction_tracker", "TransactionTracker")]
ENTITY_TYPES_EXPECTED = ["GlobalPackage", "GlobalConsensusManager", "GlobalValidator", "GlobalTransactionTracker", "GlobalGenericComponent",
                         "GlobalAccount", "GlobalIdentity", "GlobalAccessController", "GlobalOneResourcePool", "GlobalTwoResourcePool",
                         "GlobalMultiResourcePool", "GlobalAccountLocker", "GlobalPreallocatedSecp256k1Account",
                         "GlobalPreallocatedSecp256k1Identity", "GlobalPreallocatedEd25519Account", "GlobalPreallocatedEd25519Identity",
                         "GlobalFungibleResourceManager", "GlobalNonFungibleResourceManager", "InternalFungibleVault",
                         "InternalNonFungibleVault", "InternalGenericComponent", "InternalKeyValueStore"]


def C05(ctx):
    q = ctx.quick
    with ThreadPoolExecutor(max_workers=3) as ex:
        # S: kernel-level ownership model, exhaustive
        fs = ex.submit(tlc, "NodeGraph", "MCNodeGraph", workers=4, consts={"MaxSteps": 5 if q else 6}, timeout=3000)
        negs = []
        if not q:
            for rel in ("storeRefs", "subtreeRefs", "dropInStore"):
                negs.append((rel, ex.submit(tlc, "NodeGraph", "MCNodeGraph", workers=2, coverage=False,
                                            consts={"MaxSteps": 4, "Relax": '{"%s"}' % rel})))
        # T (i): seeded histories with accounts, resources and the node-juggling test blueprint
        hp = ctx.wpath("graph-history.ndjson")
        runs, ln, every = (2, 100, 5) if q else (10, 160, 4)
        vh(BIN, ["nodegraph", "history", "seed=%d" % ctx.seed, "runs=%d" % runs, "len=%d" % ln, "checker_every=%d" % every],
           stdout_path=hp)
        # T (ii): the repository's transaction scenarios, genesis -> latest protocol version
        sp = ctx.wpath("graph-scenarios.ndjson")
        sargs = ["nodegraph", "scenarios", "checker_every=%d" % (10 if q else 5), "skip=max_transaction"]
        if not q:
            sargs.append("every_version=1")
        vh(BIN, sargs, stdout_path=sp, timeout=7200)
        hist, scen = read_ndjson(hp), read_ndjson(sp)
        os.unlink(hp)
        os.unlink(sp)
        big = []
        if not q:
            # the one scenario that bloats the database (the repository's checkers then need a minute per run):
            # on its own ledger, checkers only at its start and end
            bp = ctx.wpath("graph-maxtx.ndjson")
            vh(BIN, ["nodegraph", "scenarios", "checker_every=1000000", "only=max_transaction"], stdout_path=bp, timeout=7200)
            big = read_ndjson(bp)
            os.unlink(bp)
        r = fs.result()
        neg_res = [(rel, f.result()) for rel, f in negs]
    must_pass(r, "MCNodeGraph", required=["DoCreate", "DoWriteHeap", "DoWriteStore", "DoDrop"])
    ctx.add_tlc(r)
    expected_neg = {"storeRefs": "StoreRefsGlobal", "subtreeRefs": "StoreRefsGlobal", "dropInStore": "StoreUniqueOwner"}
    for rel, rr in neg_res:
        if rr.violated != expected_neg[rel]:
            raise ToolError("NodeGraph model without rule %s should violate %s, got %s" % (rel, expected_neg[rel], rr.violated))

    hsum, ssum = hist[-1], scen[-1]
    if hsum.get("a") != "summary" or ssum.get("a") != "summary" or hsum["commits"] < runs * ln or ssum["commits"] < 100:
        raise ToolError("graph recording incomplete")
    allev = hist + scen + big
    ctx.sample({"trace_event": next(e for e in hist if e["a"] == "commit" and len(e["upd"]) >= 3)})
    ctx.sample({"trace_event": next(e for e in scen if e["a"] == "commit" and len(e["upd"]) >= 2)})
    ctx.sample({"history_outcomes": hsum["outcomes"]})
    _validate_graph_traces(ctx, hist, "nodegraph:history", "seeded history")
    _validate_graph_traces(ctx, scen + big, "nodegraph:scenarios", "transaction scenarios")
    # non-vacuity, independent of the seed (the catalogues of run 0): every refusal class, every node operation,
    # every native blueprint.  Evaluated AFTER the traces: when the engine lets a forbidden thing through, the
    # refusal class is missing BECAUSE of a violation, which is then what gets reported.
    if not ctx.violations:
        needed = ["success:", "failure:CallFrame:WriteSubstateError.ProcessSubstateError.CantDropNodeInStore", "failure:Kernel:OrphanedNodes",
                  "failure:CallFrame:WriteSubstateError.SubstateDiffError.ContainsDuplicateOwns", "failure:AppPanic", "failure:System:TypeCheckError",
                  "failure:CallFrame:MovePartitionError.NonGlobalRefNotAllowed.NodeId",
                  "failure:CallFrame:MovePartitionError.PersistNodeError.ContainsNonGlobalRef",
                  "failure:CallFrame:WriteSubstateError.ProcessSubstateError.PersistNodeError",
                  "failure:CallFrame:WriteSubstateError.ProcessSubstateError.NonGlobalRefNotAllowed"]
        for k in needed:
            if not hsum["outcomes"].get(k):
                raise ToolError("seeded histories never produced outcome " + k)
        for k in ("NewObj", "NewKv", "NewVault", "Nest", "PutInKv", "StoreInField", "StoreInKv", "StoreRef", "Drop", "Globalize", "HeapRefStored"):
            if not hsum.get("ops_ok", {}).get(k):
                raise ToolError("no successful transaction of the seeded histories used node operation " + k)
        seen_bp = {(u["pkg"], u["bp"], u["kind"]) for e in hist if e.get("a") in ("reset", "commit") for u in e["upd"]}
        for pkg, bp in NATIVE_BLUEPRINTS:
            if (pkg, bp, "object") not in seen_bp:
                raise ToolError("seeded histories never stored an object of native blueprint %s/%s" % (pkg, bp))
        if not any(k == "kv" for _, _, k in seen_bp):
            raise ToolError("seeded histories never stored a key-value store")
        seen_et = {x[1] for e in hist if e.get("a") in ("reset", "commit") for x in e["ids"]}
        for t in ENTITY_TYPES_EXPECTED:
            if t not in seen_et:
                raise ToolError("seeded histories never produced a node of entity type " + t)
    nself = _graph_selftest(ctx, hist)
    # information: where the repository's KernelDatabaseChecker is stricter than the engine
    disagreements = [e["label"][:120] for e in allev if e.get("checker") == "ran" and e.get("kernel") != "ok"]
    commits = [e for e in allev if e.get("a") == "commit"]
    distinct = len({json.dumps([e["upd"], e["del"]], sort_keys=True) for e in commits if e["upd"] or e["del"]})
    return {"exhaustive": False, "distinct_nontrivial": distinct, "committed_transactions_walked": len(commits),
            "scenarios": ssum["scenarios"] + (big[-1]["scenarios"] if big else []), "max_nodes": max(hsum["max_nodes"], ssum["max_nodes"]),
            "history_outcomes": hsum["outcomes"], "selftest_corruptions_rejected": nself,
            "repo_kernel_checker_not_ok_while_spec_accepts": {"count": len(disagreements), "first": disagreements[:3],
                "class": "KernelDatabaseChecker::ZeroPartitionCount for a stored reference to a preallocated account address that has no state yet"},
            "rule": "S: kernel-level ownership model (create node / write substate with the process_substate_diff rules / move to store / "
                    "drop) over 2 global + 2 internal node ids, every call sequence of length <= %d: the store is a well-formed graph "
                    "after every accepted call%s. T: after EVERY committed transaction of %d seeded histories x %d transactions "
                    "(accounts, resources, transfers, preallocated accounts, and a native test blueprint that creates, nests, stores into "
                    "fields / KV entries / heap KV stores, drops, globalizes objects, stores references, duplicates owns, removes stored "
                    "owns, leaks nodes and panics half-way; run 0 starts with fixed catalogues: one instance of every native global blueprint incl. "
                    "preallocated accounts/identities, pools, validator, access controller, locker; 42 programs covering every operation, every refusal, "
                    "and every way a reference to a non-global node could reach the store) and of the repository's transaction scenarios (genesis -> latest protocol, %s) "
                    "the harness walks the whole database and logs the graph; TraceNodeGraph.tla evaluates UniqueOwner, RefsGlobal, HasState, "
                    "EntityTypeMatches, NoCycles in every state. distinct = distinct structural graph changes"
                    % (5 if q else 6, "" if q else "; three models with one rule switched off each violate the expected invariant",
                       runs, ln, "each scenario once, max_transaction left to the thorough tier" if q else "each scenario at every protocol version at which it is valid (a fresh ledger per version), max_transaction on its own ledger")}


# ---------------------------------------------------------------------------------------------
# C50 encapsulation
def C50(ctx):
    q = ctx.quick
    with ThreadPoolExecutor(max_workers=4) as ex:
        fg = ex.submit(tlc, "NodeGraph", "GenEncapsulation", workers=4, coverage=False, timeout=3000)
        # negative runs: a weakened rule must break the property (the property has teeth)
        negs = [(m, ex.submit(tlc, "NodeGraph", "GenEncapsulation", workers=2, coverage=False, consts={"Mut": '"%s"' % m}, timeout=3000))
                for m in ("dropByPackage", "dropIgnoresOuter", "globalizeAnyPackage")]
        g = fg.result()
        neg_res = [(m, f.result()) for m, f in negs]
    tlc_must_pass(g, "GenEncapsulation (Encapsulated on every case)")
    ctx.add_tlc(g)
    for m, r in neg_res:
        if r.violated != "InvEncapsulated":
            raise ToolError("Encapsulation with weakened rule %s should violate InvEncapsulated, got %s" % (m, r.violated))
    cases = g.printed("B")
    g.out = ""
    if len(cases) < 1500:
        raise ToolError("GenEncapsulation produced only %d cases" % len(cases))
    by = collections.Counter(c["exp"] for c in cases)
    for cls in ("ok", "System:InvalidDropAccess", "System:InvalidGlobalizeAccess", "System:CannotGlobalize", "System:NotAnObject",
                "System:InvalidChildObjectCreation", "System:BlueprintDoesNotExist", "System:OuterObjectDoesNotExist",
                "CallFrame:DropNodeError.TakeNodeError.OwnNotFound", "setup:CallFrame:CreateFrameError.PassMessageError.DirectRefNotFound"):
        if by[cls] == 0:
            raise ToolError("vacuous case universe: no case expecting " + cls)
    ctx.sample({"case": next(c for c in cases if c["exp"] == "System:InvalidDropAccess" and c["target"] == "bucket")})
    ctx.sample({"case": next(c for c in cases if c["exp"] == "ok" and c["op"] == "drop" and c["target"] == "BI1")})
    ctx.sample({"case": next(c for c in cases if c["sibling"])})
    ctx.sample({"case": next(c for c in cases if c["op"] == "field_write:OUTER" and c["exp"].startswith("ok"))})
    done, mism, extra = run_cases(ctx, "encapsulation", cases)
    for o in mism:
        c = cases[o["b"]]
        allowed_but = o["got"].startswith("ok") and not str(o["exp"]).startswith("ok")
        ctx.violation("encapsulation:%s:%s:%s" % (c["op"].split(":")[0], "allowed" if allowed_but else "answer", c["target"]),
                      "actor %s, target %s (%s), %s: expected %s, engine %s" % (c["actor"], c["target"], c["how"], c["op"], o["exp"], o["got"]),
                      {"module": "encapsulation", "case": c, "mismatch": o})
    answers = extra[0]["classes"] if extra else {}
    # binding self-test: one allowed case expected denied, one denied case expected allowed
    bad = json.loads(json.dumps(cases))
    i = next(i for i, c in enumerate(bad) if c["exp"] == "ok" and c["op"] == "drop")
    bad[i]["exp"] = "System:InvalidDropAccess"
    j = next(i for i, c in enumerate(bad) if c["exp"] == "System:InvalidGlobalizeAccess")
    bad[j]["exp"] = "ok"
    bad = bad[:max(i, j) + 1]
    _, m2, _ = run_cases(ctx, "encapsulation", bad, count=False)
    if {o["b"] for o in m2} != {i, j} - {o["b"] for o in mism}:
        raise ToolError("binding self-test failed for encapsulation: corrupted %s, reported %s" % ([i, j], [o["b"] for o in m2]))
    sib = [c for c in cases if c["sibling"]]
    nontrivial = len({json.dumps([c["actor"], c["target"], c["how"], c["op"]]) for c in cases
                      if not c["exp"].startswith("setup:")})
    return {"exhaustive": True, "distinct_nontrivial": nontrivial, "cases": len(cases), "expected_answers": dict(by),
            "engine_answers": answers,
            "same_package_sibling_access_permitted": sorted({"%s %s %s" % (c["actor"], c["op"], c["target"]) for c in sib}),
            "rule": "TLC enumerates (8 actors: functions and methods of blueprints X, Y of package A and Outer / inner blueprint Inner of "
                    "package B, methods on two different outer objects and their inner objects) x (16 targets: objects of each blueprint, "
                    "inner objects of the actor's and of a foreign outer object, bucket, vault, proof, key-value store, address reservations "
                    "for three blueprints, four global components, the actor's own receiver) x (ownership moved in directly / through one more "
                    "frame / a reference) x (drop, globalize without / with a reservation for the own / the target's blueprint, use a handed-in "
                    "reservation, proof drop, open KV entry, call; new_object of every blueprint name; field read/write and KV access through "
                    "SELF and OUTER), checks Encapsulated on each case and emits the answer the rules expect (ok + node reached / created, or the "
                    "error class); each case is executed by native test blueprints on a LedgerSimulator (a foreign driver package obtains the "
                    "target and hands it over) and the Result of the system call is compared. Three weakened rule sets are shown to violate the "
                    "property. distinct = cases whose hand-over is possible"}


PROPS = {
    "C05": dict(fn=C05, level="model_checking", technique="TLA+ kernel-level ownership model (TLC exhaustive) + trace validation of the "
                "node graph projected from the whole database after every committed transaction",
                text="After any history of committed transactions the stored ledger is a well-formed graph: every stored internal node is "
                     "owned by exactly one stored value, stored values reference only global entities, every stored entity has its type "
                     "information and state, entity types match blueprints, ownership has no cycles.",
                note="The five graph invariants are stated in Graph.tla independently of the engine's checkers and evaluated by TLC on the "
                     "graph the harness projects from a full database walk (list_partition_keys + every entry, IndexedScryptoValue owned "
                     "nodes / references, TypeInfo) after every committed transaction, also failed (fee-only) ones. RefsGlobal accepts a "
                     "reference to a preallocated (public-key derived) account/identity address that has no state yet: the engine allows "
                     "storing it, the statement only asks for global entities; the repository's KernelDatabaseChecker is stricter there "
                     "(ZeroPartitionCount) - its verdict is modelled as exactly that and reported in the evidence as information. "
                     "Trusted: the walker/projection in the harness (SBOR decoding by the engine's own IndexedScryptoValue), the symbolic "
                     "package names. NOT re-specified: conformance of every value to its blueprint / KV-store schema and validity of role "
                     "assignments - for these the verdict of the repository's SystemDatabaseChecker + RoleAssignmentDatabaseChecker is "
                     "logged (every k-th transaction, every scenario start/end) and must be ok; the repository's ResourceDatabaseChecker "
                     "is not used (it hits `todo!()` on a frozen vault's FreezeStatus field). The S model has one substate per node and one "
                     "call frame; HasState / EntityTypeMatches are trivial in it.",
                design_ref="DESIGN.md 5/C05"),
    "C50": dict(fn=C50, level="model_checking", technique="TLA+ rules of the system layer + property checked by TLC on the whole bounded "
                "universe of (actor, target, how obtained, system call); every case replayed on a full ledger with native test blueprints",
                text="Only code of an object's own blueprint (or, for an inner object, of its outer object) can drop it; creation and "
                     "globalization never cross package boundaries; actor state handles reach only the actor's own node or its outer object; "
                     "buckets, vaults, proofs, address reservations and other packages' components cannot be dropped, globalized or modified "
                     "by a foreign blueprint however the node was obtained; proofs are droppable by whoever owns them.",
                note="Encapsulation.tla states the rules as the code has them (drop_object: blueprint-scoped, inner objects by instance "
                     "context; new_object / globalize: PACKAGE-scoped - lead L15; kernel message passing: only owned nodes and global references "
                     "can be handed over, so `obtained by reference` exists only for global nodes and the receiver itself) and, separately, the "
                     "property; TLC checks rules => property on every case and the harness checks engine = rules on every case. Same-package "
                     "sibling accesses the code permits (X creates / globalizes Y, a function of Outer globalizes an Inner of any outer object, "
                     "Inner creates Outer ...) are listed in the evidence as information, not violations. A key-value store handed over by its "
                     "owner can be opened by the receiver (KV stores carry no blueprint). Cases are single system calls (each in its own "
                     "uncommitted transaction), not sequences; kernel-level substate APIs available to native code only are out of scope; "
                     "proofs moved across two function boundaries (the resource package's restricted-proof rule) are not generated.",
                design_ref="DESIGN.md 5/C50, lead L15"),
    "C49": dict(fn=C49, level="model_checking", technique="TLA+ limits machine (TLC exhaustive on a scaled instance) + "
                "TLC-enumerated boundary cases replayed on a full ledger with a native test blueprint + trace validation of "
                "random programs and of LimitsModule call sequences",
                text="Execution limits are enforced exactly: a program fails with a limits error exactly at the first operation that "
                     "would exceed the configured call depth, key/value/payload/event/log/panic sizes, event/log counts or heap/track "
                     "byte counters, and otherwise is not failed for that reason.",
                note="The outcome of every case (commit/failure, error class, index of the failing op) is computed by TLC from "
                     "Limits.tla with the code's comparisons (depth ==, counts >=, sizes >) and compared with the engine's receipt. "
                     "The system's own consumption of each limit (transaction processor, fee lock, auth zones, blueprint look-ups, "
                     "finalisation: the `environment footprint`, incl. the base values of the heap/track counters and the per-object / "
                     "per-frame / first-use constants) is MEASURED on the same engine by bisection (vh_sys limits calibrate) and passed "
                     "to the specification as parameters: the check decides exactness and additivity relative to that footprint, not "
                     "the footprint itself; configurations below the footprint (e.g. max_event_size < 28, where lock_fee panics "
                     "inside the engine and is turned into a rejection) are outside the claim. Cases are executed without committing "
                     "(every case sees the same ledger state). The concretisation (SBOR payloads of an exact encoded length) is "
                     "self-checked against the sizes of the substates in the receipt. Exact byte counting is additionally bound at "
                     "unit level through LimitsModule's public API. WASM-side limits (buffers, memory) are not part of this property.",
                design_ref="DESIGN.md 5/C49"),
}

"""WASM column: WasmRules (C45), WasmMeter (C46), WasmMem (C47)."""
import hashlib, json, os, random
import core
from core import tlc, tlc_must_pass, vh, ToolError, write_ndjson, read_ndjson, validate_calls, log

BIN = "vh_wasm"
THREADS = 6


# ---------------------------------------------------------------------------------------------
# helpers (candidates for lib/core.py)

def run_cases(ctx, module, cases, vh_args=(), name=None):
    """spec -> impl for function-shaped properties: TLC-emitted cases (one JSON object each, with the
    expected values computed by TLA+) are executed by `vh_wasm <module> replay`; returns
    (mismatch lines, other lines, done line)."""
    if not cases:
        raise ToolError("no cases generated for " + module)
    p = ctx.wpath((name or module) + "-cases.ndjson")
    write_ndjson(p, cases)
    rc, out = vh(BIN, [module, "replay", "threads=%d" % THREADS] + list(vh_args), stdin_path=p)
    mism, other, done = [], [], None
    for line in out.splitlines():
        o = json.loads(line)
        if "mismatch" in o:
            mism.append(o)
        elif "done" in o:
            done = o
        else:
            other.append(o)
    if done is None or done["done"] != len(cases):
        raise ToolError("replay of %s did not complete" % module)
    os.unlink(p)
    ctx.cov["traces_validated_against_impl"] += len(cases)
    ctx.cov["evaluations"] += done["steps"]
    return mism, other, done


def calls_check(ctx, spec_dir, module, events, name, key_fn, what, chunks=8):
    """impl -> spec for stateless recordings: every event failing the TLA+ post-condition is a violation."""
    bad = validate_calls(spec_dir, module, events, name, chunks=chunks)
    ctx.cov["evaluations"] += len(events)
    ctx.cov["traces_validated_against_impl"] += 1
    for i in bad:
        ev = events[i]
        ctx.violation(key_fn(ev), "%s: event %d rejected by %s: %s" % (what, i, module, json.dumps(slim(ev))[:400]),
                      {"trace_module": module, "index": i, "event": ev})
    return bad


def slim(ev):
    return {k: v for k, v in ev.items() if k not in ("hex", "in", "out")}


def must_reject(spec_dir, module, events, name, what):
    """binding self-test: every one of the (corrupted) events must be rejected by the trace module."""
    bad = validate_calls(spec_dir, module, events, name + "-selftest", chunks=1)
    if sorted(bad) != list(range(len(events))):
        raise ToolError("binding self-test failed for %s: corrupted events %s were accepted"
                        % (what, sorted(set(range(len(events))) - set(bad))))


def wasm_blobs():
    """distinct non-empty *.wasm files of the repository (genesis packages, scenario packages, test blueprints)."""
    seen = {}
    for root, ds, fs in os.walk(core.REPO):
        ds.sort()
        for f in sorted(fs):
            if f.endswith(".wasm"):
                p = os.path.join(root, f)
                try:
                    data = open(p, "rb").read()
                except OSError:
                    continue
                if data:
                    seen.setdefault(hashlib.sha1(data).hexdigest(), p)
    return sorted(seen.values())


# ---------------------------------------------------------------------------------------------
def C45(ctx):
    q = ctx.quick
    import time
    t0 = [time.time()]

    def lap(what):
        log("C45 %s: %.1fs" % (what, time.time() - t0[0]))
        t0[0] = time.time()
    from concurrent.futures import ThreadPoolExecutor
    # S: laws of the rule set on nominal / one variation / all pairs of variations x VM versions
    # G: cases with expected verdict / input structure / output structure computed by TLA+ (concurrent TLC runs)
    # quick keeps the FULL product of boundary variations (every single variation x 3 VM versions, every pair of
    # boundary variations of different rule families at the first and the latest VM version); only the bulk
    # (per-import signature variants, name classes, exotic proposals, 8k-function modules) is left out of the pairs
    jobs = [("S", "MCWasmRules", {"PairMode": '"all"', "PairVersions": "{0, 2}" if q else "{0, 1, 2}"}),
            ("G", "GenWasmRules", {"PairMode": '"pw"' if q else '"allnh"', "PairVersions": "{0, 2}" if q else "{2}"})]
    if not q:
        jobs.append(("G2", "GenWasmRules", {"PairMode": '"pw"', "PairVersions": "{0, 1}"}))
    with ThreadPoolExecutor(max_workers=3) as ex:
        res = dict(ex.map(lambda j: (j[0], tlc("WasmRules", j[1], workers=4, coverage=False, consts=j[2])), jobs))
    r = res["S"]
    tlc_must_pass(r, "MCWasmRules")
    ctx.add_tlc(r)
    # non-vacuity without -coverage (the coverage reporter runs out of memory on this module's recursive
    # operators): 933 states are the nominal/single/version cases; everything beyond are Pair states, which
    # only exist if Single fired.  The reject classes are covered by the ASSUME in MCWasmRules.
    if r.distinct < (45000 if q else 70000):
        raise ToolError("MCWasmRules explored only %d states (Pair action not exercised)" % r.distinct)
    g = res["G"]
    tlc_must_pass(g, "GenWasmRules")
    cases = g.printed("B")
    if not q:
        tlc_must_pass(res["G2"], "GenWasmRules(v0,v1)")
        cases += [c for c in res["G2"].printed("B") if c["id"][1] != 0]
    lap("S+gen")
    ctx.sample({"case": {k: cases[0][k] for k in ("id", "d", "v", "exp")}})
    pick = [c for c in cases if c["exp"] == "MemorySizeLimitExceeded"][:1] + [c for c in cases if c["id"][1] != 0][:1]
    for c in pick:
        ctx.sample({"case": {k: c[k] for k in ("id", "d", "v", "exp")}})
    mism, other, done = run_cases(ctx, "rules", cases)
    lap("replay")
    for o in mism:
        c = cases[o["b"]]
        rep = {"module": "rules", "case": {k: c[k] for k in ("id", "d", "v", "exp", "dev")}, "mismatch": o}
        if o["mismatch"] == "render":
            raise ToolError("rendered module differs from the specification's structural descriptor: %s" % json.dumps(o)[:400])
        if o["mismatch"] == "verdict":
            if o["got"]["verdict"] == "panic":
                key = "rules:panic"
            elif c["exp"] != "ok":
                # c["dev"]: the one known deviation, named by the spec only when it is the sole broken rule
                key = c["dev"] or ("rules:accepts-forbidden:" + c["exp"])
            else:
                key = "rules:rejects-valid:" + o["got"]["class"]
            ctx.violation(key, "validate(%s) at VM version %d: expected %s, got %s"
                          % (json.dumps(diff_from_nominal(cases[0]["d"], c["d"])), c["v"], c["exp"], json.dumps(o["got"])), rep)
        else:
            ctx.violation("rules:" + o["mismatch"], "instrumented output of %s: %s expected %s got %s"
                          % (json.dumps(diff_from_nominal(cases[0]["d"], c["d"])), o["mismatch"],
                             json.dumps(o["exp"])[:200], json.dumps(o["got"])[:200]), rep)
    # non-vacuity of the binding: every reject class was observed from the code for its own reason
    classdiff = {o["classdiff"] for o in other if "classdiff" in o}
    bad_idx = {o["b"] for o in mism}
    seen_cls = {c["exp"] for i, c in enumerate(cases) if i not in classdiff and i not in bad_idx}
    want = {"DeserializationError", "ValidationError", "StartFunctionNotAllowed", "ImportNotAllowed",
            "ProtocolVersionMismatch", "InvalidFunctionType", "InvalidExportName", "MissingMemorySection",
            "MemorySizeLimitExceeded", "MemoryNotExported", "InitialTableSizeLimitExceeded",
            "TooManyTargetsInBrTable", "TooManyFunctions", "TooManyFunctionParams", "TooManyFunctionLocals",
            "TooManyGlobals", "MissingExport", "NotInstantiatable", "ok"}
    if want - seen_cls:
        raise ToolError("vacuous binding: classes never confirmed by the code: %s" % sorted(want - seen_cls))
    distinct = len({json.dumps([c["d"], c["v"]], sort_keys=True) for c in cases})
    # binding self-test (G): a wrong expected verdict / a wrong expected output field must be reported
    wrong = json.loads(json.dumps(cases[0]))
    wrong["exp"] = "TooManyGlobals"
    wrong2 = json.loads(json.dumps(cases[0]))
    wrong2["out"]["mems"] = [[1, 63]]
    m2, _, _ = run_cases(ctx, "rules", [wrong, wrong2], name="rules-selftest")
    if {(o["b"], o["mismatch"]) for o in m2} != {(0, "verdict"), (1, "output.mems")}:
        raise ToolError("binding self-test (replay) failed: %s" % m2)

    # T: totality + post-conditions on inputs the model did not choose
    tp = ctx.wpath("rules-fuzz.ndjson")
    vh(BIN, ["rules", "fuzz", "seed=%d" % ctx.seed, "rand=%d" % (3000 if q else 200000), "mut=%d" % (3000 if q else 150000)],
       stdout_path=tp)
    evs = read_ndjson(tp)
    os.unlink(tp)
    blobs = wasm_blobs()
    if len(blobs) < 10:
        raise ToolError("repository WASM blobs not found")
    rng = random.Random(ctx.seed)
    genesis = [p for p in blobs if "/radix-engine/assets/" in p or "/radix-transaction-scenarios/assets/" in p]
    chosen = blobs if not q else sorted(set(genesis + rng.sample(blobs, 14)))
    bp = ctx.wpath("rules-blobs.txt")
    write_ndjson(bp, chosen)
    tb = ctx.wpath("rules-blobs.ndjson")
    vh(BIN, ["rules", "blobs", "seed=%d" % ctx.seed, "threads=%d" % THREADS, "mut=%d" % (3 if q else 40)], stdin_path=bp, stdout_path=tb)
    bevs = read_ndjson(tb)
    os.unlink(tb)
    os.unlink(bp)
    n_blob_ok = sum(1 for e in bevs if e["src"] == "blob" and e["verdict"] == "ok")
    if n_blob_ok < len(chosen):
        raise ToolError("only %d repository blobs accepted" % n_blob_ok)
    allev = evs + bevs
    lap("record")
    accepted = [e for e in allev if e["verdict"] == "ok"]
    ctx.sample({"trace_event": slim(evs[7])})
    ctx.sample({"trace_event": slim(next(e for e in bevs if e["verdict"] == "ok"))})

    def key(ev):
        if ev["verdict"] == "panic":
            return "rules:panic:" + ev["src"]
        return "rules:accepted-violates:" + ev["src"]
    calls_check(ctx, "WasmRules", "TraceWasmRules", allev, "rules", key, "validate() recording", chunks=5 if q else 12)
    lap("trace validation")
    # binding self-test (T): corrupted recordings must be rejected
    good = next(e for e in bevs if e["src"] == "blob" and e["verdict"] == "ok")
    cor = []
    for f in (lambda e: e.__setitem__("verdict", "panic"),
              lambda e: e["out"]["mems"].__setitem__(0, [e["out"]["mems"][0][0], 65]),
              lambda e: e["in"].__setitem__("maxParams", 33),
              lambda e: e["in"].__setitem__("floats", True),
              lambda e: e["out"]["imports"].pop(),
              lambda e: e["out"].__setitem__("nglobals", e["in"]["nglobals"]),
              lambda e: e["out"].__setitem__("stackChecks", e["out"]["stackChecks"] - 1),
              lambda e: e["out"].__setitem__("unmeteredOps", ["End", "Loop"])):
        e = json.loads(json.dumps(good))
        f(e)
        cor.append(e)
    must_reject("WasmRules", "TraceWasmRules", cor, "rules", "TraceWasmRules")
    lap("selftest")
    return {"exhaustive": False, "distinct_nontrivial": distinct + len(accepted),
            "cases": len(cases), "fuzz_inputs": len(evs), "blob_events": len(bevs), "accepted_recorded": len(accepted),
            "class_only_differences": len(classdiff),
            "rule": "TLC enumerates module descriptors = nominal module with one boundary variation (limit-1/limit/limit+1 of every "
                    "limit, every host import with right and 3 wrong signatures, float/start/proposal/export-name/segment classes) "
                    "and pairs of variations of different rule families, x VM versions; each is rendered to WAT, its structure "
                    "re-parsed with wasmparser 0.224 and compared with the spec's descriptor, validated by ScryptoV1WasmValidator "
                    "(catch_unwind) and the verdict compared with Accept/Verdict of WasmRules.tla; accepted outputs are re-parsed and "
                    "compared field by field with Instr(s). Totality: seeded random byte strings, mutated modules and repository "
                    "*.wasm blobs (+mutants) validated; TraceWasmRules decides verdict in {ok,err}, Sandbox(in), PostOK(in,out), "
                    "OutLimits(out). distinct = distinct (descriptor, version) cases + accepted recorded inputs"}


def diff_from_nominal(nom, d):
    return {k: v for k, v in d.items() if nom.get(k) != v}


GENOME_WEIGHTS = [1, 1, 1, 1, 2, 2, 1, 2, 2, 1, 2, 1, 3, 3, 2, 2]   # favours calls, ifs and binary operators


def C46(ctx):
    q = ctx.quick
    from concurrent.futures import ThreadPoolExecutor
    # seeded genomes (the decoder, the semantics and all expectations are TLA+)
    # half of the quick genomes come from a FIXED seed (so that every construct / trap kind / path mark is
    # present whatever VERIF_SEED is), the rest from ctx.seed
    rng = random.Random(ctx.seed)
    n_rand = 400 if q else 20000
    fixed = random.Random(460046)
    genomes = [fixed.choices(range(16), weights=GENOME_WEIGHTS, k=30) for _ in range(200)]
    genomes += [rng.choices(range(16), weights=GENOME_WEIGHTS, k=30) for _ in range(n_rand - 200)]
    nproc = 4 if q else 8
    size = (len(genomes) + nproc - 1) // nproc
    gfiles = []
    for i in range(nproc):
        gp = ctx.wpath("meter-genomes-%d.ndjson" % i)
        write_ndjson(gp, genomes[i * size:(i + 1) * size])
        gfiles.append(gp)
    # S + G in one pass per family: TLC evaluates the reference semantics, checks the laws of the model
    # (limiter invisible at call depth <= 3; recursion family traps exactly above the limit; path determines the
    # kind of outcome) and prints the cases with the expected outcomes
    jobs = [("exh", dict(consts={"Mode": '"exh"', "GLen": "2" if q else "3"}, workers=4)),
            # recursion family: paddings 3, 5, 8 give frame costs 10, 12, 15, for which the accounted height hits the
            # limit EXACTLY (4 + k*cost = 1024) - the tie of the `>` comparison - in both tiers
            ("rec", dict(consts={"Mode": '"rec"', "RecPads": "{3, 5, 8}" if q else "{0, 2, 3, 4, 5, 8}"}, workers=2))]
    for i, gp in enumerate(gfiles):
        jobs.append(("file%d" % i, dict(consts={"Mode": '"file"'}, env={"GENOMES": gp}, workers=1)))

    def run(job):
        name, kw = job
        r = tlc("WasmMeter", "MCWasmMeter", coverage=False, **kw)
        tlc_must_pass(r, "MCWasmMeter(%s)" % name)
        return name, r
    with ThreadPoolExecutor(max_workers=4 if q else 6) as ex:
        res = list(ex.map(run, jobs))
    cases = []
    fam = {}
    for name, r in res:
        ctx.add_tlc(r)
        cs = r.printed("B")
        fam[name[:4]] = fam.get(name[:4], 0) + len(cs)
        cases += cs
    for gp in gfiles:
        os.unlink(gp)
    if fam.get("exh", 0) < 256 or fam.get("rec", 0) < 6 or fam.get("file", 0) != n_rand:
        raise ToolError("case generation incomplete: %s" % fam)
    # keep programs with at least one modelled run; de-duplicate programs
    seen = set()
    uniq = []
    for c in cases:
        k = json.dumps(c["P"])
        if k in seen or all(r["x"] for r in c["runs"]):
            continue
        seen.add(k)
        uniq.append(c)
    cases = uniq
    # non-vacuity of the generated programs: every construct and every outcome kind occurs
    tags, kinds, marks = set(), set(), set()

    def walk(x):
        if isinstance(x, list):
            if x and isinstance(x[0], str):
                tags.add(x[0])
            for y in x:
                walk(y)
    shared = 0
    for c in cases:
        walk(c["P"])
        byp = {}
        for r in c["runs"]:
            if not r["x"]:
                kinds.add(r["exp"]["o"] + ":" + r["exp"].get("k", ""))
                marks.update(p[0] for p in r["path"])
                byp[json.dumps(r["path"])] = byp.get(json.dumps(r["path"]), 0) + 1
        shared += sum(1 for v in byp.values() if v > 1)
    need_tags = {"c", "l", "add", "sub", "mul", "divu", "lts", "eqz", "load", "grow", "call", "ife", "set", "store", "if",
                 "loop", "block", "ret", "unr", "drop", "self"}
    need_kinds = {"ok:", "trap:Unreachable", "trap:DivZero", "trap:MemOOB"}
    need_marks = {"T", "F", "again", "exit", "br", "call", "trap"}
    if need_tags - tags or need_kinds - kinds or need_marks - marks or shared < 50:
        raise ToolError("vacuous program set: missing %s %s %s, %d shared paths"
                        % (need_tags - tags, need_kinds - kinds, need_marks - marks, shared))
    ctx.sample({"case": {"P": cases[len(cases) // 2]["P"], "runs": cases[len(cases) // 2]["runs"][:2]}})
    ctx.sample({"case": {"P": cases[-1]["P"], "runs": cases[-1]["runs"][:2]}})
    # G: run original (plain wasmi) and instrumented (validator + WasmiModule) and compare with the model
    tp = ctx.wpath("meter-trace.ndjson")
    mism, other, done = run_cases(ctx, "meter", cases, vh_args=["trace=" + tp])
    for o in mism:
        c = cases[o["b"]]
        if o["mismatch"] in ("render", "validate", "compile"):
            raise ToolError("test program could not be prepared: %s" % json.dumps(o)[:400])
        run_ = c["runs"][o["step"]]
        got = o["got"]
        if isinstance(got, dict) and got.get("o") == "panic":
            key = "meter:panic"
        else:
            key = "meter:" + o["mismatch"].replace(" ", "-")
        ctx.violation(key, "program %s arg %d: %s expected %s got %s"
                      % (json.dumps(c["P"])[:300], run_["arg"], o["mismatch"], json.dumps(o["exp"])[:160], json.dumps(got)[:160]),
                      {"module": "meter", "program": c["P"], "run": run_, "mismatch": o})
    # binding self-test (G)
    w = json.loads(json.dumps(next(c for c in cases if any((not r["x"]) and r["exp"]["o"] == "ok" for r in c["runs"]))))
    ri = next(i for i, r in enumerate(w["runs"]) if (not r["x"]) and r["exp"]["o"] == "ok")
    w["runs"][ri]["exp"]["v"] += 1
    w2 = json.loads(json.dumps(w))
    w2["runs"][ri]["exp"]["v"] -= 1
    w2["runs"][ri]["expOrig"] = {"o": "trap", "k": "DivZero"}
    m2, _, _ = run_cases(ctx, "meter", [w, w2], name="meter-selftest")
    if {(o["b"], o["mismatch"]) for o in m2} != {(0, "instrumented outcome"), (1, "original outcome")}:
        raise ToolError("binding self-test (replay) failed: %s" % m2)
    # T: cost / path / budget relations (and outcomes again, with the semantics re-evaluated by TLC)
    evs = read_ndjson(tp)
    os.unlink(tp)
    if len(evs) != len(cases):
        raise ToolError("recorded %d programs of %d" % (len(evs), len(cases)))
    ctx.sample({"trace_event": {"P": evs[len(evs) // 3]["P"], "frameCosts": evs[len(evs) // 3]["frameCosts"],
                                "runs": [{k: v for k, v in r.items() if k not in ("exp", "expOrig")} for r in evs[len(evs) // 3]["runs"][:2]]}})

    def key(ev):
        for r in ev["runs"]:
            if r["instr"].get("o") == "panic" or r["orig"].get("o") == "panic":
                return "meter:panic"
        return "meter:trace"
    calls_check(ctx, "WasmMeter", "TraceWasmMeter", evs, "meter", key, "metered execution recording", chunks=4 if q else 12)
    # binding self-test (T): corrupted recordings must be rejected
    base = next(e for e in evs if len(e["runs"]) >= 2 and e["runs"][0]["path"] == e["runs"][1]["path"] and e["runs"][0]["instr"]["o"] == "ok")
    cor = []
    for f in (lambda e: e["runs"][0].update(cost=e["runs"][0]["cost"] + 1, atCostCost=e["runs"][0]["cost"] + 1),  # same path, other cost
              lambda e: e["runs"][0]["instr"].__setitem__("v", e["runs"][0]["instr"]["v"] + 1),
              lambda e: e["runs"][0].__setitem__("below", e["runs"][0]["instr"]),            # budget not enforced
              lambda e: e["runs"][0].__setitem__("orig", {"o": "trap", "k": "Unreachable"}),
              lambda e: e["runs"][1].__setitem__("atCost", {"o": "OutOfBudget"}),
              lambda e: e["runs"][1].__setitem__("cost", 0)):
        e = json.loads(json.dumps(base))
        f(e)
        cor.append(e)
    must_reject("WasmMeter", "TraceWasmMeter", cor, "meter", "TraceWasmMeter")
    runs = sum(len(e["runs"]) for e in evs)
    return {"exhaustive": False, "distinct_nontrivial": len(cases), "programs": len(cases), "runs": runs,
            "programs_with_shared_paths": shared, "families": fam,
            "rule": "TLC decodes programs of the miniature language from genomes (all genomes of length %s over 16 symbols, %d "
                    "seeded genomes of length 30, the recursion family around the stack limit), evaluates the reference "
                    "semantics on 8 boundary arguments and prints expected value / memory words / memory.size / trap kind / path. "
                    "Each program is compiled 1:1 to WAT; the original runs in plain wasmi, the output of "
                    "ScryptoV1WasmValidator::validate runs through WasmiModule::invoke_export with a recording runtime "
                    "(unlimited budget, budget = cost, cost-1, cost/2). Outcomes compared with the model; TraceWasmMeter "
                    "re-evaluates the semantics and decides outcome equality, same path => same cost, budget rules. "
                    "distinct = distinct programs with at least one modelled run" % ("2" if q else "3", n_rand)}


def C47(ctx):
    q = ctx.quick
    from concurrent.futures import ThreadPoolExecutor
    # S: exhaustive 16-cell instance (every ptr/len pair, reads, writes, grows; position-tagged cells)
    # G: boundary classes at real scale, expected bytes computed by TLA+  (independent TLC runs, concurrently)
    jobs = [("S", "MCWasmMem", dict(workers=4, coverage=False) if q else dict(workers=4, consts={"MaxOps": 3}))]
    for name, fset in (("G1", "{1,2,3,4,5,6,7,8}"), ("G2", "{9,10,11,12,13,14,15,16,17,18,19}"),
                       ("G3", "{20,21,22,23,24,25,26,27,28,29,30}")):
        # 1 page and (quick and thorough) the grown 2-page memory: full class product for EVERY host function
        jobs.append((name, "GenWasmMem", dict(workers=2, coverage=False, consts={"PageSet": "{1, 2}", "FnSet": fset})))
    # only the 0-page and the 64-page memories (slow to fill) use a subset of the functions in quick
    jobs.append(("Gsizes", "GenWasmMem", dict(workers=2, coverage=False,
                                              consts={"PageSet": "{0, 64}", "FnSet": "{1, 4, 14, 17}" if q else "{}"})))
    if not q:
        jobs.append(("Gsizes2", "GenWasmMem", dict(workers=2, coverage=False,
                                                   consts={"PageSet": "{3, 63}", "FnSet": "{1, 2, 4, 13, 14, 17}"})))

    def run(job):
        name, mod, kw = job
        rr = tlc("WasmMem", mod, **kw)
        return name, rr
    with ThreadPoolExecutor(max_workers=3 if q else 4) as ex:
        res = dict(ex.map(run, jobs))
    r = res.pop("S")
    if q:
        tlc_must_pass(r, "MCWasmMem")
        if r.distinct < 20000:      # 3 initial + reads + writes + grows and their successors
            raise ToolError("MCWasmMem explored only %d states" % r.distinct)
    else:
        tlc_must_pass(r, "MCWasmMem", required_actions=["HostRead", "HostWrite", "Grow"])
    ctx.add_tlc(r)
    cases, fns = [], []
    seen_cases = set()
    for name in sorted(res):
        g = res[name]
        tlc_must_pass(g, "GenWasmMem(%s)" % name)
        fns = g.printed("FNS") or fns
        for c in g.printed("B"):
            k = json.dumps(c, sort_keys=True)
            if k not in seen_cases:       # "ret"/"consume" cases are emitted by every G run
                seen_cases.add(k)
                cases.append(c)
    if len(fns) < 1 or len(fns[0]["fns"]) < 30:
        raise ToolError("host function table not emitted")
    if {c.get("fn") for c in cases if c["op"] == "host"} != {f["n"] for f in fns[0]["fns"]}:
        raise ToolError("not every host function of the table has cases")
    for pick in (lambda c: c["op"] == "host" and c["exp"]["ok"] and c["args"][1] != [0, 0],
                 lambda c: c["op"] == "host" and not c["exp"]["ok"],
                 lambda c: c["op"] == "consume" and c["exp"]["ok"] and c["blen"] > 1):
        ctx.sample({"case": next(c for c in cases if pick(c))})
    mism, other, done = run_cases(ctx, "mem", cases)
    for o in mism:
        c = cases[o["b"]]
        got = o["got"]
        if o["mismatch"] == "outcome" and isinstance(got, dict) and got.get("outcome") == "setup":
            raise ToolError("test module could not be set up: %s" % json.dumps(o)[:300])
        if o["mismatch"] == "outcome" and isinstance(got, dict) and got.get("outcome") == "panic":
            key = "mem:panic:" + c["op"]
        else:
            key = "mem:%s:%s" % (c["op"], o["mismatch"].replace(" ", "-"))
        ctx.violation(key, "%s %s pages=%d args=%s: %s expected %s got %s"
                      % (c["op"], c.get("fn", ""), c["pages"], json.dumps(c.get("args", c["ret"])), o["mismatch"],
                         json.dumps(o["exp"])[:200], json.dumps(got)[:200]), {"module": "mem", "case": c, "mismatch": o})
    n_ok = sum(1 for c in cases if c["exp"]["ok"])
    if n_ok < 300 or len(cases) - n_ok < 300:
        raise ToolError("unbalanced cases: %d in bounds, %d out of bounds" % (n_ok, len(cases) - n_ok))
    # binding self-test (G): a flipped expected byte and a flipped expected outcome must be reported
    a = json.loads(json.dumps(next(c for c in cases if c["op"] == "host" and c["exp"]["ok"] and c["exp"]["bufs"][0]["n"] > 3)))
    a["exp"]["bufs"][0]["at"][1] ^= 1
    b = json.loads(json.dumps(next(c for c in cases if c["op"] == "ret" and not c["exp"]["ok"])))
    b["exp"]["ok"] = True
    m2, _, _ = run_cases(ctx, "mem", [a, b], name="mem-selftest")
    if {(o["b"], o["mismatch"]) for o in m2} != {(0, "bytes received by the host"), (1, "outcome")}:
        raise ToolError("binding self-test (replay) failed: %s" % m2)
    # T: seeded random raw arguments, decided by TraceWasmMem
    fp = ctx.wpath("mem-fns.ndjson")
    write_ndjson(fp, fns[:1])
    tp = ctx.wpath("mem-trace.ndjson")
    vh(BIN, ["mem", "record", "seed=%d" % ctx.seed, "n=%d" % (1000 if q else 60000), "threads=%d" % THREADS,
             "big=%d" % (1 if q else 2)], stdin_path=fp, stdout_path=tp)
    evs = read_ndjson(tp)
    os.unlink(tp)
    os.unlink(fp)
    oks = [e for e in evs if e["got"]["outcome"] == "ok"]
    if len(oks) < len(evs) // 10:
        raise ToolError("recorded accesses are almost all out of bounds (%d of %d ok)" % (len(oks), len(evs)))
    ctx.sample({"trace_event": next(e for e in evs if e["op"] == "host" and e["got"]["outcome"] == "ok")})
    ctx.sample({"trace_event": next(e for e in evs if e["got"]["outcome"] != "ok")})

    def key(ev):
        oc = ev["got"]["outcome"]
        if oc == "panic":
            return "mem:panic:" + ev["op"]
        if oc not in ("ok", "MemoryAccessError"):
            return "mem:%s:other-error" % ev["op"]
        return "mem:%s:trace" % ev["op"]
    calls_check(ctx, "WasmMem", "TraceWasmMem", evs, "mem", key, "host memory access recording", chunks=4 if q else 12)
    # binding self-test (T)
    good = next(e for e in evs if e["op"] == "host" and e["got"]["outcome"] == "ok" and e["got"]["bufs"][0]["n"] > 0)
    bad_oob = next(e for e in evs if e["op"] == "host" and e["got"]["outcome"] == "MemoryAccessError")
    cor = []
    for base, f in ((good, lambda e: e["got"]["bufs"][0]["at"].__setitem__(0, (e["got"]["bufs"][0]["at"][0] + 1) % 256)),
                    (good, lambda e: e["got"]["bufs"][0].__setitem__("n", e["got"]["bufs"][0]["n"] + 1)),
                    (good, lambda e: e["got"].__setitem__("outcome", "panic")),
                    (good, lambda e: e.__setitem__("got", {"outcome": "MemoryAccessError", "calls": 0})),
                    (bad_oob, lambda e: e.__setitem__("got", {"outcome": "ok", "calls": 1, "bufs": [], "ret": {"ok": True, "n": 0, "pr": [], "at": []}}))):
        e = json.loads(json.dumps(base))
        f(e)
        cor.append(e)
    must_reject("WasmMem", "TraceWasmMem", cor, "mem", "TraceWasmMem")
    nbuf = sum(f["lay"].count("P") for f in fns[0]["fns"])
    distinct = len({json.dumps([c["op"], c.get("fn"), c.get("args"), c["ret"], c["pages"], c.get("blen")]) for c in cases}) \
        + len({json.dumps([e["op"], e.get("fn"), e.get("args"), e["ret"], e["pages"], e.get("blen")]) for e in evs})
    return {"exhaustive": False, "distinct_nontrivial": distinct, "cases": len(cases), "recorded": len(evs),
            "recorded_in_bounds": len(oks), "host_functions": len(fns[0]["fns"]), "buffer_arguments": nbuf,
            "rule": "TLC enumerates, for every buffer argument of every buffer-taking host import (%d functions, %d buffer arguments), "
                    "the returned slice of an export and buffer_consume, the (ptr,len) classes {0,1,16,size-1,size,size+1,2^31,"
                    "2^32-size,2^32-1}^2 for memory sizes reached by memory.grow, with the expected outcome (InBounds in the "
                    "naturals) and the expected bytes at probe offsets of a position-dependent pattern; each case runs in a real "
                    "WasmiModule instance with a recording WasmRuntime; outcomes and bytes compared. Seeded random raw arguments "
                    "are recorded and decided by TraceWasmMem. distinct = distinct (op, function, args, size) tuples" % (len(fns[0]["fns"]), nbuf)}


PROPS = {
    "C45": dict(fn=C45, level="model_checking", design_ref="5/C45",
                technique="TLA+ spec WasmRules: TLC checks Accept=>Sandbox and PostOK(Instr) on all single/pairwise boundary variations; "
                          "TLC-emitted module descriptors rendered to WAT and replayed into ScryptoV1WasmValidator with expected verdict and "
                          "expected output structure; fuzzed bytes / mutants / repository blobs trace-validated (totality, Sandbox, PostOK)",
                text="The validator's rule set is specified over a structural module descriptor (imports with signatures, memories, tables, "
                     "function/param/local/global/br_table counts, exports, start, floats) with the limits read from the code. TLC proves on "
                     "the bounded universe (nominal, every single boundary variation, every pair of variations of different rule families, "
                     "3 VM versions) that the conjunction of rules equals the pipeline verdict, that every accepted descriptor satisfies the "
                     "statement (Sandbox) and that the predicted instrumented output satisfies PostOK; every reject class is reachable. The "
                     "same cases are rendered to real WASM and run through ScryptoV1WasmValidator::validate; verdicts and the re-parsed "
                     "structure of the instrumented output must equal what TLA+ computed. Random bytes, structured mutants and all distinct "
                     "repository .wasm files are validated under catch_unwind and TraceWasmRules decides totality, Sandbox(in), PostOK(in,out).",
                note="Trusted: TLC; the wat crate; the harness projection of binaries to descriptors (wasmparser 0.224, independent of the "
                     "wasmparser 0.107 inside the code under test). Instruction-level type validation is wasmparser's and is not specified; "
                     "the descriptor abstracts function bodies (only float use, br_table sizes, calls, metering/stack-check patterns are "
                     "projected). Error classes are compared only as non-vacuity evidence (each class must be confirmed at least once), "
                     "the property itself is about accept/reject. Metering presence is checked structurally here (every original function "
                     "starts with a positive charge unless it contains only zero-cost instructions); its semantics is C46."),
    "C46": dict(fn=C46, level="model_checking", design_ref="5/C46",
                technique="TLA+ spec WasmMeter: reference semantics of a miniature structured language (1:1 to WAT) incl. the stack "
                          "limiter's accounting; TLC-generated programs x arguments executed uninstrumented (plain wasmi) and "
                          "instrumented (validator output in WasmiModule, recording runtime); outcomes vs model, cost/path/budget "
                          "relations decided by TraceWasmMeter",
                text="WasmMeter.tla gives a big-step semantics (value | trap kind, memory words, memory.size, path of control decisions) "
                     "for programs built from const, local.get/set, add/sub/mul/div_u, eqz/lt_s, if-else, loop+br_if, block+br/br_if, "
                     "call (depth <= 3), return, unreachable, i32.load/store, memory.grow, and models the stack limiter exactly as "
                     "radix-wasm-instrument computes frame costs. TLC checks the model's laws and emits programs with expected "
                     "outcomes; the harness compiles them to WAT, runs the original in plain wasmi and the repository-instrumented "
                     "module through WasmiModule with a recording WasmRuntime. Original = instrumented = model for every run; the "
                     "recorded cost is equal for runs of a program with the same path, positive, unchanged with budget = cost, and any "
                     "smaller budget yields exactly an out-of-budget error; deep recursion traps exactly where the accounted stack "
                     "height exceeds 1024.",
                note="Trusted: TLC, wat, wasmi as the executor of both modules (a wasmi bug common to both runs is invisible unless it "
                     "contradicts the model). The language is i32-only and covers integer/control/memory instructions, not the full ISA "
                     "(no br_table, call_indirect, globals, i64 arithmetic); runs needing 64-bit reasoning (mul overflow, some div_u), "
                     "unaligned accesses or more than 40 loop iterations are dropped. Cost is checked relationally (function of the "
                     "path, budget behaviour), absolute weights are not specified. The stack-limit trap is observed as wasmi's "
                     "'unreachable' trap. Path = sequence of control decisions, calls and the trap site of the model."),
    "C47": dict(fn=C47, level="model_checking", design_ref="5/C47",
                technique="TLA+ spec WasmMem: TLC exhaustive check of a 16-cell memory model (reads/writes/grows, every ptr/len pair); "
                          "TLC-emitted boundary cases at real scale replayed into WasmiModule host functions with a recording WasmRuntime; "
                          "seeded random accesses trace-validated",
                text="The rule 'a host access of (ptr,len) succeeds iff ptr+len <= pages*65536 with the sum taken in the naturals, and then "
                     "concerns exactly the cells ptr..ptr+len-1' is specified with pointers as (hi,lo) pairs. TLC checks on a 16-cell "
                     "pointer space that the pair arithmetic equals natural-number arithmetic, that reads return exactly the addressed "
                     "position-tagged cells, that writes change exactly the addressed cells or nothing, and that the universe contains "
                     "the wrap-around witnesses. At real scale TLC emits every boundary class for every buffer argument of every "
                     "buffer-taking host function, the export's returned slice and buffer_consume; the harness runs each in a real "
                     "wasmi instance whose memory holds a position-dependent pattern and compares the bytes the host received "
                     "(or the error) with TLA+'s expectation. Seeded random raw arguments are recorded and decided by TraceWasmMem.",
                note="Trusted: TLC, wat, wasmi's Memory::data/write themselves (the check is about the engine's read_memory/write_memory/"
                     "read_slice shims and every host function's use of them), the recording runtime. Large buffers are compared at probe "
                     "offsets (first/last bytes, page boundaries, middle), not byte by byte. The real ScryptoRuntime behind the shims "
                     "(decoding of the received bytes) is not part of this property. test_host_* functions (test-only feature) are "
                     "not included."),
}

"""Fees: FeeReserve (C06), TxFailure (C02).  Harness binary: vh_fee."""
import json, os, collections
from concurrent.futures import ThreadPoolExecutor
import core
from core import tlc, tlc_must_pass, vh, ToolError, write_ndjson, validate_trace

BIN = "vh_fee"
L3_KEY = "finalize_fees_for_commit required==0: price*(1+tip) truncated (non-protocol costing parameters)"


def events_of(args, stdin_path=None, timeout=3000):
    rc, out = vh(BIN, args, stdin_path=stdin_path, timeout=timeout)
    return [json.loads(l) for l in out.splitlines() if l.strip()]


def split_runs(events, parts, starts=("new", "outcome")):
    """cut a recording into `parts` traces at boundaries where the trace module needs no state (a `new` or an `outcome`)"""
    cuts = [i for i, e in enumerate(events) if e["a"] in starts]
    if not cuts or cuts[0] != 0:
        raise ToolError("recording does not start with a self-contained event")
    size = max(1, len(events) // parts)
    res, start = [], 0
    for c in cuts[1:]:
        if c - start >= size and len(res) < parts - 1:
            res.append(events[start:c])
            start = c
    res.append(events[start:])
    return res


def validate_recording(ctx, events, name, spec_dir, module, parts, key_of, libs=(), starts=("new", "outcome")):
    """stateful trace validation of a recording, split over `parts` TLC processes; the first unmatched event of a
    part is a violation"""
    chunks = split_runs(events, parts, starts)

    def run(i):
        p = ctx.wpath("%s-%d.ndjson" % (name, i))
        write_ndjson(p, chunks[i])
        ok, idx, r = validate_trace(spec_dir, module, p, timeout=3000, heap="3g", libs=libs)
        os.unlink(p)
        return ok, idx

    with ThreadPoolExecutor(max_workers=min(len(chunks), 10 if ctx.quick else 6)) as ex:
        results = list(ex.map(run, range(len(chunks))))
    bad = []
    for i, (ok, idx) in enumerate(results):
        ctx.cov["evaluations"] += len(chunks[i])
        if not ok:
            ev = chunks[i][idx - 1] if idx and idx <= len(chunks[i]) else None
            bad.append(ev)
            ctx.violation(key_of(ev), "%s: event %s of part %d is not what the specification computes: %s"
                          % (name, idx, i, json.dumps(ev)[:400]), {"trace_module": module, "event": ev,
                                                                    "context": chunks[i][max(0, (idx or 1) - 6):(idx or 1)]})
    return bad


def fee_key(ev):
    if ev is None:
        return "fee:trace"
    if ev["a"] == "call":
        return "fee_reserve:%s" % ev["c"]["op"]
    return "fee_reserve:%s" % ev["a"] if ev["a"] != "outcome" else "fee_outcome"


# ---------------------------------------------------------------------------------------------
def C06(ctx):
    q = ctx.quick
    core.build_harness(BIN)
    calls = 3 if q else 6
    with ThreadPoolExecutor(max_workers=4) as ex:
        f_e = ex.submit(tlc, "FeeReserve", "MCFeeReserve", cfg="MC_exact", workers=3, timeout=3000, coverage=False, consts={"MaxCalls": calls})
        f_i = ex.submit(tlc, "FeeReserve", "MCFeeReserve", cfg="MC_inexact", workers=3, timeout=3000, coverage=False, consts={"MaxCalls": calls})
        f_l = ex.submit(tlc, "FeeReserve", "MCFeeReserve", cfg="MC_L3", workers=1, timeout=3000, coverage=False)
        f_g = ex.submit(tlc, "FeeReserve", "GenFeeReserve", workers=1, coverage=False, timeout=3000, simulate=120 if q else 3000,
                        depth=11, seed=ctx.seed, out_file=ctx.wpath("gen.out"))
        r_e, r_i, r_l, r_g = f_e.result(), f_i.result(), f_l.result(), f_g.result()
    if os.path.exists(ctx.wpath("gen.out")):
        os.unlink(ctx.wpath("gen.out"))
    tlc_must_pass(r_e, "MCFeeReserve exact prices (Paid, Split, Refund, Limits, OwedMeansReject, FailureHasNoRoyalty, NoAssertionTrip, Running)")
    tlc_must_pass(r_i, "MCFeeReserve inexact prices (the same, NoAssertionTrip only under PriceTipExact)")
    ctx.add_tlc(r_e)
    ctx.add_tlc(r_i)
    if r_l.violated != "NoAssertionTripAlways":
        raise ToolError("lead L3: the model is expected to trip the executor's assertion for inexact price x tip; TLC said %s" % r_l.violated)
    if not r_g.ok:
        raise ToolError("GenFeeReserve failed")
    seqs = r_g.printed("B")
    r_g.out = ""
    if len(seqs) < 100:
        raise ToolError("GenFeeReserve produced only %d call sequences" % len(seqs))
    sp = ctx.wpath("seqs.ndjson")
    write_ndjson(sp, seqs)
    unit_g = events_of(["reserve", "run"], stdin_path=sp)
    os.unlink(sp)
    unit_t = events_of(["reserve", "random", "seed=%d" % ctx.seed, "n=%d" % (60 if q else 2000)])
    # deterministic boundary product (both tiers; no seed): (5 parameter classes x 6 tip kinds) x (kind of the last call) x
    # (balance one atto below / equal to / one atto above what it needs), unit limits -1 / 0 / +1, zero amounts,
    # contingent-only locks, abort exactly at repayment
    unit_b = events_of(["reserve", "boundary", "full=%d" % (0 if q else 1)])
    summary = unit_b.pop()
    if summary["a"] != "boundary_summary" or summary["sequences"] < 1500:
        raise ToolError("boundary recording incomplete: %s" % summary)
    bres = collections.Counter((e["c"]["op"], e["res"]) for e in unit_b if e["a"] == "call")
    for op, cls in (("consumeExecution", "InsufficientBalance"), ("consumeExecution", "LoanRepaymentFailed"), ("consumeExecution", "LimitExceeded"),
                    ("consumeExecution", "Abort"), ("consumeFinalization", "InsufficientBalance"), ("consumeFinalization", "LimitExceeded"),
                    ("consumeStorage", "InsufficientBalance"), ("consumeRoyalty", "InsufficientBalance"), ("repayAll", "LoanRepaymentFailed"),
                    ("repayAll", "Abort"), ("repayAll", "LimitExceeded"), ("repayAll", "ok"), ("revertRoyalty", "ok")):
        if bres[(op, cls)] == 0:
            raise ToolError("vacuous boundary recording: no %s with result %s" % (op, cls))
    hist = events_of(["ledger", "history", "seed=%d" % ctx.seed, "n=%d" % (60 if q else 600)])
    scen = events_of(["ledger", "scenarios", "max=%d" % (3 if q else 1000)] + (["also=royalties"] if q else []))
    outcomes = [e for e in hist + scen if e["a"] == "outcome"]
    rejected = [e for e in hist if e["a"] == "skipped"]
    res = collections.Counter(e["res"] for e in unit_g + unit_t if e["a"] == "call")   # (without the boundary recording)
    for cls in ("ok", "InsufficientBalance", "LimitExceeded", "LoanRepaymentFailed", "Abort"):
        if res[cls] == 0:
            raise ToolError("vacuous recording: no call with result " + cls)
    if len(outcomes) < 30 or not any(not e["ok"] for e in outcomes) or not any(len(e["paid"]) >= 2 for e in outcomes):
        raise ToolError("vacuous ledger recording: %d outcomes" % len(outcomes))
    if not any(len(e["dest"]["royalties"]) >= 2 for e in outcomes):
        raise ToolError("vacuous ledger recording: no royalty payment")
    ctx.sample({"unit_call_event": next(e for e in unit_g if e["a"] == "call" and e["res"] == "ok")})
    ctx.sample({"fee_outcome_event": {k: v for k, v in outcomes[0].items() if k != "p"}})
    recording = unit_g + unit_t + unit_b + outcomes
    validate_recording(ctx, recording, "fee", "FeeReserve", "TraceFeeReserve", 10 if q else 12, fee_key)
    ctx.cov["traces_validated_against_impl"] += sum(1 for e in recording if e["a"] in ("new", "outcome"))

    # binding self-test: a wrong balance, a wrong share, a wrong refund must be rejected
    def first(pred, evs):
        return next(i for i, e in enumerate(evs) if pred(e))
    def self_test(item):
        what, evs, mut = item
        bad = json.loads(json.dumps(evs))
        mut(bad)
        p = ctx.wpath("self-%s.ndjson" % what.replace(" ", "_"))
        write_ndjson(p, bad)
        ok, idx, _ = validate_trace("FeeReserve", "TraceFeeReserve", p, timeout=900, heap="2g")
        os.unlink(p)
        return what, ok
    items = (
        ("fee_balance", unit_g[:40], lambda evs: evs[first(lambda e: e["a"] == "call" and e["res"] == "ok" and e["balance"]["l"], evs)]["balance"]["l"].__setitem__(0, 4242)),
        ("to_burn", outcomes[:3], lambda evs: evs[1]["dest"]["toBurn"]["l"].__setitem__(0, (evs[1]["dest"]["toBurn"]["l"][0] + 1) % 10000)),
        ("vault refund", outcomes[:3], lambda evs: evs[2]["vaults"][0]["after"]["l"].__setitem__(0, (evs[2]["vaults"][0]["after"]["l"][0] + 1) % 10000)))
    with ThreadPoolExecutor(max_workers=3) as ex:
        for what, ok in ex.map(self_test, items):
            if ok:
                raise ToolError("binding self-test of TraceFeeReserve: corrupted %s accepted" % what)

    # lead L3 at ledger level: bisect the locked fee for a non-protocol price with a tip; controls without tip / protocol price
    probe = events_of(["ledger", "l3", "tip=1", "price_attos=50000000001"])[-1]
    ctl1 = events_of(["ledger", "l3", "tip=0", "price_attos=50000000001"])[-1]
    ctl2 = events_of(["ledger", "l3", "tip=1", "price_attos=50000000000"])[-1]
    if ctl1["panics_in_window"] or ctl2["panics_in_window"]:
        ctx.violation("finalize_fees_for_commit panic with exact price x tip", "the executor panicked although price*(1+tip) is exact: %s"
                      % json.dumps(ctl1 if ctl1["panics_in_window"] else ctl2)[:400], {"probe": ctl1, "probe2": ctl2})
    if probe["panics_in_window"]:
        ctx.violation(L3_KEY, "execute_transaction panics ('%s') for execution/finalization price %s attos (SystemOverrides), tip %d %%, "
                              "lock_fee of %s attos .. +%s attos: the reserve charges trunc(price*(1+tip))*units, finalize recomputes "
                              "price*units + trunc(price*units*tip)"
                      % (next(w["outcome"] for w in probe["window"] if w["outcome"].startswith("panic"))[:90], probe["price_attos"],
                         probe["tip_percentage"], probe["boundary_lock_attos"], probe["first_success_minus_boundary"]),
                      {"probe": probe, "controls": [ctl1, ctl2]})
    distinct = sum(1 for e in unit_b if e["a"] == "new") + len({json.dumps(s, sort_keys=True) for s in seqs}) + len({e["label"] for e in outcomes}) \
        + sum(1 for e in unit_t if e["a"] == "new")
    return {"exhaustive": True, "distinct_nontrivial": distinct, "unit_events": len(unit_g) + len(unit_t) + len(unit_b), "unit_call_results": dict(res),
            "boundary_sequences": summary["sequences"], "boundary_call_results": {"%s:%s" % k: v for k, v in sorted(bres.items())},
            "fee_outcomes": len(outcomes), "fee_outcomes_failed_commits": sum(1 for e in outcomes if not e["ok"]),
            "fee_outcomes_with_royalties": sum(1 for e in outcomes if e["dest"]["royalties"]), "history_rejected": len(rejected),
            "info_L3_model": "NoAssertionTripAlways violated for the inexact price family (expected); holds under PriceTipExact",
            "info_L3_ledger_probe": {k: v for k, v in probe.items() if k != "window"},
            "rule": "S: exhaustive TLC (integers, scale 10^4) over every sequence of <= %d public calls + Finish(success/failure) for 21 + 20 "
                    "parameter sets (exact / inexact price x tip, tips 0 / 1 %% / 50 %% / 1 bp / 12345 bp, loan 0 / 4, credit 0 / 50, abort). "
                    "Unit level: %d call sequences chosen by TLC and %d drawn from the seed at real scale (protocol parameters, 18-digit "
                    "prices, loan 0 / loan = limit, percentage / basis point tips up to the type maximum) run on the real SystemLoanFeeReserve; "
                    "plus the deterministic boundary product (5 parameter classes x 6 tip kinds) x (last call: execution 1 / loan-1 / loan / "
                    "loan+1 units, finalization, storage of both types, XRD / USD royalty, explicit and triggered repayment with deferred "
                    "costs) x (balance 1 atto below / equal to / 1 atto above the need, by locking exactly that or draining by a royalty "
                    "equal to the balance), unit limits -1 / 0 / +1, zero amounts, contingent-only locks, abort at repayment; "
                    "ledger level: every committed receipt of seeded histories (one / two fee vaults, contingent locks, failing manifests, "
                    "overridden costing parameters) and of %s transaction scenarios; all recorded as limbs and accepted by the specification "
                    "instantiated with BigInt (stateful trace validation); distinct = distinct sequences + outcomes"
                    % (calls, len(seqs), sum(1 for e in unit_t if e["a"] == "new"), "the first 3 and the royalties" if q else "all (every protocol version)")}


# ---------------------------------------------------------------------------------------------
def C02(ctx):
    q = ctx.quick
    core.build_harness(BIN)
    r = tlc("TxFailure", "TxFailure", cfg="MCTxFailure", workers=4, timeout=1800)
    tlc_must_pass(r, "MCTxFailure (NothingButFees, FailureClass)", required_actions=["Step", "LockFee", "ChargeRoyalty", "RepayLoan", "Fail", "Abort", "Finish"])
    ctx.add_tlc(r)
    hist = events_of(["faults", "history", "seed=%d" % ctx.seed, "n=%d" % (10 if q else 60), "points=%d" % (40 if q else 60)])
    scen = events_of(["faults", "scenarios", "max=%d" % (2 if q else 1000), "every=%d" % (3 if q else 4), "points=%d" % (30 if q else 40)]
                     + (["also=royalties"] if q else []), timeout=6000)
    # always-run (both tiers, no seed): the native test blueprint F tries to obtain the vault's privilege - fields, collection
    # entries, store entries opened with FORCE_WRITE / UNMODIFIED_BASE, an event with FORCE_WRITE - in transactions that fail
    # after lock_fee; controls without the flags; the legitimate path through an owned vault's lock_fee
    fw = events_of(["forcewrite", "attempts"])
    attempts = [e for e in fw if e["a"] == "attempt"]
    fw_receipts = [e for e in fw if e["a"] == "receipt"]
    priv = collections.Counter((e["kind"], tuple(e["flags"])) for e in attempts if set(e["flags"]) & {"FORCE_WRITE", "UNMODIFIED_BASE"})
    for kind in ("field", "collection_entry", "store_entry"):
        for fl in (("MUTABLE", "FORCE_WRITE"), ("MUTABLE", "UNMODIFIED_BASE"), ("MUTABLE", "FORCE_WRITE", "UNMODIFIED_BASE")):
            if priv[(kind, fl)] == 0:
                raise ToolError("force-write workload incomplete: no attempt %s %s" % (kind, fl))
    if priv[("event", ("FORCE_WRITE",))] == 0 or len(attempts) != len(fw_receipts) or any(e["result"] == "not reached" for e in attempts):
        raise ToolError("force-write workload incomplete: %d attempts, %d receipts" % (len(attempts), len(fw_receipts)))
    # the same from a blueprint that merely has the NAME of the privileged blueprint ("FungibleVault" in the test package)
    fake = collections.Counter((e["kind"], "FORCE_WRITE" in e["flags"]) for e in attempts if e["package"] == "test" and e["blueprint"] == "FungibleVault")
    if fake[("event", True)] == 0 or fake[("event", False)] == 0 or fake[("field", True)] == 0:
        raise ToolError("force-write workload incomplete: attempts of the blueprint named FungibleVault in the test package missing")
    by_label = {e["label"]: e for e in fw_receipts}
    for kind in (0, 1, 2, 3):
        # the controls show that the writes / the event are real: they are in the succeeding transaction
        okr = by_label.get("forcewrite:kind%d:flags0:succeeding" % kind)
        if okr is None or okr["class"] != "CommitSuccess" or not ([t for t in okr["touched"] if t.startswith("other")] if kind < 3
                                                                  else [x for x in okr["events"] if x[0] == "Ev"]):
            raise ToolError("force-write workload: control of kind %d does not write / emit in a succeeding transaction" % kind)
    if sum(1 for e in fw_receipts if e["class"] == "CommitFailure") < 15 or \
            by_label["forcewrite:kind4:flags0:failing"].get("paying", 0) < 2:
        raise ToolError("force-write workload: the attempts' transactions do not commit as failures / owned vault does not pay")
    evs = hist + scen
    receipts = [e for e in evs + fw if e["a"] == "receipt"]
    classes = collections.Counter(e["class"] for e in receipts)
    for cls in ("Reject", "CommitFailure", "CommitSuccess", "Abort"):
        if classes[cls] == 0:
            raise ToolError("vacuous fault sweep: no receipt of class " + cls)
    panics = [e for e in receipts if e["class"].startswith("panic")]
    for e in panics:
        ctx.violation("fault sweep: panic", "execution panicked with an injected costing error at call %s: %s" % (e["n"], e["class"]), {"event": e})
    if not any(e["n"] == 0 and e["royalties"] > 0 for e in receipts):
        raise ToolError("vacuous fault sweep: no workload transaction pays royalties")
    if not any(e["class"] == "CommitFailure" and e.get("paying", 0) >= 2 for e in receipts):
        raise ToolError("vacuous fault sweep: no committed failure with two fee vaults")
    sweeps = sum(1 for e in evs + fw if e["a"] == "begin")
    ctx.sample({"sweep": [e for e in evs[:6]]})
    ctx.sample({"committed_failure": next(e for e in receipts if e["class"] == "CommitFailure")})

    def key_of(ev):
        if ev is None:
            return "tx_failure:trace"
        if ev["a"] == "attempt":
            return "tx_failure:attempt:%s:%s" % (ev["kind"], ev["result"])
        return "tx_failure:%s" % ev.get("class", ev["a"])
    validate_recording(ctx, fw, "forcewrite", "TxFailure", "TraceTxFailure", 1, key_of, starts=("begin",))
    validate_recording(ctx, [e for e in evs if not e.get("class", "").startswith("panic")], "faults", "TxFailure", "TraceTxFailure",
                       3 if q else 8, key_of, starts=("begin",))
    ctx.cov["traces_validated_against_impl"] += sweeps

    # binding self-test
    def self_test(item):
        what, mut = item
        i0 = next(i for i, e in enumerate(evs) if e["a"] == "begin")
        i1 = next(i for i, e in enumerate(evs) if i > i0 and e["a"] == "begin")
        bad = json.loads(json.dumps(evs[i0:i1]))
        mut(bad)
        p = ctx.wpath("self-%s.ndjson" % what)
        write_ndjson(p, bad)
        ok, idx, _ = validate_trace("TxFailure", "TraceTxFailure", p, timeout=900, heap="2g")
        os.unlink(p)
        return what, ok

    def cf(bad):
        return next(e for e in bad if e.get("class") == "CommitFailure")

    def late_reject(bad):
        k = max(i for i, e in enumerate(bad) if e.get("class") == "CommitFailure")
        bad[k]["class"], bad[k]["touched"], bad[k]["events"] = "Reject", [], []
    items = (("touched", lambda bad: cf(bad)["touched"].append("other:GlobalAccount:64")),
             ("event", lambda bad: cf(bad)["events"].append(["WithdrawEvent", "other"])),
             ("royalty", lambda bad: cf(bad).__setitem__("royalties", 1)),
             ("order", late_reject))
    if q:
        items = (items[0], items[2], items[3])
    with ThreadPoolExecutor(max_workers=4) as ex:
        for what, ok in ex.map(self_test, items):
            if ok:
                raise ToolError("binding self-test of TraceTxFailure: corrupted %s accepted" % what)
    # ... and of the force-write part: a privileged attempt answered "ok", a component substate in the failure's receipt
    def fw_self_test(item):
        what, mut = item
        bad = json.loads(json.dumps(fw))
        mut(bad)
        p = ctx.wpath("self-fw-%s.ndjson" % what)
        write_ndjson(p, bad)
        ok, idx, _ = validate_trace("TxFailure", "TraceTxFailure", p, timeout=900, heap="2g")
        os.unlink(p)
        return what, ok, idx

    def grant(bad):
        next(e for e in bad if e["a"] == "attempt" and "FORCE_WRITE" in e["flags"] and e["kind"] == "field")["result"] = "ok"

    def survive(bad):
        next(e for e in bad if e["a"] == "receipt" and e["label"] == "forcewrite:kind0:flags1:failing")["touched"].append("other:Some(GlobalGenericComponent):64")
    with ThreadPoolExecutor(max_workers=2) as ex:
        for what, ok, idx in ex.map(fw_self_test, (("granted", grant), ("survived", survive))):
            if ok:
                raise ToolError("binding self-test of TraceTxFailure: %s force-write accepted" % what)
    distinct = len({(e["class"], tuple(e["touched"]), json.dumps(e["events"]), e.get("reason", "")[:30]) for e in receipts})
    return {"exhaustive": False, "privileged_attempts": {"%s/%s %s %s" % (e["package"], e["blueprint"], e["kind"], "|".join(e["flags"])): e["result"] for e in attempts}, "distinct_nontrivial": max(distinct, sweeps), "workload_transactions_swept": sweeps, "injected_executions": len(receipts),
            "receipt_classes": dict(classes),
            "touched_in_committed_failures": dict(collections.Counter(t for e in receipts if e["class"] == "CommitFailure" for t in e["touched"])),
            "events_in_committed_failures": dict(collections.Counter("%s@%s" % tuple(x) for e in receipts if e["class"] == "CommitFailure" for x in e["events"])),
            "rule": "S: exhaustive TLC of the receipt model (3 application substates, 2 fee vaults, royalty, <= 6 steps, Fail / Abort between "
                    "any two steps). T: for each workload transaction (%s) the number N of costing calls is found by bisection and the "
                    "transaction is re-executed on the same database state with InjectCostingError at %s; plus a run with "
                    "abort_when_loan_repaid; each receipt is projected to (class, classes of touched substates, (event name, emitter "
                    "class), royalty payments) and decided by TraceTxFailure (ReceiptOk, no rejection after a committed failure as the "
                    "injection point moves later). Always: a native test blueprint (not the fungible vault) tries to open its field, a "
                    "collection entry and an owned store's entry with MUTABLE | FORCE_WRITE, | UNMODIFIED_BASE, | both, and to emit an event with "
                    "FORCE_WRITE, writes if it is allowed to, and the transaction then fails (ASSERT_WORKTOP_CONTAINS) after lock_fee; controls "
                    "without the flags (also in a succeeding transaction), the legitimate lock_fee on an owned vault, and the event / substate "
                    "attempts again from a blueprint NAMED FungibleVault in the test package (the privilege belongs to package AND name; "
                    "another blueprint of the resource package cannot be made to emit with the flag from outside); the system's answer "
                    "(PrivilegedOpenOk: refused with InvalidLockFlags / ForceWriteEventFlagsNotAllowed) and the receipt are decided by "
                    "TraceTxFailure; distinct = distinct projected receipts"
                    % ("10 seeded manifests + every 3rd transaction of 2 scenarios and of the royalties scenario (and its royalty-paying one)" if q else "60 seeded manifests + every 4th transaction (and every royalty-paying one) of all scenarios at every protocol version",
                       "every call for N <= 40, else first / last 10 + 40 spread" if q else "every call for N <= 40..60, else first / last 10 + 40..60 spread")}


PROPS = {
    "C06": dict(fn=C06, level="model_checking", design_ref="5/C06, 6/L3",
                technique="TLA+ spec FeeReserve over an abstract number signature: exhaustive TLC with scaled integers; the same module "
                          "instantiated with BigInt validates recorded runs of SystemLoanFeeReserve and fee outcomes of committed receipts",
                text="TLC checks for every call sequence and parameter set of the bounded model that a committed transaction pays exactly "
                     "its total cost (vaults + free credit), that the cost is split exactly into proposer / validator set / burn / "
                     "royalties, that no lock pays more than it holds and contingent locks pay only on success, that the limits hold, that "
                     "an unpaid loan means rejection and that the executor's sanity assertions cannot fire when price*(1+tip) is exact. "
                     "Recorded runs of the real reserve (every result class, fee_balance(), fully_repaid(), the finalization summary and its "
                     "share methods) and the fee outcome of every committed receipt (summary recomputed from the cost units, paying vaults "
                     "against database balances before / after and the vault events, destinations, royalty vaults) are re-computed by the "
                     "specification at real scale; any difference rejects the trace.",
                note="Finding (lead L3): for costing parameters whose price*(1+tip) needs truncation (not the case for any protocol "
                     "parameter set) the running balance undercharges and finalize_fees_for_commit panics on `required == 0`; reproduced "
                     "on the ledger with SystemOverrides and reported under key '" + L3_KEY + "'. u32 / Decimal overflow paths of the "
                     "reserve are not driven. finalize_fees_for_commit and determine_result_type are private: they are bound through the "
                     "ledger receipts, not called directly."),
    "C02": dict(fn=C02, level="model_checking", design_ref="5/C02",
                technique="TLA+ spec TxFailure (receipt relation of determine_result_type / revert / fee finalization): exhaustive TLC over "
                          "all interleavings with Fail / Abort at every point; fault sweep of real transactions with InjectCostingError at "
                          "every costing call, receipts validated by TraceTxFailure",
                text="TLC checks on the model that a rejected or aborted transaction has no state updates and no events and that a "
                     "committed failure touches only fee-vault balances, the validator rewards field, the rewards vault and the "
                     "transaction tracker, emits only LockFee / PayFee / rewards Deposit / Burn events and pays no royalties, whatever the "
                     "point of failure. On the real engine every workload transaction is re-executed with a costing error injected at each "
                     "costing call (and once with abort_when_loan_repaid); the projected receipts must satisfy the same relation, and "
                     "moving the injection point later never turns a committed failure back into a rejection.",
                note="Reject / Abort receipts carry no state updates by construction of the receipt type (and nothing is committed); the "
                     "database is not hashed. The classification of touched substates is the harness projection (paying vaults from "
                     "fee_source, rewards vault id read from the consensus manager substate). The ledger invariants of C04 / C05 are not "
                     "re-evaluated after the committed failures here. Injection covers the costing hook (InjectCostingError), not other "
                     "error sources."),
}

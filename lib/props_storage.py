"""Storage column: SubstateLocks (C13), SubstateStore/Overlay (C14, C15), KeyMapper (C16),
Track (C12), StateTree (C17, C18), MerkleCommit (C19), TxTracker (C07)."""
import json, os
import core
from core import tlc, tlc_must_pass, vh, ToolError, write_ndjson, read_ndjson, validate_trace


def replay_behaviours(ctx, binary, module, behaviours, vh_args=(), what="behaviour"):
    """spec -> impl: feed behaviours to `vh <module> replay`; every mismatch is a violation."""
    if not behaviours:
        raise ToolError("no behaviours generated for " + module)
    p = ctx.wpath(module + "-beh.ndjson")
    write_ndjson(p, behaviours)
    rc, out = vh(binary, [module, "replay"] + list(vh_args), stdin_path=p)
    done = None
    for line in out.splitlines():
        o = json.loads(line)
        if "mismatch" in o:
            b = behaviours[o["b"]]
            ctx.violation("%s:%s" % (module, o["mismatch"]),
                          "%s step %d: %s expected %s got %s" % (what, o["step"], o["mismatch"],
                                                                 json.dumps(o["exp"])[:200], json.dumps(o["got"])[:200]),
                          {"module": module, "behaviour": b, "step": o["step"], "mismatch": o})
        if "done" in o:
            done = o
    if done is None or done["done"] != len(behaviours):
        raise ToolError("replay of %s did not complete" % module)
    os.unlink(p)
    ctx.cov["traces_validated_against_impl"] += len(behaviours)
    ctx.cov["evaluations"] += done["steps"]
    return done


def trace_check(ctx, spec_dir, module, trace_path, key, what, events=None, **kw):
    ok, idx, r = validate_trace(spec_dir, module, trace_path, **kw)
    evs = events if events is not None else read_ndjson(trace_path)
    ctx.cov["evaluations"] += len(evs)
    if ok:
        ctx.cov["traces_validated_against_impl"] += 1
        return True
    lo = max(0, (idx or 1) - 4)
    ctx.violation(key, "%s: trace rejected at event %s: %s" % (what, idx, json.dumps(evs[idx - 1])[:300] if idx and idx <= len(evs) else r.violated),
                  {"trace_module": module, "first_unmatched": idx, "context": evs[lo:(idx or 1) + 1],
                   "tlc_violated": r.violated})
    return False


# ---------------------------------------------------------------------------------------------
def C13(ctx):
    q = ctx.quick
    # S: exhaustive model
    r = tlc("SubstateLocks", "MCSubstateLocks", workers=8)
    tlc_must_pass(r, "MCSubstateLocks")
    ctx.add_tlc(r)
    # G: all behaviours to depth K, replayed into the real lock table
    k = 4 if q else 5
    g = tlc("SubstateLocks", "GenSubstateLocks", workers=8, coverage=False, consts={"K": k})
    beh = g.printed("B")
    # deeper seeded random behaviours
    g2 = tlc("SubstateLocks", "GenSubstateLocks", workers=4, coverage=False, consts={"K": 15},
             simulate=400 if q else 5000, depth=16, seed=ctx.seed)
    beh += g2.printed("B")
    ctx.sample({"behaviour": beh[0]})
    ctx.sample({"behaviour": beh[-1]})
    replay_behaviours(ctx, "vh_store", "locks", beh)
    distinct = len({json.dumps(b, sort_keys=True) for b in beh})
    # T: long random runs of the real code validated against the specification
    tp = ctx.wpath("locks-trace.ndjson")
    vh("vh_store", ["locks", "record", "seed=%d" % ctx.seed, "runs=%d" % (10 if q else 100), "len=%d" % (200 if q else 400)],
       stdout_path=tp)
    evs = read_ndjson(tp)
    ctx.sample({"trace_event": evs[5]})
    trace_check(ctx, "SubstateLocks", "TraceSubstateLocks", tp, "locks:trace", "lock stream", events=evs)
    os.unlink(tp)
    return {"exhaustive": True, "distinct_nontrivial": distinct,
            "rule": "all SubstateLocks behaviours of length %d over 2 nodes x 2 keys (TLC BFS) + seeded random "
                    "behaviours of length 15, each replayed step by step into SubstateLocks<()> comparing lock result, "
                    "is_locked of every substate and node_is_locked of every node; plus recorded random runs "
                    "(6 nodes x 8 keys) validated by TraceSubstateLocks; distinct = distinct behaviours" % k}


PROPS = {
    "C13": dict(fn=C13, level="model_checking", design_ref="5/C13",
                technique="TLA+ spec SubstateLocks: TLC exhaustive check + all-behaviours replay into SubstateLocks<()> + trace validation of recorded lock streams",
                text="TLC checks writer exclusivity and handle freshness on every reachable state of the lock-table "
                     "specification (2 nodes x 2 keys); every behaviour of bounded length and seeded random long behaviours "
                     "are replayed into the real SubstateLocks comparing lock results and is_locked/node_is_locked for every "
                     "substate and node after every step; recorded random runs of the real code are validated against the "
                     "specification's actions with all invariants evaluated in every state.",
                note="Trusted: TLC, the harness projection (handle renumbering, key mapping). The kernel-level use of the lock "
                     "table (open/close substate) is covered by ledger-level checks, not here."),
}

"""Storage column: SubstateLocks (C13), SubstateStore/Overlay (C14, C15), KeyMapper (C16),
Track (C12), StateTree (C17, C18), MerkleCommit (C19), TxTracker (C07)."""
import json, os, shutil
import core
from core import tlc, tlc_must_pass, vh, ToolError, write_ndjson, read_ndjson, validate_trace


def replay_behaviours(ctx, binary, module, behaviours, vh_args=(), what="behaviour", mode="replay"):
    """spec -> impl: feed behaviours to `vh <module> replay`; every mismatch is a violation."""
    if not behaviours:
        raise ToolError("no behaviours generated for " + module)
    p = ctx.wpath(module + "-beh.ndjson")
    write_ndjson(p, behaviours)
    rc, out = vh(binary, [module, mode] + list(vh_args), stdin_path=p)
    done = None
    for line in out.splitlines():
        o = json.loads(line)
        if "mismatch" in o:
            b = behaviours[o["b"]]
            ctx.violation("%s:%s:%s" % (module, mode, o["mismatch"]),
                          "%s step %d: %s expected %s got %s" % (what, o["step"], o["mismatch"],
                                                                 json.dumps(o["exp"])[:200], json.dumps(o["got"])[:200]),
                          {"module": module, "behaviour": b, "step": o["step"], "mismatch": o})
        if "done" in o:
            done = o
    if done is None or done["done"] != len(behaviours):
        raise ToolError("replay of %s did not complete" % module)
    os.unlink(p)
    ctx.cov["traces_validated_against_impl"] += len(behaviours)
    ctx.cov["evaluations"] += done["steps"]
    return done


def trace_check(ctx, spec_dir, module, trace_path, key, what, events=None, **kw):
    ok, idx, r = validate_trace(spec_dir, module, trace_path, **kw)
    evs = events if events is not None else read_ndjson(trace_path)
    ctx.cov["evaluations"] += len(evs)
    if ok:
        ctx.cov["traces_validated_against_impl"] += 1
        return True
    lo = max(0, (idx or 1) - 4)
    ctx.violation(key, "%s: trace rejected at event %s: %s" % (what, idx, json.dumps(evs[idx - 1])[:300] if idx and idx <= len(evs) else r.violated),
                  {"trace_module": module, "first_unmatched": idx, "context": evs[lo:(idx or 1) + 1],
                   "tlc_violated": r.violated})
    return False


# ---------------------------------------------------------------------------------------------
def C13(ctx):
    q = ctx.quick
    # S: exhaustive model
    r = tlc("SubstateLocks", "MCSubstateLocks", workers=8)
    tlc_must_pass(r, "MCSubstateLocks")
    ctx.add_tlc(r)
    # G: all behaviours to depth K, replayed into the real lock table
    k = 4 if q else 5
    g = tlc("SubstateLocks", "GenSubstateLocks", workers=8, coverage=False, consts={"K": k})
    beh = g.printed("B")
    # deeper seeded random behaviours
    g2 = tlc("SubstateLocks", "GenSubstateLocks", workers=4, coverage=False, consts={"K": 15},
             simulate=400 if q else 5000, depth=16, seed=ctx.seed)
    beh += g2.printed("B")
    ctx.sample({"behaviour": beh[0]})
    ctx.sample({"behaviour": beh[-1]})
    replay_behaviours(ctx, "vh_store", "locks", beh)
    distinct = len({json.dumps(b, sort_keys=True) for b in beh})
    # T: long random runs of the real code validated against the specification
    tp = ctx.wpath("locks-trace.ndjson")
    vh("vh_store", ["locks", "record", "seed=%d" % ctx.seed, "runs=%d" % (10 if q else 100), "len=%d" % (200 if q else 400)],
       stdout_path=tp)
    evs = read_ndjson(tp)
    ctx.sample({"trace_event": evs[5]})
    trace_check(ctx, "SubstateLocks", "TraceSubstateLocks", tp, "locks:trace", "lock stream", events=evs)
    os.unlink(tp)
    return {"exhaustive": True, "distinct_nontrivial": distinct,
            "rule": "all SubstateLocks behaviours of length %d over 2 nodes x 2 keys (TLC BFS) + seeded random "
                    "behaviours of length 15, each replayed step by step into SubstateLocks<()> comparing lock result, "
                    "is_locked of every substate and node_is_locked of every node; plus recorded random runs "
                    "(6 nodes x 8 keys) validated by TraceSubstateLocks; distinct = distinct behaviours" % k}


# ---------------------------------------------------------------------------------------------
def _store_behaviours(ctx, nsim):
    """S (overlay refinement, two instances) + behaviours (tiny exhaustive + seeded simulation)."""
    from concurrent.futures import ThreadPoolExecutor
    with ThreadPoolExecutor(max_workers=4) as ex:
        fa = ex.submit(tlc, "SubstateStore", "MCOverlay", cfg="MCOverlayA", workers=4)
        fb = ex.submit(tlc, "SubstateStore", "MCOverlay", cfg="MCOverlayB", workers=4)
        ft = ex.submit(tlc, "SubstateStore", "GenStore", cfg="GenStoreTiny", workers=2, coverage=False)
        fs = ex.submit(tlc, "SubstateStore", "GenStore", cfg="SimStore", workers=1, coverage=False,
                       simulate=nsim, depth=6, seed=ctx.seed)
        ra, rb, rt, rs = fa.result(), fb.result(), ft.result(), fs.result()
    for r, w in ((ra, "MCOverlayA"), (rb, "MCOverlayB")):
        tlc_must_pass(r, w, required_actions=["OCommit", "OMerge"])
        ctx.add_tlc(r)
    beh = rt.printed("B") + rs.printed("B")
    if len(beh) < nsim:
        raise ToolError("store behaviour generation produced only %d behaviours" % len(beh))
    return beh


def C14(ctx):
    beh = _store_behaviours(ctx, 400 if ctx.quick else 6000)
    ctx.sample({"behaviour": beh[len(beh) // 2]})
    replay_behaviours(ctx, "vh_store", "store", beh, mode="overlay")
    distinct = len({json.dumps(b, sort_keys=True) for b in beh if len(b) > 1})
    return {"distinct_nontrivial": distinct,
            "rule": "S: TLC checks that the overlay (merge_database_updates + staged-first reads) refines the flat database "
                    "(Refines, ListsAgree, MergeExact) on all bases x all commit sequences of two small instances. "
                    "G: all behaviours of the tiny instance (1 partition x 2 keys, 2 commits) + seeded simulated behaviours "
                    "(3 partitions x 3 keys x 2 values, 4 commits incl. resets/deltas/deletes) replayed into "
                    "SubstateDatabaseOverlay over InMemorySubstateDatabase: after every commit every get and every listing "
                    "from every cursor (on, between, below and above keys; None) is compared with the model, also through a "
                    "two-level overlay, and after commit_overlay_into_root_store. distinct = distinct behaviours with >=1 commit"}


def C15(ctx):
    q = ctx.quick
    beh = _store_behaviours(ctx, 150 if q else 2500)
    if q:
        beh = beh[:120] + beh[784:]
    ctx.sample({"behaviour": beh[len(beh) // 2]})
    d = ctx.wpath("stores")
    replay_behaviours(ctx, "vh_store", "store", beh, vh_args=["dir=" + d], mode="stores")
    # T: histories over arbitrary byte-string keys, validated by TraceStore
    tp = ctx.wpath("stores-trace.ndjson")
    runs, ln = (12, 10) if q else (150, 14)
    vh("vh_store", ["store", "record", "seed=%d" % ctx.seed, "runs=%d" % runs, "len=%d" % ln, "dir=" + d + "-rec"],
       stdout_path=tp)
    evs = read_ndjson(tp)
    ctx.sample({"trace_event": evs[1]})
    # split at reset events over parallel TLC validators
    _validate_split(ctx, "SubstateStore", "TraceStore", evs, "stores:trace", "three stores vs abstract database")
    os.unlink(tp)
    # probe: prefix-related sort keys in one partition (keys [] < [1] < [1,2]; set 1,2 / set 3 / delete 2);
    # the abstract database lists ranks [1,2], [1,2,3], [1,3]
    rc, outp = vh("vh_store", ["store", "prefix", "dir=" + d + "-pfx"])
    for line in outp.splitlines():
        o = json.loads(line)
        if o["panic"]:
            ctx.violation("stores:prefix-related-sort-keys:%s panics" % o["store"],
                          "%s panics when a partition holds a sort key that is a prefix of another one" % o["store"], o)
        elif o["lists"] != [[1, 2], [1, 2, 3], [1, 3]]:
            ctx.violation("stores:prefix-related-sort-keys:%s listing" % o["store"], "wrong listing with prefix-related sort keys", o)
    shutil.rmtree(d, ignore_errors=True)
    shutil.rmtree(d + "-rec", ignore_errors=True)
    shutil.rmtree(d + "-pfx", ignore_errors=True)
    distinct = len({json.dumps(b, sort_keys=True) for b in beh if len(b) > 1}) + runs
    return {"distinct_nontrivial": distinct,
            "rule": "G: model behaviours (see C14) committed to InMemorySubstateDatabase, RocksdbSubstateStore and "
                    "RocksDBWithMerkleTreeSubstateStore (all behaviours share one on-disk store per implementation, node keys tagged per behaviour; every 40th behaviour closes and reopens the RocksDB stores after each commit); every get, "
                    "every listing from every cursor and the set of listed partitions of each store compared with the model. "
                    "T: seeded histories over arbitrary byte-string node keys (1-50 bytes, prefix-related), partition numbers "
                    "incl. 0/255, sort keys incl. empty, 0xff-runs and prefix-related keys; each store's full ordered content, "
                    "partition set and probed gets/cursor listings validated by TraceStore.tla. distinct = behaviours + recorded runs"}


def _validate_split(ctx, spec_dir, module, evs, key, what, max_chunks=12, **kw):
    """Cuts a recorded trace at `reset` events into independent traces validated in parallel."""
    from concurrent.futures import ThreadPoolExecutor
    runs, cur = [], []
    for e in evs:
        if e.get("a") == "reset" and cur:
            runs.append(cur)
            cur = []
        cur.append(e)
    if cur:
        runs.append(cur)
    n = max(1, min(max_chunks, len(runs)))
    chunks = [[] for _ in range(n)]
    for i, r in enumerate(runs):
        chunks[i % n].extend(r)

    def one(i):
        p = ctx.wpath("%s-chunk%d.ndjson" % (module, i))
        write_ndjson(p, chunks[i])
        ok, idx, r = validate_trace(spec_dir, module, p, **kw)
        os.unlink(p)
        return ok, idx, r, chunks[i]

    with ThreadPoolExecutor(max_workers=min(n, 8)) as ex:
        res = list(ex.map(one, range(n)))
    good = True
    for ok, idx, r, ch in res:
        ctx.cov["evaluations"] += len(ch)
        if ok:
            ctx.cov["traces_validated_against_impl"] += sum(1 for e in ch if e.get("a") == "reset") or 1
            continue
        good = False
        lo = max(0, (idx or 1) - 2)
        ctx.violation(key, "%s: trace rejected at event %s (%s)" % (what, idx, r.violated),
                      {"trace_module": module, "first_unmatched": idx, "context": ch[lo:(idx or 1)], "tlc_violated": r.violated})
    return good


# ---------------------------------------------------------------------------------------------
TREE_LIBS = ["SubstateStore"]


def _tree_behaviours(ctx, nsim, tiny=True):
    from concurrent.futures import ThreadPoolExecutor
    with ThreadPoolExecutor(max_workers=3) as ex:
        fs = ex.submit(tlc, "StateTree", "GenTree", cfg="SimTree", workers=1, coverage=False,
                       simulate=nsim, depth=6, seed=ctx.seed, libs=TREE_LIBS)
        ft = ex.submit(tlc, "StateTree", "GenTree", cfg="GenTreeTiny", workers=2, coverage=False, libs=TREE_LIBS) if tiny else None
        # all single commits over three sort keys sharing their first nibble (every way of replacing the children
        # of an inner tree node in ONE commit: delete-all-and-create-one, swap, collapse to one leaf ...)
        ft2 = ex.submit(tlc, "StateTree", "GenTree", cfg="GenTreeTiny2", workers=1, coverage=False, libs=TREE_LIBS)
        rs = fs.result()
        rt = ft.result() if ft else None
        rt2 = ft2.result()
    tiny2 = rt2.printed("B")
    if len(tiny2) != 288:
        raise ToolError("GenTreeTiny2 produced %d behaviours (expected 288)" % len(tiny2))
    if not tiny:
        tiny2 = tiny2[::48]        # callers that only want a small set (crash enumeration) get a 6-behaviour slice
    beh = (rt.printed("B") if rt else []) + tiny2 + rs.printed("B")
    if len(beh) < nsim:
        raise ToolError("tree behaviour generation produced only %d behaviours" % len(beh))
    return beh


def C17(ctx):
    q = ctx.quick
    from concurrent.futures import ThreadPoolExecutor
    with ThreadPoolExecutor(max_workers=2) as ex:
        fm = ex.submit(tlc, "StateTree", "MCStateTree", workers=4, libs=TREE_LIBS)
        fb = ex.submit(_tree_behaviours, ctx, 300 if q else 5000)
        r, beh = fm.result(), fb.result()
    tlc_must_pass(r, "MCStateTree")
    ctx.add_tlc(r)
    if q:
        beh = beh[:400] + beh[3136:]      # 400 of the 3136 two-partition tiny behaviours, all of tiny2, all simulated ones
    ctx.sample({"behaviour_step": beh[-1][1]})
    d = ctx.wpath("tree")
    replay_behaviours(ctx, "vh_store", "tree", beh, vh_args=["dir=" + d, "merkle=%d" % (40 if q else 25)], mode="tree")
    shutil.rmtree(d, ignore_errors=True)
    distinct = len({json.dumps(b, sort_keys=True) for b in beh})
    return {"distinct_nontrivial": distinct,
            "rule": "S: TLC checks on all 512 databases of a 3-partition instance that the commitment term is binding (different "
                    "substate sets give different root terms), that the empty state has the placeholder root and that the term "
                    "mentions exactly the live entities. G: model behaviours (tiny exhaustive: 2 partitions x 2 keys, all bases x all "
                    "commits; seeded simulation: 4 partitions over 3 entities x 4 sort keys with shared bit prefixes, 4 commits incl. "
                    "resets, deletes to empty, re-creation) replayed into put_at_next_version (with and without pruning), "
                    "StateTreeUpdatingDatabase and RocksDBWithMerkleTreeSubstateStore; after EVERY commit the returned root is compared "
                    "with the model's term evaluated with an independent blake2b, list_substate_hashes with the model's leaves, and "
                    "the same state is rebuilt by one commit and by one substate per commit (batching independence). "
                    "distinct = distinct behaviours"}


def C18(ctx):
    q = ctx.quick
    r = tlc("StateTree", "PruneModel", workers=6, consts={"MaxVer": 2 if q else 3})
    tlc_must_pass(r, "PruneModel", required_actions=["PCommit"])
    ctx.add_tlc(r)
    tp = ctx.wpath("prune-trace.ndjson")
    runs, ln = (40, 8) if q else (1500, 10)
    vh("vh_store", ["tree", "prune", "seed=%d" % ctx.seed, "runs=%d" % runs, "len=%d" % ln], stdout_path=tp)
    evs = read_ndjson(tp)
    os.unlink(tp)
    ctx.sample({"trace_event": {k: (v if k != "inserted" else v[:3]) for k, v in evs[2].items()}})
    # long histories with a tiny universe (re-creation is frequent)
    tp2 = ctx.wpath("prune-long.ndjson")
    vh("vh_store", ["tree", "prune", "seed=%d" % (ctx.seed + 1), "runs=%d" % (4 if q else 100), "len=%d" % (60 if q else 200)], stdout_path=tp2)
    evs += read_ndjson(tp2)
    os.unlink(tp2)
    _validate_split(ctx, "StateTree", "TraceStateTree", evs, "statetree:prune-trace", "state tree node store")
    # binding self-test: a trace with one inserted node removed must be rejected (Live)
    bad = [e for e in evs[:ln + 1]]
    victim = None
    for i, e in enumerate(bad):
        if e.get("a") == "commit" and len(e["inserted"]) > 3 and e["substates"] > 1:
            victim = i
    if victim is not None:
        e = json.loads(json.dumps(bad[victim]))
        e["inserted"] = [x for x in e["inserted"] if x["id"] != e["root"]][1:]
        bad[victim] = e
        p = ctx.wpath("prune-selftest.ndjson")
        write_ndjson(p, bad)
        ok, idx, rr = validate_trace("StateTree", "TraceStateTree", p)
        os.unlink(p)
        if ok:
            raise ToolError("self-test: TraceStateTree accepted a trace with a missing tree node")
    commits = sum(1 for e in evs if e.get("a") == "commit")
    return {"distinct_nontrivial": len({json.dumps(e["inserted"], sort_keys=True) for e in evs if e.get("a") == "commit" and e["inserted"]}),
            "rule": "S: TLC checks Live/StaleDead/NoGarbage on every history (<= %d commits, 4 keys, 2 values) of a reference path-copying "
                    "collapsed trie with exact stale reports (PruneModel). T: a logging TreeStore around TypedInMemoryTreeStore records "
                    "every inserted node (children, cross-tier links) and every stale part of seeded histories (3 entities x 3 partitions x "
                    "4 sort keys; deltas, deletes, resets, whole-entity deletion and re-creation; pruning on in 3 of 4 runs); "
                    "TraceStateTree.tla rebuilds the node graph, applies pruning as reported and checks after EVERY commit that all "
                    "nodes reachable from the new root are stored, that nothing reported stale (now or earlier) is reachable, and that "
                    "the implementation's full read succeeds. %d commits validated; distinct = distinct inserted-node sets" % (2 if q else 3, commits)}


def C19(ctx):
    q = ctx.quick
    from concurrent.futures import ThreadPoolExecutor
    ra = tlc("MerkleCommit", "MerkleCommit", cfg="MCMerkleBatch", workers=4, libs=TREE_LIBS)
    tlc_must_pass(ra, "MerkleCommit(batch)", required_actions=["Begin", "Step", "Crash"])
    ctx.add_tlc(ra)
    # negative control: the design with individual substate writes must violate Consistent
    rb = tlc("MerkleCommit", "MerkleCommit", cfg="MCMerkleDirect", workers=2, libs=TREE_LIBS)
    if rb.violated != "Consistent":
        raise ToolError("negative control failed: the 'direct' commit program should violate Consistent")
    # second negative control: pruning deletes issued before the atomic batch must violate TreeIntact
    rc = tlc("MerkleCommit", "MerkleCommit", cfg="MCMerklePruneFirst", workers=2, libs=TREE_LIBS)
    if rc.violated != "TreeIntact":
        raise ToolError("negative control failed: the 'prunefirst' commit program should violate TreeIntact")
    nproc = 8
    beh = _tree_behaviours(ctx, 10 if q else 160, tiny=False)
    ctx.sample({"behaviour_step": beh[0][1]})
    chunks = [beh[i::nproc] for i in range(nproc)]
    d = ctx.wpath("crash")

    def one(i):
        if not chunks[i]:
            return []
        pin = ctx.wpath("crash-in%d.ndjson" % i)
        pout = ctx.wpath("crash-out%d.ndjson" % i)
        write_ndjson(pin, chunks[i])
        vh("vh_store", ["tree", "crash", "dir=%s-%d" % (d, i), "points=%s" % ("sample" if q else "all"), "seed=%d" % (ctx.seed + i)],
           stdin_path=pin, stdout_path=pout, timeout=7200)
        evs = read_ndjson(pout)
        os.unlink(pin)
        os.unlink(pout)
        return evs

    with ThreadPoolExecutor(max_workers=nproc) as ex:
        parts = list(ex.map(one, range(nproc)))
    evs = [e for p in parts for e in p]
    crashes = [e for e in evs if e.get("a") == "crash"]
    if not crashes:
        raise ToolError("no crash points were exercised")
    ctx.sample({"crash_event": crashes[len(crashes) // 2]})
    _validate_split(ctx, "MerkleCommit", "TraceMerkleCommit", evs, "merkle:crash-trace", "crash-point enumeration",
                    libs=["SubstateStore", "StateTree"])
    # binding self-test: a reopened store whose tree cannot be walked must be rejected
    i0 = next(i for i, e in enumerate(evs) if e.get("a") == "crash")
    s0 = max(j for j in range(i0 + 1) if evs[j].get("a") == "reset")
    bad = json.loads(json.dumps(evs[s0:i0 + 1]))
    bad[-1]["treeOk"] = False
    p = ctx.wpath("crash-selftest.ndjson")
    write_ndjson(p, bad)
    ok, _idx, _rr = validate_trace("MerkleCommit", "TraceMerkleCommit", p, libs=["SubstateStore", "StateTree"])
    os.unlink(p)
    if ok:
        raise ToolError("self-test: TraceMerkleCommit accepted a reopened store with a broken tree")
    stopped = sum(1 for e in crashes if e["crashed"])
    kinds = sorted({o.split(":")[0] for e in crashes for o in e["ops"]})
    multi = sum(1 for e in crashes if e["of"] > 1)
    return {"distinct_nontrivial": len({(json.dumps(e["upd"]), e["w"], e["step"]) for e in crashes if e["crashed"]}),
            "exhaustive": not q,
            "rule": "S: TLC checks Consistent/PreOrPost/TreeIntact for every crash position of the commit program as coded (one atomic batch, then "
                    "pruning deletes) over all updates of a small instance, and as negative controls that the pre-fix program (individual "
                    "substate writes) violates Consistent and that pruning before the batch violates TreeIntact. G: for model behaviours (4 partitions, resets/deltas/deletes) and EVERY commit the "
                    "real store's write operations are counted through hook H1 (kinds seen: %s); for each position w (%s) the commit is "
                    "stopped right before write w on a fresh copy of the on-disk store, the store is reopened, and version, root and the "
                    "full substate listing are validated by TraceMerkleCommit.tla (pre or post state, root = the StateTree term of the SAME "
                    "state, and the stored tree of the recorded version walked from its root yields exactly the hashes of the substates held). %d stops, %d of them in commits with more than one write; distinct = distinct (update, position)" %
                    (",".join(kinds), "sampled: first 4, last, 2 random" if q else "all positions", stopped, multi)}


# ---------------------------------------------------------------------------------------------
def C12(ctx):
    q = ctx.quick
    from concurrent.futures import ThreadPoolExecutor
    with ThreadPoolExecutor(max_workers=2) as ex:
        fm = ex.submit(tlc, "Track", "MCTrack", workers=6, consts={"MaxOps": 3 if q else 4}, timeout=3000)
        fg = ex.submit(tlc, "Track", "GenTrack", workers=1, coverage=False, simulate=1500 if q else 20000, depth=14, seed=ctx.seed)
        r, g = fm.result(), fg.result()
    tlc_must_pass(r, "MCTrack")
    ctx.add_tlc(r)
    seqs = g.printed("B")
    if len(seqs) < 200:
        raise ToolError("GenTrack produced only %d operation sequences" % len(seqs))
    pin, pout = ctx.wpath("track-in.ndjson"), ctx.wpath("track-out.ndjson")
    write_ndjson(pin, seqs)
    vh("vh_store", ["track", "run"], stdin_path=pin, stdout_path=pout)
    evs = read_ndjson(pout)
    pr = ctx.wpath("track-rec.ndjson")
    vh("vh_store", ["track", "record", "seed=%d" % ctx.seed, "runs=%d" % (150 if q else 3000), "len=%d" % (40 if q else 60)], stdout_path=pr)
    evs += read_ndjson(pr)
    for f in (pin, pout, pr):
        os.unlink(f)
    for e in evs:
        if e["a"] == "panic":
            ctx.violation("track:panic", "Track panicked: %s" % json.dumps(e)[:300], e)
    # cut at "init" events (TraceTrack resets its state there)
    for e in evs:
        if e["a"] == "init":
            e["_cut"] = True
    ctx.sample({"recorded_run": [x for x in evs[:14]]})
    runs = []
    for e in evs:
        if e["a"] == "init":
            runs.append([])
        runs[-1].append({k: v for k, v in e.items() if k != "_cut"})
    n = 10
    chunks = [[e for r_ in runs[i::n] for e in r_] for i in range(n)]

    def one(i):
        p = ctx.wpath("track-chunk%d.ndjson" % i)
        write_ndjson(p, chunks[i])
        ok, idx, rr = validate_trace("Track", "TraceTrack", p)
        os.unlink(p)
        return ok, idx, rr, chunks[i]

    with ThreadPoolExecutor(max_workers=6) as ex:
        res = list(ex.map(one, range(n)))
    for ok, idx, rr, ch in res:
        ctx.cov["evaluations"] += len(ch)
        if ok:
            ctx.cov["traces_validated_against_impl"] += sum(1 for e in ch if e["a"] == "init")
            continue
        i = (idx or 1) - 1
        s0 = max(j for j in range(i + 1) if ch[j]["a"] == "init")
        ctx.violation("track:%s" % ch[i]["a"], "Track run rejected at operation %s" % json.dumps(ch[i])[:200],
                      {"run": ch[s0:i + 1], "tlc_violated": rr.violated})
    # binding self-test: a corrupted result must be rejected (one written value of the final state updates changed)
    src = next(r_ for r_ in runs if r_[-1]["a"] == "finalize" and r_[-1]["upd"])
    bad = json.loads(json.dumps(src))
    u0 = bad[-1]["upd"][0]
    u0[2] = 1 if u0[2] == 0 else (u0[2] % 3) + 1
    p = ctx.wpath("track-selftest.ndjson")
    write_ndjson(p, bad)
    ok, idx, rr = validate_trace("Track", "TraceTrack", p)
    os.unlink(p)
    if ok:
        raise ToolError("self-test: TraceTrack accepted corrupted state updates")
    return {"distinct_nontrivial": len({json.dumps(r_, sort_keys=True) for r_ in runs if len(r_) > 3}),
            "rule": "S: TLC checks on every operation sequence of length <= %d over all base databases (2 keys x 2 values, 3 partitions) that "
                    "the tracked diff always reproduces the abstract view (DiffComplete), untouched locations keep the database value "
                    "(Frame), only written locations differ (ForceOnly) and a reverted new node disappears. G': TLC chooses the operation "
                    "sequences (GenTrack, seeded simulation: get/set/remove/limited scan/drain/sorted scan with limits 0..5/create node/"
                    "force write/revert over a map partition, a sorted partition and a node created in the transaction, 4 keys x 3 values), "
                    "the harness executes them on the real Track over an InMemorySubstateDatabase and records every result and the final "
                    "state updates; T: TraceTrack.tla accepts a recording only if every event is an instance of the specification's action "
                    "with the recorded result (scan/drain: any duplicate-free choice of present entries of the right length). Plus seeded "
                    "random sequences generated in the harness. distinct = distinct recorded runs with > 3 events" % (3 if q else 4)}


# ---------------------------------------------------------------------------------------------
def C07(ctx):
    q = ctx.quick
    from concurrent.futures import ThreadPoolExecutor
    cs = {"E": 1, "R": 2, "MaxEpoch": 5} if q else {"E": 2, "R": 4, "MaxEpoch": 7}
    with ThreadPoolExecutor(max_workers=3) as ex:
        fm = ex.submit(tlc, "TxTracker", "TxTracker", cfg="MCTxTracker", workers=6, consts=cs, timeout=3400)
        fb = ex.submit(tlc, "TxTracker", "TxTracker", cfg="MCTxTrackerBad", workers=2)
        fg = ex.submit(tlc, "TxTracker", "GenTxTracker", workers=1, coverage=False)
        r, rb, g = fm.result(), fb.result(), fg.result()
    tlc_must_pass(r, "MCTxTracker", required_actions=["NextEpoch", "Submit", "Tick"])
    ctx.add_tlc(r)
    if rb.violated != "Covered":
        raise ToolError("negative control failed: with R > (P-1)*E the model must reach the uncovered-expiry panic")
    cases = g.printed("B")
    if len(cases) < 100:
        raise ToolError("GenTxTracker produced %d cases" % len(cases))
    ctx.sample({"unit_case": {k: v for k, v in cases[7].items() if k != "probes"}, "probes": cases[7]["probes"][:6]})
    replay_behaviours(ctx, "vh_exec", "tracker", cases, mode="unit")
    tp = ctx.wpath("tracker-ledger.ndjson")
    vh("vh_exec", ["tracker", "ledger", "seed=%d" % ctx.seed, "runs=%d" % (6 if q else 60), "len=%d" % (90 if q else 150)], stdout_path=tp)
    evs = read_ndjson(tp)
    tp2 = ctx.wpath("tracker-ledger-long.ndjson")
    vh("vh_exec", ["tracker", "ledger", "seed=%d" % (ctx.seed + 7), "runs=%d" % (1 if q else 6), "len=%d" % (150 if q else 380), "long=1"], stdout_path=tp2)
    evs += read_ndjson(tp2)
    os.unlink(tp)
    os.unlink(tp2)
    subs = [e for e in evs if e["a"] == "submit"]
    ctx.sample({"ledger_events": subs[3:6]})
    for e in subs:
        if e["result"].startswith("panic") or e["result"].startswith("reject:") or e["result"] == "abort":
            ctx.violation("tracker:unexpected-result", "unexpected result %s" % e["result"], e)
    _validate_split(ctx, "TxTracker", "TraceTxTracker", evs, "tracker:ledger-trace", "replay protection on the ledger")
    # binding self-test: flipping one verdict must be rejected
    run0 = []
    for e in evs:
        if e["a"] == "reset" and run0:
            break
        run0.append(json.loads(json.dumps(e)))
    flipped = False
    for e in run0:
        if e["a"] == "submit" and e["result"] == "PreviouslyCommitted":
            e["result"] = "success"
            flipped = True
            break
    if flipped:
        p = ctx.wpath("tracker-selftest.ndjson")
        write_ndjson(p, run0)
        ok, idx, rr = validate_trace("TxTracker", "TraceTxTracker", p)
        os.unlink(p)
        if ok:
            raise ToolError("self-test: TraceTxTracker accepted a replayed intent reported as committed")
    res = {}
    for e in subs:
        res[e["result"]] = res.get(e["result"], 0) + 1
    return {"distinct_nontrivial": len({json.dumps([e["its"], e["result"]]) for e in subs}),
            "ledger_results": res,
            "rule": "S: TLC checks Retained, Covered, NoLag, NoReplay, InWindow on every history of a small ring (P=3, E=%d, R=%d, epochs 0..%d, "
                    "2 intents, V1 and V2 with a subintent, success and failure, system-transaction ticks) and, as a negative control, that "
                    "R > (P-1)*E reaches the uncovered-expiry panic. G: %d ring-arithmetic cases (P 1..4, E 1..3, 0..9 advances, every epoch "
                    "around the window) replayed into the real TransactionTrackerSubstateV1 with the model's constants. T: seeded ledger "
                    "histories at the real constants (191 x 100 epochs, range 8640): epoch changes, fresh and repeated V1 transactions and "
                    "V2 transactions wrapping a subintent (committed as success or failure), windows incl. not-yet-valid/expired/max-range; "
                    "every verdict and the tracker's start epoch/partition after every commit validated by TraceTxTracker.tla (%d "
                    "submissions, %d epochs covered). distinct = distinct (intents, result)" %
                    (cs["E"], cs["R"], cs["MaxEpoch"], len(cases), len(subs), max([e["to"] for e in evs if e["a"] == "setepoch"] + [0]))}


PROPS = {
    "C07": dict(fn=C07, level="model_checking", design_ref="5/C07",
                technique="TLA+ spec TxTracker (partition ring, boot checks, record/advance per commit): TLC exhaustive check + unit replay of the ring arithmetic + trace validation of real ledger histories at the protocol constants",
                text="TLC checks on all histories of a small ring that a recorded intent stays findable until its window has passed, that no "
                     "intent is committed twice (subintents: succeeds twice), that commits happen only inside the window and that the "
                     "tracker always covers admissible expiries. The ring arithmetic of the real struct is replayed with the model's "
                     "constants, and seeded histories on a real ledger (V1 and V2 with subintents, epoch jumps, re-submissions) are "
                     "validated event by event, including the tracker's stored start epoch/partition after every commit.",
                note="Trusted: TLC, the intent identity bookkeeping in the harness. Epochs are moved with the test helper set_current_epoch "
                     "(modelled as its own action); a full wrap of the 191-partition ring is covered at unit level with small constants, "
                     "ledger histories cross up to dozens of partition boundaries."),
    "C12": dict(fn=C12, level="model_checking", design_ref="5/C12",
                technique="TLA+ spec Track (abstract view + nondeterministic limited scans): TLC exhaustive check + TLC-chosen operation sequences executed on the real Track, recordings validated by TraceTrack",
                text="Track.tla states what every operation of the transaction substate cache must return in terms of the abstract view "
                     "(database overlaid with the transaction's creations, writes and removals); limited scans and drains are "
                     "nondeterministic about which present entries they return, exactly as the statement. TLC checks the view/diff/revert "
                     "laws exhaustively on a small instance; TLC-generated and seeded operation sequences are executed on the real Track and "
                     "every recorded result, the final state updates and the effect of revert_non_force_write_changes are validated "
                     "against the specification's actions.",
                note="Trusted: TLC, the key/value concretisation (Map keys, Sorted keys whose 2-byte prefix realises the model order). After a "
                     "revert only what the engine does is exercised (no scans, no reads of blind-written locations: DESIGN lead L16). "
                     "IO-access accounting and partition deletion are outside this property."),
    "C17": dict(fn=C17, level="model_checking", design_ref="5/C17",
                technique="TLA+ spec StateTree (sparse-Merkle commitment as a term): TLC checks binding on a bounded universe; model behaviours replayed into the state tree, roots compared with the evaluated term",
                text="The root the tree must have is specified independently of the Jellyfish algorithm as the collapsed binary sparse-Merkle "
                     "term over (entity, partition, sort key, value hash). TLC checks the term is binding on the bounded universe; every "
                     "behaviour TLC generates is replayed into put_at_next_version / StateTreeUpdatingDatabase / the RocksDB Merkle store and "
                     "after every commit the real root must equal the term evaluated with an independent blake2b, the listed substate hashes "
                     "must equal the model's leaves, and re-batching the same state must give the same root.",
                note="Trusted: TLC, the blake2 crate used by the term evaluator, the single-byte key concretisation. Keys are prefix-free single bytes per tier in replay."),
    "C18": dict(fn=C18, level="model_checking", design_ref="5/C18",
                technique="TLA+ specs PruneModel (design) + TraceStateTree (valid node stores): trace validation of the logged node graph of the real state tree",
                text="TLC checks the pruning-safety argument on a reference path-copying trie over all bounded histories, and validates the "
                     "REAL implementation's node store: a logging TreeStore records every inserted node and every stale part; the trace "
                     "specification rebuilds the graph across the three tiers, prunes as reported and evaluates Live and StaleDead after "
                     "every commit of seeded histories that delete and re-create entities and partitions.",
                note="Trusted: TLC, the graph projection in the harness (child keys via gen_child_node_key, cross-tier links from leaf payload versions)."),
    "C19": dict(fn=C19, level="model_checking", design_ref="5/C19",
                technique="TLA+ spec MerkleCommit (commit as a program of durable writes with Crash between steps) + crash-point enumeration in the real RocksDB store through hook H1, validated by TraceMerkleCommit",
                text="TLC checks that the commit program as coded is consistent at every crash position (and that the pre-fix program is not). "
                     "The real store is stopped before each individual write operation of each commit (cfg-guarded wrapper of the RocksDB "
                     "handle), reopened, and its version, root hash and substates are checked by the trace specification to be exactly the "
                     "pre-commit or the post-commit state, with the root compared against the StateTree commitment term.",
                note="Trusted: TLC, hook H1 (numbers every put/delete/delete_range/write issued through the store's DB handle), unwinding as the "
                     "stop model (no torn single write; RocksDB's own atomicity of WriteBatch is assumed), blake2 crate."),
    "C14": dict(fn=C14, level="model_checking", design_ref="5/C14",
                technique="TLA+ specs SubstateStore/Overlay: TLC refinement check (overlay vs flat database) + model behaviours replayed into SubstateDatabaseOverlay",
                text="TLC proves on two exhaustive small instances that the overlay's merge rules and staged-first reads are "
                     "observationally equal to the base database with the commits applied (gets, ordered listings from any cursor, "
                     "merge into root). Model-generated behaviours (every base, commit sequences with sets, deletes, resets; "
                     "exhaustive tiny instance + seeded simulation) are replayed into the real SubstateDatabaseOverlay and every "
                     "observation after every commit is compared with the model, incl. overlay-over-overlay and the merged root.",
                note="Trusted: TLC, the key/value concretisation in the harness, InMemorySubstateDatabase as root (itself checked by C15). "
                     "list_partition_keys of the overlay is outside the statement (DESIGN L6)."),
    "C15": dict(fn=C15, level="model_checking", design_ref="5/C15",
                technique="TLA+ spec SubstateStore as the common reference: model behaviours replayed into the three stores + trace validation of random byte-key histories",
                text="The abstract database of SubstateStore.tla is the single reference for all three store implementations: "
                     "model behaviours are committed to each store and every get, ordered listing from every cursor and the set of "
                     "partitions is compared with the model (hence the stores with each other); seeded histories over arbitrary "
                     "byte-string keys within the size limits are recorded from the real stores (with close/reopen of the RocksDB "
                     "stores) and validated by TraceStore.tla after every commit.",
                note="Trusted: TLC, the rank projection of byte keys in the harness. RocksDB itself is exercised on a local temp dir."),
    "C13": dict(fn=C13, level="model_checking", design_ref="5/C13",
                technique="TLA+ spec SubstateLocks: TLC exhaustive check + all-behaviours replay into SubstateLocks<()> + trace validation of recorded lock streams",
                text="TLC checks writer exclusivity and handle freshness on every reachable state of the lock-table "
                     "specification (2 nodes x 2 keys); every behaviour of bounded length and seeded random long behaviours "
                     "are replayed into the real SubstateLocks comparing lock results and is_locked/node_is_locked for every "
                     "substate and node after every step; recorded random runs of the real code are validated against the "
                     "specification's actions with all invariants evaluated in every state.",
                note="Trusted: TLC, the harness projection (handle renumbering, key mapping). The kernel-level use of the lock "
                     "table (open/close substate) is covered by ledger-level checks, not here."),
}

"""Extensions of the specification beyond the 51 listed properties.

X01 — the V2 multi-intent transaction processor (subintent yield / resume / VERIFY_PARENT):
spec/Subintents/{Subintents,MCSubintents}.tla, harness binary vh_subint."""
import json, os, random, sys, time
from concurrent.futures import ThreadPoolExecutor
import core
from core import tlc, tlc_must_pass, vh, ToolError, write_ndjson

BIN = "vh_subint"
INVARIANT_ACTIONS = ["Step", "DoEndRoot", "Extend", "CloseRoot", "CloseWithoutYield", "Finish1", "Finish2"]


def _key(b):
    return json.dumps(b, sort_keys=True)


def _executed(b):
    return b["r1"]["st"] in ("success", "failed")


def _class(b):
    return (len(b["par"]), b["r1"]["st"], b["r1"]["err"], b["r2"]["st"], b["r2"]["err"])


def _features(b):
    """limit / kind features of a behaviour; the selection guarantees several behaviours per feature in EVERY tier"""
    f = set()
    par, sig, st = b["par"], b["sig"], b["r1"]["st"]
    f.add("shape %s" % par)
    f.add("class %s %s" % (st, b["r1"]["err"]))
    ex = st in ("success", "failed")
    for i, p in enumerate(b["prog"]):
        me = i + 1
        nyc = {}
        for x in p:
            op = x["op"]
            if op == "W" and x["acc"] != me:
                op = "WP"
            if ex:
                f.add("op %s in %s" % (op, st))
            if op in ("YC", "YP") and ex:
                f.add("yield with %d buckets (%s)" % (len(x["bs"]), st))
            if op == "YC":
                nyc[x["c"]] = nyc.get(x["c"], 0) + 1
                if ex:
                    f.add("yield to child number %d (%s)" % (x["c"], st))
            if op == "VP" and par[i] > 1 and ex:
                root_has, parent_has = x["k"] in sig[0], x["k"] in sig[par[i] - 1]
                if root_has != parent_has:
                    f.add("VERIFY_PARENT tells root from direct parent (key signed %s only) %s" % ("root" if root_has else "parent", b["r1"]["err"] or "ok"))
            if op == "VP" and ex:
                f.add("VERIFY_PARENT key %s %s" % ("of parent" if x["k"] in sig[par[i] - 1] else "not of parent", b["r1"]["err"] or "ok"))
            if op in ("W", "WP") and ex:
                f.add("withdraw amount %d" % x["a"])
        if ex and nyc and max(nyc.values()) >= 2:
            f.add("several yields over one edge (%s)" % st)
    if st == "rejected" and sum(len(p) for p in b["prog"]) >= 5:
        f.add("static rejection of a long program %s" % b["r1"]["err"])
    if st == "success" and b["r2"]["st"] != "rejected":
        f.add("success without subintents re-executed")
    return f


def _select(rng, behs, cap, per_feature=6):
    """distinct behaviours; all outcome classes kept, executed behaviours preferred over static rejections"""
    uniq = {}
    for b in behs:
        uniq.setdefault(_key(b), b)
    behs = list(uniq.values())
    rng.shuffle(behs)
    behs.sort(key=lambda b: sum(len(p) for p in b["prog"]), reverse=True)      # longer programs first within a class
    by = {}
    for b in behs:
        by.setdefault(_class(b), []).append(b)
    out, seen = [], set()
    # first: several behaviours for every limit / kind feature (never subsampled away, whatever the tier or seed)
    have = {}
    for b in behs:
        fs = [f for f in _features(b) if have.get(f, 0) < per_feature]
        if fs:
            out.append(b)
            seen.add(_key(b))
            for f in _features(b):
                have[f] = have.get(f, 0) + 1
    for c in by:
        by[c] = [b for b in by[c] if _key(b) not in seen]
    # then round-robin over the classes; static rejections may fill at most a quarter
    rej_cap = cap // 4
    nrej = 0
    idx = 0
    classes = sorted(by, key=str)
    while len(out) < cap:
        progress = False
        for c in classes:
            if idx < len(by[c]) and len(out) < cap:
                b = by[c][idx]
                if not _executed(b):
                    if nrej >= rej_cap:
                        continue
                    nrej += 1
                out.append(b)
                progress = True
        idx += 1
        if not progress:
            break
    return out, len(behs), have


def _replay(ctx, behs, res, initbal, procs=4, observe=False):
    """spec -> impl: behaviours to real V2 transactions; returns (mismatch lines with global behaviour index, steps)"""
    parts = [behs[i::procs] for i in range(procs)]
    parts = [(i, p) for i, p in enumerate(parts) if p]

    def run(job):
        i, part = job
        p = ctx.wpath("subint-beh-%d.ndjson" % i)
        write_ndjson(p, part)
        rc, out = vh(BIN, ["subint", "replay", "res=%d" % res, "initbal=%d" % initbal] + (["observe=1"] if observe else []), stdin_path=p)
        os.unlink(p)
        mm, done = [], None
        for line in out.splitlines():
            o = json.loads(line)
            if "mismatch" in o:
                o["b"] = i + o["b"] * procs          # index in behs
                mm.append(o)
            if "done" in o:
                done = o
        if done is None or done["done"] != len(part):
            raise ToolError("replay of subintent behaviours did not complete")
        return mm, done["steps"], done["mismatches"]

    core.build_harness(BIN)
    with ThreadPoolExecutor(max_workers=len(parts)) as ex:
        res_ = list(ex.map(run, parts))
    mm = [m for r in res_ for m in r[0]]
    return mm, sum(r[1] for r in res_), sum(r[2] for r in res_)


def _corrupt(b, how):
    c = json.loads(json.dumps(b))
    if how == "balance":
        c["r1"]["bal"][0][0] += 1
    elif how == "outcome":
        c["r1"]["st"] = "failed" if c["r1"]["st"] == "success" else "success"
    elif how == "class":
        c["r1"]["err"] = "VerifyParentFailed" if c["r1"]["err"] != "VerifyParentFailed" else "Unauthorized"
    elif how == "replay":
        c["r2"]["st"], c["r2"]["err"] = "success", ""
    return c


def X01(ctx):
    q = ctx.quick
    rng = random.Random(ctx.seed)
    # S (+ behaviours): exhaustive instances, every invariant / action property checked in every state,
    # every finished behaviour printed
    runs = [
        dict(ScenName='"small"', Res="{1}", Amts="{1, 2}", MaxLen=4, MaxTotal=5, MaxLive=1, MaxYield=2, InitBal=2),
        dict(ScenName='"quick2"', Res="{1}", Amts="{1}", MaxLen=3, MaxTotal=5, MaxLive=1, MaxYield=2, InitBal=2),
    ] if q else [
        dict(ScenName='"small"', Res="{1}", Amts="{1, 2}", MaxLen=4, MaxTotal=6, MaxLive=1, MaxYield=2, InitBal=2),
        dict(ScenName='"mid"', Res="{1}", Amts="{1}", MaxLen=3, MaxTotal=6, MaxLive=1, MaxYield=2, InitBal=2),
        dict(ScenName='"tree"', Res="{1}", Amts="{1}", MaxLen=3, MaxTotal=5, MaxLive=1, MaxYield=2, InitBal=2),
    ]
    pools = []      # (behaviours, nres, initbal)
    total_beh = 0
    for c in runs:
        r = tlc("Subintents", "MCSubintents", cfg="MCSubintents", workers=6, consts=dict(c, OpsName='"full"'), timeout=3000, heap="6g")
        tlc_must_pass(r, "MCSubintents %s" % c["ScenName"], required_actions=INVARIANT_ACTIONS)
        ctx.add_tlc(r)
        b = r.printed("B")
        if not b:
            raise ToolError("MCSubintents printed no behaviour")
        total_beh += len(b)
        pools.append((b, 1, c["InitBal"]))
    # deeper seeded random programs over the full alphabet, two resources, all tree shapes (TLC -simulate)
    g = tlc("Subintents", "MCSubintents", cfg="GenSubintents", workers=4, coverage=False, simulate=2500 if q else 40000, depth=70,
            seed=ctx.seed, timeout=3000,
            consts=dict(ScenName='"all"', OpsName='"full"', Res="{1, 2}", Amts="{1, 2}", MaxLen=6, MaxTotal=12, MaxLive=2, MaxYield=3, InitBal=3))
    if not g.ok:
        sys.stderr.write(g.out[-3000:])
        raise ToolError("behaviour generation (simulate) failed")
    sb = g.printed("B")
    total_beh += len(sb)
    pools.append((sb, 2, 3))
    # G: replay into real notarized V2 transactions
    caps = ([500, 400, 900] if q else [9000, 9000, 6000, 16000])
    distinct_all = replayed = steps = executed = 0
    classes = set()
    features = {}
    for (b, nres, ib), cap in zip(pools, caps):
        sel, nd, have = _select(rng, b, cap)
        for f, n in have.items():
            features[f] = features.get(f, 0) + n
        distinct_all += nd
        mm, st, nmm = _replay(ctx, sel, nres, ib, procs=4 if q else 6)
        steps += st
        replayed += len(sel)
        executed += sum(1 for x in sel if _executed(x))
        classes |= {_class(x)[1:3] for x in sel}
        for m in mm:
            bb = sel[m["b"]]
            exp, got = m["exp"], m["got"]
            key = "subintents round %d %s: model %s/%s" % (m["step"], m["mismatch"], bb["r%d" % m["step"]]["st"], bb["r%d" % m["step"]]["err"])
            ctx.violation(key, "behaviour replayed as V2 transactions: round %d %s: model %s, ledger %s" %
                          (m["step"], m["mismatch"], json.dumps(exp)[:160], json.dumps(got)[:160]),
                          {"behaviour": bb, "round": m["step"], "mismatch": m, "res": nres, "initbal": ib})
        if nmm > len(mm):
            core.log("%d further mismatches not listed" % (nmm - len(mm)))
        for x in sel:
            if x["r1"]["st"] == "success" and len(x["par"]) >= 3:
                ctx.sample({"behaviour": x}, cap=3)
                break
        for x in sel:
            if x["r1"]["st"] == "failed" and x["r1"]["err"] == "VerifyParentFailed":
                ctx.sample({"behaviour": x}, cap=5)
                break
    # non-vacuity of the replayed set: every instruction kind in a successful behaviour, every error / rejection
    # class, and the behaviours that tell the direct parent from the root for VERIFY_PARENT
    need = ["op %s in success" % o for o in ("W", "WP", "T", "TA", "R", "DB", "D", "AW", "YC", "YP", "VP")] + \
           ["class failed %s" % e for e in ("Unauthorized", "VaultInsufficientBalance", "WorktopInsufficientBalance", "WorktopAssertionFailed",
                                            "DropNonEmptyWorktop", "VerifyParentFailed")] + \
           ["class rejected MismatchingYieldChildAndYieldParentCounts", "class rejected SubintentDoesNotEndWithYieldToParent", "class success ",
            "VERIFY_PARENT tells root from direct parent (key signed root only) VerifyParentFailed",
            "VERIFY_PARENT tells root from direct parent (key signed parent only) ok", "yield to child number 2 (success)",
            "several yields over one edge (success)"]
    missing = [f for f in need if not features.get(f)]
    if missing:
        raise ToolError("the replayed behaviours do not exercise: %s" % missing)
    ctx.cov["traces_validated_against_impl"] += replayed
    ctx.cov["evaluations"] += steps
    # B: binding self-test - wrong expectations must be reported, one per kind
    b0 = pools[0][0]
    succ = [x for x in b0 if x["r1"]["st"] == "success" and len(x["par"]) > 1]
    fail = [x for x in b0 if x["r1"]["st"] == "failed"]
    if not succ or not fail:
        raise ToolError("no successful / failing behaviour to corrupt")
    cor = [_corrupt(succ[0], "balance"), _corrupt(succ[-1], "outcome"), _corrupt(fail[0], "class"), _corrupt(fail[-1], "outcome"),
           _corrupt(succ[0], "replay")]
    mm, _, _ = _replay(ctx, cor, 1, pools[0][2], procs=1)
    hit = {m["b"] for m in mm}
    if hit != set(range(len(cor))):
        raise ToolError("binding self-test: corrupted expectations %s were not reported" % sorted(set(range(len(cor))) - hit))
    core.log("subintents: %d behaviours replayed (%d executed), binding self-test rejected %d corrupted expectations" % (replayed, executed, len(cor)))
    return {"exhaustive": False, "distinct_nontrivial": executed, "behaviours_generated": total_beh, "distinct_behaviours": distinct_all,
            "behaviours_replayed": replayed, "outcome_classes_replayed": sorted("%s %s" % c for c in classes),
            "corrupted_expectations_reported": len(cor), "features_guaranteed": len(features),
            "rule": "S: TLC explores every program (lazy, just-in-time program extension) of the subintent processor model within the "
                    "bounds %s with the full instruction alphabet (withdraw from own / parent's account, take, take-all, return, deposit "
                    "bucket / worktop, assert, YIELD_TO_CHILD/PARENT with bucket sets, VERIFY_PARENT, closing without a final yield, "
                    "poisoned completion) and checks conservation, stack/alternation, single runner, success <=> all intents ended "
                    "once, VERIFY_PARENT against the direct parent, per-intent auth, failure reverts all, re-submission. G: finished "
                    "behaviours (scenario, completed programs, verdicts of 3 rounds) from those runs plus seeded TLC -simulate runs "
                    "over 7 tree shapes / 2 resources / programs up to 6 instructions per intent are selected round-robin over the "
                    "outcome classes (static rejections at most a quarter) and replayed as real notarized V2 transactions "
                    "(add_signed_child, fee locked from the faucet): round 1, the identical transaction again, and the same signed "
                    "subintents under a fresh root; outcome class, error class and all account balances from the DB are compared. "
                    "Before the round-robin fill, 6 behaviours per limit / kind feature are taken (every op kind in a success and in a "
                    "failure, yields with 0/1/2 buckets, repeated yields over one edge, VERIFY_PARENT keys that tell the direct parent "
                    "from the root, withdraw amounts, every shape, every class) and the run fails if a required one is absent. "
                    "distinct_nontrivial = distinct replayed behaviours whose round 1 was executed (success or runtime failure), "
                    "static rejections not counted" % json.dumps([{k: v for k, v in c.items()} for c in runs])}


PROPS = {
    "X01": dict(fn=X01, level="model_checking", design_ref="extension: V2 subintents (multi-intent transaction processor)",
                technique="TLA+ spec Subintents (one coroutine per intent: pc / worktop / buckets, parent stack, static validator rules, "
                          "three submission rounds): TLC exhaustive check of invariants and action properties over all programs within "
                          "bounds + model-generated behaviours replayed as real notarized V2 transactions on a LedgerSimulator",
                text="Model: a transaction intent and a tree of subintents (depth <= 3, up to 4 intents), each a straight-line program over "
                     "withdraw / take / return / deposit / assert / YIELD_TO_CHILD / YIELD_TO_PARENT / VERIFY_PARENT with its own worktop, "
                     "buckets, signers; exactly one intent runs, control moves only by yields (the processor's parent stack); the "
                     "validator's static rules (subintent ends with YIELD_TO_PARENT, yield counts of every edge match) reject before "
                     "execution. TLC checks on every reachable state of every program within the bounds: (1) resources are conserved and "
                     "a yield delivers exactly the named buckets to the other side's worktop; (2) success iff every intent ran to its end "
                     "exactly once, subintents end with YIELD_TO_PARENT, a never-resumed / unfinished child is only possible in statically "
                     "rejected transactions; (3) the stack is the ancestor chain, each suspended at its YIELD_TO_CHILD, every other intent is "
                     "unstarted, ended or suspended at its own yield; (4) VERIFY_PARENT passes iff the key signed the DIRECT parent; "
                     "withdrawals are authorised by the signers of the running intent only; (5) failure / rejection commits nothing and "
                     "finalizes no subintent: re-submitted under a fresh root the subintents run again with the same result, after success "
                     "they are rejected as already committed; the incremental rejection logic agrees with the declarative validator. "
                     "Binding: the behaviours TLC prints are rebuilt as signed partial transactions + notarized root and executed.",
                note="Runtime error classes compared: Unauthorized, VaultInsufficientBalance, WorktopInsufficientBalance, "
                     "WorktopAssertionFailed, DropNonEmptyWorktop (FungibleResourceManagerError::DropNonEmptyBucket), VerifyParentFailed; "
                     "rejection classes: MismatchingYieldChildAndYieldParentCounts, SubintentDoesNotEndWithYieldToParent, "
                     "IntentHashPreviouslyCommitted. The failing instruction index is not observable in the receipt and not compared. "
                     "Not modelled: proofs in the parent's auth zone other than signature proofs, non-fungibles, fee payment (faucet), "
                     "the engine-level errors NoParentToYieldTo / InvalidIntentIndex (unreachable for validated transactions), "
                     "dangling-bucket and other static manifest errors (the generator never produces them). Trusted: TLC, the harness "
                     "(manifest construction from the model's instruction records, error-class projection by Debug-string prefix)."),
}

"""Numeric / calendar column: Decimal & PreciseDecimal arithmetic (C24), rounding (C25), roots and
powers (C26), text forms (C27) — spec/Decimal + spec/common/BigInt — and UtcDateTime / Instant
calendar conversions (C29) — spec/Calendar.  Harness binary: vh_num.

Pattern of every check here (function-shaped properties):
  S  the TLA+ reference definition / relational post-conditions, instantiated with plain TLC
     integers at a tiny scale and checked exhaustively (MC*.tla);
  T  the real functions are called by the harness on boundary-class and seeded random inputs, the
     recorded calls (operands/results as limbs taken from the byte representation) are validated
     by the same post-conditions instantiated with BigInt at full scale (Trace*.tla);
  B  binding self-test: recorded results are corrupted and must be rejected.
The harness and this file contain no decision logic; Python integers are used only to corrupt
recorded values for B, to count distinct cases, and (spec/common/bigint_selftest.py) to test BigInt.tla."""
import json, os, re, sys, time
import core
from core import tlc, tlc_must_pass, vh, ToolError, write_ndjson, read_ndjson

BIN = "vh_num"


# ---------------------------------------------------------------------------------------------
# helpers (candidates for lib/core.py)

def validate_calls_classes(spec_dir, module, events, name, chunks=12, cfg=None, timeout=3000, heap="2g", env=None):
    """Like core.validate_calls, but also returns the class string the trace module prints for a
    rejected event (<<"CLASS", l, "...">>): {global index: class}."""
    from concurrent.futures import ThreadPoolExecutor
    n = len(events)
    if n == 0:
        return {}
    chunks = max(1, min(chunks, (n + 49) // 50))
    size = (n + chunks - 1) // chunks
    jobs = []
    for c in range(chunks):
        part = events[c * size:(c + 1) * size]
        if not part:
            continue
        p = os.path.join(core.WORK, "%s-%d-calls-%d.ndjson" % (name, os.getpid(), c))
        write_ndjson(p, part)
        jobs.append((c * size, p, len(part)))

    def run(job):
        base, p, ln = job
        e = {"TRACE": p}
        if env:
            e.update(env)
        r = tlc(spec_dir, module, cfg=cfg, workers=1, env=e, timeout=timeout, heap=heap, coverage=False, stack="1g")
        if not r.ok:
            sys.stderr.write(r.out[-5000:])
            raise ToolError("call-trace validation failed to run for %s" % module)
        m = re.search(r'<<"DONE", (\d+)>>', r.out)
        if not m or int(m.group(1)) != ln:
            sys.stderr.write(r.out[-3000:])
            raise ToolError("call-trace validation of %s consumed %s of %d events" % (module, m and m.group(1), ln))
        bad = {base + int(x) - 1: "unclassified" for x in re.findall(r'<<"BAD", (\d+)>>', r.out)}
        for x, cl in re.findall(r'<<"CLASS", (\d+), "([^"]*)">>', r.out):
            bad[base + int(x) - 1] = cl
        os.unlink(p)
        return bad

    with ThreadPoolExecutor(max_workers=min(len(jobs), 12)) as ex:
        res = list(ex.map(run, jobs))
    out = {}
    for b in res:
        out.update(b)
    return out


def big_to_int(b):
    return b["s"] * sum(d * 10000 ** i for i, d in enumerate(b["l"]))


def int_to_big(n):
    s = (n > 0) - (n < 0)
    n = abs(n)
    l = []
    while n:
        l.append(n % 10000)
        n //= 10000
    return {"s": s, "l": l}


def bump(b, d=1):
    """a recorded big integer off by d (used only to corrupt recordings for the binding self-test)"""
    return int_to_big(big_to_int(b) + d)


def record(ctx, module, args):
    """run `vh_num <module> record ...` -> list of events"""
    p = ctx.wpath(module + "-trace.ndjson")
    vh(BIN, [module, "record", "seed=%d" % ctx.seed] + list(args), stdout_path=p)
    evs = read_ndjson(p)
    os.unlink(p)
    if not evs:
        raise ToolError("harness %s recorded nothing" % module)
    return evs


def check_calls(ctx, spec_dir, trace_module, evs, what, chunks=12, replay_extra=None):
    """T: validate; every rejected call is a violation keyed by the class TLA+ assigned."""
    t0 = time.time()
    bad = validate_calls_classes(spec_dir, trace_module, evs, ctx.pid + "-" + trace_module, chunks=chunks)
    ctx.cov["evaluations"] += len(evs)
    ctx.cov["traces_validated_against_impl"] += len(evs)
    for i in sorted(bad):
        ev = evs[i]
        ctx.violation(bad[i], "%s: recorded call violates the TLA+ post-condition: %s" % (what, json.dumps(ev)[:400]),
                      dict({"trace_module": spec_dir + "/" + trace_module, "event": ev, "class": bad[i]}, **(replay_extra or {})))
    core.log("%s: %d calls validated in %.1fs, %d rejected" % (trace_module, len(evs), time.time() - t0, len(bad)))
    return bad


def binding_selftest(ctx, spec_dir, trace_module, evs, bad, corrupt, want=40):
    """B: corrupt accepted recordings (corrupt(ev) -> list of corrupted copies); all must be rejected."""
    cor = []
    kinds = {}
    for i, ev in enumerate(evs):
        if i in bad:
            continue
        k = (ev["a"], ev.get("out"), ev.get("ty"))
        if kinds.get(k, 0) >= 3:
            continue
        cs = corrupt(ev)
        if cs:
            kinds[k] = kinds.get(k, 0) + 1
            cor.extend(cs)
        if len(cor) >= want * 4:
            break
    if len(cor) < 4:
        raise ToolError("binding self-test of %s: nothing to corrupt" % trace_module)
    rej = validate_calls_classes(spec_dir, trace_module, cor, ctx.pid + "-selftest", chunks=2)
    missed = [cor[i] for i in range(len(cor)) if i not in rej]
    if missed:
        raise ToolError("binding self-test of %s: corrupted recording accepted: %s" % (trace_module, json.dumps(missed[0])[:300]))
    core.log("%s binding self-test: %d corrupted recordings all rejected" % (trace_module, len(cor)))
    return len(cor)


def distinct_count(evs, trivial=lambda e: False):
    return len({json.dumps(e, sort_keys=True) for e in evs if not trivial(e)})


def pick_samples(ctx, evs, kinds, per=1):
    seen = {}
    for e in evs:
        k = (e["a"], e.get("out"))
        if e["a"] in kinds and seen.get(k, 0) < per:
            seen[k] = seen.get(k, 0) + 1
            ctx.sample({"recorded_call": e}, cap=8)


# ---------------------------------------------------------------------------------------------
# C29 — calendar

def _c29_corrupt(ev):
    a, out = ev["a"], ev.get("out")
    res = []

    def dt_changed(dt):
        d = dict(dt)
        d["s"] = (d["s"] + 1) % 60
        return d
    if a == "from_instant" and out == "ok":
        res.append(dict(ev, dt=dt_changed(ev["dt"])))
        res.append(dict(ev, t=bump(ev["t"])))
        res.append(dict(ev, out="err"))
        res.append(dict(ev, out="panic"))
    elif a == "from_instant" and out == "err":
        res.append(dict(ev, out="panic"))
    elif a == "to_instant":
        res.append(dict(ev, t=bump(ev["t"], -1)))
        res.append(dict(ev, t=bump(ev["t"], 86400)))
    elif a == "dt_add" and out == "some":
        res.append(dict(ev, r=dt_changed(ev["r"])))
        res.append(dict(ev, out="none"))
    elif a == "dt_add" and out == "none":
        res.append(dict(ev, out="panic"))
    elif a == "inst_add" and out == "some":
        res.append(dict(ev, r=bump(ev["r"])))
        res.append(dict(ev, out="none"))
    elif a == "mono":
        res.append(dict(ev, ord=-ev["ord"] if ev["ord"] else 1))
    elif a == "print" and len(ev["cp"]) == 20:
        cp = list(ev["cp"])
        cp[18] = 48 + (cp[18] - 48 + 1) % 10
        res.append(dict(ev, cp=cp))
        res.append(dict(ev, cp=ev["cp"][:19]))
    elif a == "parse" and out == "ok" and len(ev["cp"]) == 20 and all(c < 128 for c in ev["cp"]):
        res.append(dict(ev, dt=dt_changed(ev["dt"])))
        res.append(dict(ev, out="err"))
        res.append(dict(ev, out="panic"))
    elif a == "parse" and out == "err":
        res.append(dict(ev, out="panic"))
    elif a == "new" and out in ("ok", "err"):
        res.append(dict(ev, out="ok" if out == "err" else "err"))
    return res


def C29(ctx):
    q = ctx.quick
    # S: closed formula vs day-by-day successor calendar, exhaustive over all days of years 1..MaxYear
    my, te = (801, 13) if q else (4000, 1)
    r = tlc("Calendar", "MCCalendar", workers=6, consts={"MaxYear": my, "TextEvery": te}, timeout=3000)
    tlc_must_pass(r, "MCCalendar", required_actions=["NextDay", "NextMonth", "NextYear"])
    ctx.add_tlc(r)
    # T: recorded calls of the real functions at full scale
    evs = record(ctx, "time", ["scale=%d" % (1 if q else 12)])
    pick_samples(ctx, evs, {"from_instant", "dt_add", "parse"})
    bad = check_calls(ctx, "Calendar", "TraceCalendar", evs, "UtcDateTime/Instant")
    ncor = binding_selftest(ctx, "Calendar", "TraceCalendar", evs, bad, _c29_corrupt)
    nonascii = sum(1 for e in evs if e["a"] == "parse" and any(c > 127 for c in e["cp"]))
    return {"exhaustive": False, "distinct_nontrivial": distinct_count(evs, lambda e: e["a"] == "fields"),
            "model_days_checked": r.distinct, "parse_inputs_with_non_ascii": nonascii, "corrupted_recordings_rejected": ncor,
            "rule": "S: every day of years 1..%d (TLC, exhaustive): closed-form day count vs calendar successor, bijection, "
                    "anchors, text form. T: boundary field combinations (57 years x 27 month/day x 7 times of day) through "
                    "UtcDateTime::new, each valid one through to_instant, from_instant(t-1,t,t+1), order, to_string, from_str; "
                    "boundary and seeded random instants over the whole i64 range; add_days/hours/minutes/seconds on "
                    "UtcDateTime and Instant with boundary/random amounts incl. amounts landing on MIN/MAX +-1; malformed "
                    "and documented-form texts incl. 17 special/non-ASCII characters at each of the 20 positions. "
                    "distinct_nontrivial = distinct recorded calls (operation+inputs+result) excluding getter projections; "
                    "rejections count because rejecting is part of the property" % my}


PROPS = {
    "C29": dict(fn=C29, level="model_checking", design_ref="5/C29",
                technique="TLA+ spec Calendar (proleptic Gregorian day count, ToInstant, text form) over an abstract number "
                          "signature: TLC exhaustive check against a day-by-day successor calendar with TLC integers + "
                          "call-trace validation of the real UtcDateTime/Instant functions with BigInt at full scale",
                text="TLC checks for every day of 801 (quick) / 4000 (thorough) years that the closed-form day count used by the "
                     "specification agrees with the calendar successor (month lengths + leap rule), is a bijection onto 0..N-1, "
                     "hits the epoch constant and known timestamps, and that the documented text form denotes its fields. The real "
                     "UtcDateTime::new/from_instant/to_instant/add_*/to_string/from_str and Instant::add_* are then called (under "
                     "catch_unwind) on boundary and seeded random inputs over the full i64 / u32 ranges and every recorded call is "
                     "accepted or rejected by the specification's post-conditions evaluated with BigInt: from_instant = Ok(dt) iff "
                     "MIN<=t<=MAX, dt valid and ToInstant(dt)=t; arithmetic agrees with timestamp arithmetic or is None exactly "
                     "when the exact timestamp is unsupported; order preserved; Display = documented form for years <= 9999; "
                     "from_str never panics, returns only valid date-times and inverts the documented form.",
                note="The statement's parse clause only demands 'date-time or error, no panic'; texts outside the documented "
                     "all-digit form (e.g. a '+' inside a field, accepted by the code) are therefore only required to yield a valid "
                     "date-time or an error. Years > 9999 print with more than four digits and are outside the print/parse clause. "
                     "Instant::add_* is specified as checked 64-bit arithmetic (product and sum must fit). Trusted: TLC, BigInt.tla "
                     "(self-tested against Python integers), the harness projection (fields via getters, limbs from to_le_bytes)."),
}

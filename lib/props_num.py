"""Numeric / calendar column: Decimal & PreciseDecimal arithmetic (C24), rounding (C25), roots and
powers (C26), text forms (C27) — spec/Decimal + spec/common/BigInt — and UtcDateTime / Instant
calendar conversions (C29) — spec/Calendar.  Harness binary: vh_num.

Pattern of every check here (function-shaped properties):
  S  the TLA+ reference definition / relational post-conditions, instantiated with plain TLC
     integers at a tiny scale and checked exhaustively (MC*.tla);
  T  the real functions are called by the harness on boundary-class and seeded random inputs, the
     recorded calls (operands/results as limbs taken from the byte representation) are validated
     by the same post-conditions instantiated with BigInt at full scale (Trace*.tla);
  B  binding self-test: recorded results are corrupted and must be rejected.
The harness and this file contain no decision logic; Python integers are used only to corrupt
recorded values for B, to count distinct cases, and (spec/common/bigint_selftest.py) to test BigInt.tla."""
import json, os, re, sys, time
import core
from core import tlc, tlc_must_pass, vh, ToolError, write_ndjson, read_ndjson

BIN = "vh_num"


# ---------------------------------------------------------------------------------------------
# helpers (candidates for lib/core.py)

LAST_TAGS = {}   # other tags printed by the last validation: {"WEAK": {indices}}


def validate_calls_classes(spec_dir, module, events, name, chunks=12, cfg=None, timeout=3000, heap="2g", env=None):
    """Like core.validate_calls, but also returns the class string the trace module prints for a
    rejected event (<<"CLASS", l, "...">>): {global index: class}."""
    from concurrent.futures import ThreadPoolExecutor
    LAST_TAGS.clear()
    n = len(events)
    if n == 0:
        return {}
    chunks = max(1, min(chunks, (n + 49) // 50))
    jobs = []
    for c in range(chunks):
        part = events[c::chunks]          # round-robin: expensive events are spread over the processes
        if not part:
            continue
        p = os.path.join(core.WORK, "%s-%d-calls-%d.ndjson" % (name, os.getpid(), c))
        write_ndjson(p, part)
        jobs.append((c, p, len(part)))

    def run(job):
        c, p, ln = job
        e = {"TRACE": p}
        if env:
            e.update(env)
        r = tlc(spec_dir, module, cfg=cfg, workers=1, env=e, timeout=timeout, heap=heap, coverage=False, stack="1g")
        if not r.ok:
            sys.stderr.write(r.out[-5000:])
            raise ToolError("call-trace validation failed to run for %s" % module)
        m = re.search(r'<<"DONE", (\d+)>>', r.out)
        if not m or int(m.group(1)) != ln:
            sys.stderr.write(r.out[-3000:])
            raise ToolError("call-trace validation of %s consumed %s of %d events" % (module, m and m.group(1), ln))
        gi = lambda x: c + (int(x) - 1) * chunks      # local 1-based index -> global index
        bad = {gi(x): "unclassified" for x in re.findall(r'<<"BAD", (\d+)>>', r.out)}
        for x, cl in re.findall(r'<<"CLASS", (\d+), "([^"]*)">>', r.out):
            bad[gi(x)] = cl
        for tag, x in re.findall(r'<<"(WEAK)", (\d+)>>', r.out):
            LAST_TAGS.setdefault(tag, set()).add(gi(x))
        os.unlink(p)
        return bad

    with ThreadPoolExecutor(max_workers=min(len(jobs), 12)) as ex:
        res = list(ex.map(run, jobs))
    out = {}
    for b in res:
        out.update(b)
    return out


def big_to_int(b):
    return b["s"] * sum(d * 10000 ** i for i, d in enumerate(b["l"]))


def int_to_big(n):
    s = (n > 0) - (n < 0)
    n = abs(n)
    l = []
    while n:
        l.append(n % 10000)
        n //= 10000
    return {"s": s, "l": l}


def bump(b, d=1):
    """a recorded big integer off by d (used only to corrupt recordings for the binding self-test)"""
    return int_to_big(big_to_int(b) + d)


def record(ctx, module, args):
    """run `vh_num <module> record ...` -> list of events"""
    p = ctx.wpath(module + "-trace.ndjson")
    vh(BIN, [module, "record", "seed=%d" % ctx.seed] + list(args), stdout_path=p)
    evs = read_ndjson(p)
    os.unlink(p)
    if not evs:
        raise ToolError("harness %s recorded nothing" % module)
    return evs


def check_calls(ctx, spec_dir, trace_module, evs, what, chunks=12, replay_extra=None):
    """T: validate; every rejected call is a violation keyed by the class TLA+ assigned."""
    t0 = time.time()
    bad = validate_calls_classes(spec_dir, trace_module, evs, ctx.pid + "-" + trace_module, chunks=chunks)
    ctx.cov["evaluations"] += len(evs)
    ctx.cov["traces_validated_against_impl"] += len(evs)
    for i in sorted(bad):
        ev = evs[i]
        ctx.violation(bad[i], "%s: recorded call violates the TLA+ post-condition: %s" % (what, json.dumps(ev)[:400]),
                      dict({"trace_module": spec_dir + "/" + trace_module, "event": ev, "class": bad[i]}, **(replay_extra or {})))
    core.log("%s: %d calls validated in %.1fs, %d rejected" % (trace_module, len(evs), time.time() - t0, len(bad)))
    return bad


def binding_selftest(ctx, spec_dir, trace_module, evs, bad, corrupt, want=40):
    """B: corrupt accepted recordings (corrupt(ev) -> list of corrupted copies); all must be rejected."""
    cor = []
    kinds = {}
    for i, ev in enumerate(evs):
        if i in bad:
            continue
        k = (ev["a"], ev.get("out"), ev.get("ty"))
        if kinds.get(k, 0) >= 3:
            continue
        cs = corrupt(ev)
        if cs:
            kinds[k] = kinds.get(k, 0) + 1
            cor.extend(cs)
        if len(cor) >= want * 4:
            break
    if len(cor) < 4:
        raise ToolError("binding self-test of %s: nothing to corrupt" % trace_module)
    rej = validate_calls_classes(spec_dir, trace_module, cor, ctx.pid + "-selftest", chunks=2)
    missed = [cor[i] for i in range(len(cor)) if i not in rej]
    if missed:
        raise ToolError("binding self-test of %s: corrupted recording accepted: %s" % (trace_module, json.dumps(missed[0])[:300]))
    core.log("%s binding self-test: %d corrupted recordings all rejected" % (trace_module, len(cor)))
    return len(cor)


def replay_file(ctx, spec_dir, trace_module, what):
    """./check Cxx --replay f: the call recorded in the replay file is made again on the current tree
    (same inputs) and the fresh recording is decided by the specification."""
    obj = json.load(open(ctx.replay_path))
    ev = obj.get("replay", {}).get("event")
    if not ev:
        raise ToolError("replay file has no recorded event")
    ev = {k: v for k, v in ev.items() if k != "weak"}
    p = ctx.wpath("replay-in.ndjson")
    write_ndjson(p, [ev])
    rc, out = vh(BIN, ["replay", "replay"], stdin_path=p)
    os.unlink(p)
    fresh = [json.loads(l) for l in out.splitlines() if l.strip()]
    if not fresh or any(e.get("a") == "unsupported" for e in fresh):
        raise ToolError("replay of this kind of call is not supported: %s" % ev.get("a"))
    ctx.sample({"replayed_call": fresh[0]})
    bad = check_calls(ctx, spec_dir, trace_module, fresh, what, chunks=1)
    return {"replayed": len(fresh), "distinct_nontrivial": len(fresh), "rule": "replay of one recorded call from %s" % ctx.replay_path}


def distinct_count(evs, trivial=lambda e: False):
    return len({json.dumps(e, sort_keys=True) for e in evs if not trivial(e)})


def pick_samples(ctx, evs, kinds, per=1):
    seen = {}
    for e in evs:
        k = (e["a"], e.get("out"))
        if e["a"] in kinds and seen.get(k, 0) < per:
            seen[k] = seen.get(k, 0) + 1
            ctx.sample({"recorded_call": e}, cap=8)


# ---------------------------------------------------------------------------------------------
# C29 — calendar

def _c29_corrupt(ev):
    a, out = ev["a"], ev.get("out")
    res = []

    def dt_changed(dt):
        d = dict(dt)
        d["s"] = (d["s"] + 1) % 60
        return d
    if a == "from_instant" and out == "ok":
        res.append(dict(ev, dt=dt_changed(ev["dt"])))
        res.append(dict(ev, t=bump(ev["t"])))
        res.append(dict(ev, out="err"))
        res.append(dict(ev, out="panic"))
    elif a == "from_instant" and out == "err":
        res.append(dict(ev, out="panic"))
    elif a == "to_instant":
        res.append(dict(ev, t=bump(ev["t"], -1)))
        res.append(dict(ev, t=bump(ev["t"], 86400)))
    elif a == "dt_add" and out == "some":
        res.append(dict(ev, r=dt_changed(ev["r"])))
        res.append(dict(ev, out="none"))
    elif a == "dt_add" and out == "none":
        res.append(dict(ev, out="panic"))
    elif a == "inst_add" and out == "some":
        res.append(dict(ev, r=bump(ev["r"])))
        res.append(dict(ev, out="none"))
    elif a == "mono":
        res.append(dict(ev, ord=-ev["ord"] if ev["ord"] else 1))
    elif a == "print" and len(ev["cp"]) == 20:
        cp = list(ev["cp"])
        cp[18] = 48 + (cp[18] - 48 + 1) % 10
        res.append(dict(ev, cp=cp))
        res.append(dict(ev, cp=ev["cp"][:19]))
    elif a == "parse" and out == "ok" and len(ev["cp"]) == 20 and all(c < 128 for c in ev["cp"]):
        res.append(dict(ev, dt=dt_changed(ev["dt"])))
        res.append(dict(ev, out="err"))
        res.append(dict(ev, out="panic"))
    elif a == "parse" and out == "err":
        res.append(dict(ev, out="panic"))
    elif a == "new" and out in ("ok", "err"):
        res.append(dict(ev, out="ok" if out == "err" else "err"))
    return res


def C29(ctx):
    q = ctx.quick
    # S: closed formula vs day-by-day successor calendar, exhaustive over all days of years 1..MaxYear
    my, te = (801, 13) if q else (4000, 1)
    r = tlc("Calendar", "MCCalendar", workers=6, consts={"MaxYear": my, "TextEvery": te}, timeout=3000)
    tlc_must_pass(r, "MCCalendar", required_actions=["NextDay", "NextMonth", "NextYear"])
    ctx.add_tlc(r)
    if getattr(ctx, "replay_path", None):
        return replay_file(ctx, "Calendar", "TraceCalendar", "UtcDateTime/Instant")
    # T: recorded calls of the real functions at full scale
    evs = record(ctx, "time", ["scale=%d" % (1 if q else 12)])
    pick_samples(ctx, evs, {"from_instant", "dt_add", "parse"})
    bad = check_calls(ctx, "Calendar", "TraceCalendar", evs, "UtcDateTime/Instant")
    ncor = binding_selftest(ctx, "Calendar", "TraceCalendar", evs, bad, _c29_corrupt)
    nonascii = sum(1 for e in evs if e["a"] == "parse" and any(c > 127 for c in e["cp"]))
    return {"exhaustive": False, "distinct_nontrivial": distinct_count(evs, lambda e: e["a"] == "fields"),
            "model_days_checked": r.distinct, "parse_inputs_with_non_ascii": nonascii, "corrupted_recordings_rejected": ncor,
            "rule": "S: every day of years 1..%d (TLC, exhaustive): closed-form day count vs calendar successor, bijection, "
                    "anchors, text form. T: boundary field combinations (57 years x 27 month/day x 7 times of day) through "
                    "UtcDateTime::new, each valid one through to_instant, from_instant(t-1,t,t+1), order, to_string, from_str; "
                    "boundary and seeded random instants over the whole i64 range; add_days/hours/minutes/seconds on "
                    "UtcDateTime and Instant with boundary/random amounts incl. amounts landing on MIN/MAX +-1; malformed "
                    "and documented-form texts incl. 17 special/non-ASCII characters at each of the 20 positions. "
                    "distinct_nontrivial = distinct recorded calls (operation+inputs+result) excluding getter projections; "
                    "rejections count because rejecting is part of the property" % my}


# ---------------------------------------------------------------------------------------------
# C24-C27 — Decimal / PreciseDecimal

ZERO = {"s": 0, "l": []}
D_MIN = -(2 ** 191)
P_MIN = -(2 ** 255)


def _dec_corrupt(ev):
    """corrupted copies of an accepted Decimal-column recording (all must be rejected)"""
    a, out = ev["a"], ev.get("out")
    res = []
    if a in ("parse",):
        if out == "ok":
            res += [dict(ev, r=bump(ev["r"], 1)), dict(ev, out="err"), dict(ev, out="panic")]
        elif out == "err":
            res += [dict(ev, out="panic")]
    elif a == "print":
        cp = list(ev["cp"])
        if cp and 48 <= cp[-1] <= 57:
            cp2 = cp[:-1] + [48 + (cp[-1] - 48 + 1) % 10]
            res += [dict(ev, cp=cp2), dict(ev, cp=cp + [48]) if 46 in cp else dict(ev, cp=cp + [46, 48]), dict(ev, cp=[43] + cp if cp[0] != 45 else cp[1:])]
        res += [dict(ev, out="panic")]
    elif out == "some":
        res += [dict(ev, r=bump(ev["r"], 1)), dict(ev, r=bump(ev["r"], -1)), dict(ev, out="none"), dict(ev, out="panic")]
        if a == "powi" and ev.get("weak"):
            res = [dict(ev, out="panic")]
    elif out == "none":
        res += [dict(ev, out="panic")]
        if a in ("add", "sub", "neg", "abs", "from_int"):
            res += [dict(ev, out="some", r=ZERO)]
    return res


def _strip(evs):
    return [{k: v for k, v in e.items() if k != "weak"} for e in evs]


def binding_selftest_dec(ctx, evs, bad, extra=()):
    cor, kinds = list(extra), {}
    for i, ev in enumerate(evs):
        if i in bad:
            continue
        k = (ev["a"], ev.get("out"), ev.get("ty"), ev.get("mode"), ev.get("via"))
        if kinds.get(k, 0) >= 1:
            continue
        cs = _dec_corrupt(ev)
        if cs:
            kinds[k] = 1
            cor.extend(cs)
        if len(cor) >= 400:
            break
    if len(cor) < 4:
        raise ToolError("binding self-test: nothing to corrupt")
    cor = _strip(cor)
    rej = validate_calls_classes("Decimal", "TraceDecimal", cor, ctx.pid + "-selftest", chunks=4)
    missed = [cor[i] for i in range(len(cor)) if i not in rej]
    if missed:
        raise ToolError("binding self-test of TraceDecimal: corrupted recording accepted: %s" % json.dumps(missed[0])[:400])
    core.log("TraceDecimal binding self-test: %d corrupted recordings all rejected" % len(cor))
    return len(cor), rej, cor


def C24(ctx):
    q = ctx.quick
    # S: exhaustive at tiny scale (all pairs): unique outcome = direct definition
    r = tlc("Decimal", "MCDecimal", cfg="MCArith", workers=6, consts={"NBITS": 6 if q else 8, "WBITS": 11 if q else 12}, timeout=3000)
    tlc_must_pass(r, "MCDecimal/MCArith", required_actions=["Pair", "Single", "DoNarrow"])
    ctx.add_tlc(r)
    if getattr(ctx, "replay_path", None):
        return replay_file(ctx, "Decimal", "TraceDecimal", "Decimal/PreciseDecimal arithmetic")
    if not q:
        # the big-integer library the full-scale validation rests on, against Python integers
        sys.path.insert(0, os.path.join(core.SPEC, "common"))
        import bigint_selftest
        total, disagree, rejected = bigint_selftest.run(ctx.seed, 2000)
        if disagree or not rejected:
            raise ToolError("BigInt.tla self-test failed: %d disagreements (of %d), corrupted rejected=%s" % (len(disagree), total, rejected))
        core.log("BigInt.tla self-test: %d cases agree with Python integers" % total)
    evs = record(ctx, "arith", ["scale=%d" % (1 if q else 6)])
    pick_samples(ctx, evs, {"mul", "div", "narrow"})
    bad = check_calls(ctx, "Decimal", "TraceDecimal", evs, "Decimal/PreciseDecimal arithmetic")
    # the cases that were once wrongly reported as overflow must be present and (now) recorded as exact MIN
    mins = [e for e in evs if e["a"] in ("mul", "div", "narrow") and e["out"] == "some" and big_to_int(e["r"]) in (D_MIN, P_MIN)]
    kinds = {(e["a"], e.get("ty")) for e in mins}
    missing = {("mul", "d"), ("mul", "p"), ("div", "d"), ("div", "p"), ("narrow", None)} - kinds
    recurred = [i for i in bad if bad[i] == "result equals MIN"]
    if missing and not recurred:
        raise ToolError("C24 inputs no longer contain calls whose exact result is MIN: %s" % sorted(map(str, missing)))
    for e in mins[:2]:
        ctx.sample({"exact_result_is_MIN": e}, cap=8)
    # B: corrupted recordings must be rejected; a recurrence of 'MIN reported as overflow' must be flagged under its key
    extra = [dict(e, out="none", r=ZERO) for e in mins[:6]]
    ncor, rej, cor = binding_selftest_dec(ctx, evs, bad, extra=extra)
    for i in range(len(extra)):
        if rej.get(i) != "result equals MIN":
            raise ToolError("binding self-test: a MIN result turned into overflow was classified %r" % rej.get(i))
    nontriv = distinct_count(evs, lambda e: big_to_int(e["x"]) == 0 or ("y" in e and big_to_int(e["y"]) == 0))
    return {"exhaustive": False, "distinct_nontrivial": nontriv, "calls_with_exact_result_MIN": len(mins),
            "corrupted_recordings_rejected": ncor,
            "rule": "S: all operand pairs of a %d-bit / 1-decimal type (TLC): every post-condition admits exactly the direct result. "
                    "T: ~40 core boundary values crossed pairwise x {add,sub,mul,div}, constructed pairs whose exact result is "
                    "MIN-1..MIN+1 / MAX-1..MAX+1 (sums, 2^j*ONE x MIN/2^j, MIN/ONE, 10^k*10^m), every boundary class value "
                    "(+-10^k, +-2^k, +-(2^k+-1), MIN/2^j, MAX/2^j, sqrt(MAX) neighbourhood) against core/boundary/random partners, "
                    "seeded random pairs with bit lengths spread over the width, neg/abs, From/TryFrom of 12 primitive and 10-12 "
                    "bnum integer types at their limits and at floor(MAX/ONE)+-2, widening of Decimal boundary values, narrowing "
                    "of their images +-1, +-(10^18-1), +-10^18; both types. distinct_nontrivial = distinct recorded calls with "
                    "all operands non-zero" % (6 if q else 8)}


def C25(ctx):
    q = ctx.quick
    r = tlc("Decimal", "MCDecimal", cfg="MCRound", workers=6, consts={"WBITS": 8 if q else 10, "NBITS": 4 if q else 6}, timeout=3000)
    tlc_must_pass(r, "MCDecimal/MCRound", required_actions=["DoRound", "DoFloorCeil", "DoTruncate"])
    ctx.add_tlc(r)
    if getattr(ctx, "replay_path", None):
        return replay_file(ctx, "Decimal", "TraceDecimal", "rounding")
    evs = record(ctx, "round", ["scale=%d" % (1 if q else 6)])
    pick_samples(ctx, evs, {"round", "truncate", "withdraw"})
    bad = check_calls(ctx, "Decimal", "TraceDecimal", evs, "rounding")
    ncor, _, _ = binding_selftest_dec(ctx, evs, bad)
    modes = {e["mode"] for e in evs if e["a"] == "round"}
    dps = {(e["ty"], e["dp"]) for e in evs if e["a"] == "round"}
    if len(modes) != 7 or len(dps) != 19 + 37:
        raise ToolError("C25 inputs do not cover all modes / decimal places: %d modes, %d (type, dp)" % (len(modes), len(dps)))
    nontriv = distinct_count(evs, lambda e: e["out"] == "some" and e["r"] == e["x"])
    ties = sum(1 for e in evs if e["a"] == "round" and e["out"] == "some" and e["r"] != e["x"] and
               2 * abs(big_to_int(e["r"]) - big_to_int(e["x"])) == 10 ** ((18 if e["ty"] == "d" else 36) - e["dp"]))
    return {"exhaustive": False, "distinct_nontrivial": nontriv, "exact_ties_recorded": ties, "corrupted_recordings_rejected": ncor,
            "rule": "S: all values of a %d-bit / 2-decimal type x dp 0..2 x 7 modes, floor/ceiling, truncation to a narrower type "
                    "(TLC): exactly one outcome, equal to the direct definition. T: for every dp 0..18 (Decimal) / 0..36 "
                    "(PreciseDecimal): multiples k*u for k in {0,1,2,3,10, largest in range, random}, both signs, +-1 sub-unit, exact "
                    "ties k*u+-u/2 and ties +-1 sub-unit, MIN/MAX and values within u of them, x 7 modes (quick: rotating 3 of 7 "
                    "beyond the first 12 values per dp); boundary classes and random values with random dp/mode; floor, ceiling; "
                    "for_withdrawal at divisibility 0..18 (Exact and Rounded); checked_truncate PreciseDecimal->Decimal x 7 modes "
                    "incl. the ends of the Decimal range. distinct_nontrivial = distinct recorded calls whose value was NOT "
                    "already at the requested precision (result differs from input, or overflow)" % (8 if q else 10)}


def C26(ctx):
    q = ctx.quick
    r1 = tlc("Decimal", "MCDecimal", cfg="MCRoot", workers=6, consts={"WBITS": 8 if q else 11, "NBITS": 6 if q else 8}, timeout=3000)
    tlc_must_pass(r1, "MCDecimal/MCRoot", required_actions=["DoRootN", "DoRootW"])
    ctx.add_tlc(r1)
    r2 = tlc("Decimal", "MCDecimal", cfg="MCPowi", workers=6, consts={"NBITS": 6 if q else 7, "MaxExp": 4}, timeout=3000)
    tlc_must_pass(r2, "MCDecimal/MCPowi", required_actions=["DoPowi"])
    ctx.add_tlc(r2)
    if getattr(ctx, "replay_path", None):
        return replay_file(ctx, "Decimal", "TraceDecimal", "roots and powers")
    if not q:
        r3 = tlc("Decimal", "MCDecimal", cfg="MCPowi", workers=6, consts={"NBITS": 8, "MaxExp": 3}, timeout=3000)
        tlc_must_pass(r3, "MCDecimal/MCPowi", required_actions=["DoPowi"])
        ctx.add_tlc(r3)
    evs = record(ctx, "rootpow", ["scale=%d" % (1 if q else 2)])
    pick_samples(ctx, evs, {"root", "powi"})
    bad = check_calls(ctx, "Decimal", "TraceDecimal", evs, "roots and powers")
    weak = set(LAST_TAGS.get("WEAK", ()))
    for i in weak:
        evs[i]["weak"] = True
    ncor, _, _ = binding_selftest_dec(ctx, evs, bad)

    def trivial(e):
        if e["a"] == "root":
            return e["n"] <= 1 or big_to_int(e["x"]) == 0
        return e.get("weak") or big_to_int(e["x"]) == 0 or (not e["big"] and abs(e["es"]) <= 1)
    nontriv = distinct_count(evs, trivial)
    return {"exhaustive": False, "distinct_nontrivial": nontriv, "powi_calls_only_weakly_checked": len(weak),
            "corrupted_recordings_rejected": ncor,
            "rule": "S: all values of 6..8-bit (quick) / 7..11-bit (thorough) types x root degrees 0..4 and exponents -4..4 (TLC): roots have exactly one admissible "
                    "outcome = the direct definition; for powers the exact result is the only admissible outcome when it is "
                    "representable, otherwise exactly 'None or any value not beyond the exact one', and the square-and-multiply "
                    "algorithm is admitted. T: sqrt/cbrt/nth_root on 0, +-1 sub-unit, +-ONE, MIN, MAX, perfect powers (t/10^j)^n "
                    "+-1 sub-unit of both signs, boundary classes, random values, degrees 0..19 (a few 20..37); checked_powi on ~50 "
                    "bases (0, +-ONE, ONE+-1 sub-unit, +-2, 0.5, 0.1, 1.5, 1.6, 2^k, roots of MAX +-1, MIN, MAX) x ~50 exponents "
                    "(0, +-1 .. +-64, 100, 127..132, 255, 256, 1000, 65536, i64::MIN/MAX) plus boundary/random. The full power rule is "
                    "evaluated when |x|^|e| has at most ~400 digits; beyond that only 'no panic, in range, sign' is checked "
                    "(counted in powi_calls_only_weakly_checked). distinct_nontrivial = distinct fully-checked calls with "
                    "degree >= 2 / |exponent| >= 2 and a non-zero base"}


def C27(ctx):
    q = ctx.quick
    r = tlc("Decimal", "MCDecimal", cfg="MCText", workers=6, consts={"WBITS": 10 if q else 11, "MaxLen": 5 if q else 6}, timeout=3000)
    tlc_must_pass(r, "MCDecimal/MCText", required_actions=["DoValue", "DoGrow"])
    ctx.add_tlc(r)
    if getattr(ctx, "replay_path", None):
        return replay_file(ctx, "Decimal", "TraceDecimal", "text forms")
    evs = record(ctx, "text", ["scale=%d" % (1 if q else 4)])
    pick_samples(ctx, evs, {"parse", "print"})
    bad = check_calls(ctx, "Decimal", "TraceDecimal", evs, "text forms")
    # regression inputs (a sign inside the fraction) must be present; a recurrence must be flagged under its key
    reg = [e for e in evs if e["a"] == "parse" and e["cp"] in ([49, 46, 45, 53], [49, 46, 43, 53], [45, 49, 46, 45, 53])]
    if len(reg) < 6:
        raise ToolError("C27 regression inputs 1.-5 / 1.+5 / -1.-5 missing from the recording")
    for e in reg[:1]:
        ctx.sample({"regression_input": e}, cap=8)
    extra = [dict(e, out="ok", r=int_to_big(95 * 10 ** ((16 if e["ty"] == "d" else 34)))) for e in reg if e["out"] == "err"][:4]
    ncor, rej, cor = binding_selftest_dec(ctx, evs, bad, extra=extra)
    for i in range(len(extra)):
        if rej.get(i) != "from_str sign in fractional part":
            raise ToolError("binding self-test: an accepted sign-in-fraction text was classified %r" % rej.get(i))
    texts = {(e["ty"], tuple(e["cp"])) for e in evs if e["a"] == "parse"}
    nonascii = sum(1 for t in texts if any(c > 127 for c in t[1]))
    return {"exhaustive": False, "distinct_nontrivial": distinct_count(evs, lambda e: e["a"] == "parse" and not e["cp"]),
            "distinct_texts_parsed": len(texts), "texts_with_non_ascii": nonascii,
            "values_printed": sum(1 for e in evs if e["a"] == "print"), "corrupted_recordings_rejected": ncor,
            "rule": "S: every string up to length %d over {-,+,0,1,9,.,x} and every value of a %d-bit / 2-decimal type (TLC): the "
                    "grammar+value post-condition admits exactly the verdict of a direct left-to-right scanner, the direct printer's "
                    "output is a canonical numeral of the same value, canonical accepted texts are unique. T: all token sequences "
                    "over {-,+,0,1,9,.,e,space,_,U+0663} up to length %d and sampled ones up to 6; 30 templates (signs, points, "
                    "exponent, blanks, underscores, minus sign U+2212, signs inside the fraction ...) padded with digit runs of "
                    "lengths around 1, SD, digits(MAX), 78, 100; the regression inputs 1.-5, 1.+5, -1.-5 ...; printed MIN/MAX/ONE "
                    "and neighbours with last digit +1, digits appended, integer part +1; Display of boundary and random values, "
                    "each parsed back, plus '+', leading-zero and zero-padded variants. distinct_nontrivial = distinct recorded "
                    "calls (text or value, type) except the empty text" % (5 if q else 6, 10 if q else 11, 3 if q else 4)}


_DEC_NOTE = ("Trusted: TLC, BigInt.tla (self-tested against Python integers in the thorough tier of C24), the harness projection "
             "(operands and results as base-10^4 limbs computed from the inner bnum digits / to_le_bytes, never via to_string or a "
             "library conversion), the input constructor (own small big-integer). The harness contains no arithmetic on results.")

PROPS = {
    "C24": dict(fn=C24, level="model_checking", design_ref="5/C24",
                technique="TLA+ spec Decimal/DecimalPair (relational post-conditions over an abstract number signature): TLC exhaustive "
                          "uniqueness check at tiny scale with TLC integers + call-trace validation of the real checked_* functions and "
                          "conversions with BigInt at full scale",
                text="Post-conditions: add/sub/neg/abs/from-integer return the exact result iff it lies in [MIN, MAX], else None; mul "
                     "and div return q with |q|*|d| <= |n| < (|q|+1)*|d| and the sign rule (n/d = a*b/S resp. a*S/b), None iff d = 0 or "
                     "that truncated quotient is outside the range; widening is exact, narrowing truncates toward zero or fails; a panic "
                     "satisfies nothing. TLC checks over ALL operand pairs of a 6-bit (quick) / 8-bit (thorough) one-decimal type that "
                     "each post-condition admits exactly one outcome and that it equals the direct definition. The real Decimal and "
                     "PreciseDecimal functions are then called under catch_unwind on boundary classes crossed pairwise, constructed "
                     "pairs whose exact result is exactly MIN / MIN+-1 / MAX / MAX+-1, and seeded random values of all bit lengths; "
                     "every recorded call is decided by the same post-conditions evaluated with BigInt (192/256-bit operands, 384/512-bit "
                     "products).",
                note="Results exactly equal to MIN (ONE*MIN, MIN/ONE, narrowing of MIN) are generated on purpose and a recurrence of "
                     "'reported as overflow' is flagged under the key 'result equals MIN' (self-tested on every run). Mixed-type operator "
                     "impls (Decimal op integer) and conversions TO integers are not part of the statement and not driven. " + _DEC_NOTE),
    "C25": dict(fn=C25, level="model_checking", design_ref="5/C25",
                technique="TLA+ spec Decimal (rounding stated as: multiple of the unit, closer than one unit, mode rule; failure iff the "
                          "prescribed multiple is not representable): TLC exhaustive check at tiny scale + call-trace validation of "
                          "checked_round/floor/ceiling/for_withdrawal/checked_truncate with BigInt",
                text="TLC checks for all values x all decimal places x 7 modes of an 8-bit (quick) / 10-bit (thorough) two-decimal "
                     "type that the relational rule admits exactly one outcome, equal to the direct definition (neighbouring multiples + "
                     "mode choice), that values already at the precision are unchanged, and the same for floor, ceiling and truncation "
                     "to a narrower type. The real functions are called on exact multiples, exact ties and ties +-1 sub-unit of both "
                     "signs at every decimal place 0..18 / 0..36, values within one unit of MIN/MAX, boundary classes and random values, "
                     "with all 7 modes; every recorded call is decided by the rule evaluated with BigInt.",
                note="decimal_places outside 0..SCALE (documented panic) are outside 'any allowed number of decimal places' and not driven. "
                     "For a None result the specification takes the two multiples around x (from the low decimal digits) as candidates "
                     "and requires the one satisfying the rule to be outside the range. " + _DEC_NOTE),
    "C26": dict(fn=C26, level="model_checking", design_ref="5/C26",
                technique="TLA+ spec Decimal (r^n <= |x|*S^(n-1) < (r+1)^n; exact power as a fraction with representability decided by "
                          "digit/factor counting): TLC exhaustive check at tiny scale + call-trace validation of checked_sqrt/cbrt/"
                          "nth_root/powi with BigInt",
                text="Roots: None iff degree 0 or even root of a negative value; otherwise r has the sign of x and r^n <= |x|*S^(n-1) < "
                     "(r+1)^n in magnitude. Powers: x^0 = 1; 0^negative fails; if the exact rational result is an in-range integer "
                     "number of sub-units it must be returned; otherwise None or a value not beyond the exact one in magnitude and not "
                     "of the opposite sign; never a panic. TLC checks both exhaustively on all values of 6..8-bit (quick) / 7..11-bit (thorough) types; the real functions are "
                     "called on perfect powers +-1 sub-unit, 0, +-1 sub-unit, +-ONE, MIN, MAX, boundary and random values.",
                note="Known disagreement with the statement on the unchanged tree: checked_powi(i64::MIN) of +-ONE returns None (negating "
                     "the exponent overflows) although the exact result 1 is representable - reported as a violation with key "
                     "'checked_powi(i64::MIN) of +-ONE is None'. Limits: the full power rule is evaluated only while |x|^|e| has at most "
                     "~400 digits (|e|*limbs(x) <= 100); for larger exponents with |x| not in {0, 1} only 'no panic, in range, sign' is "
                     "checked. Root degrees above 37 are not driven: the implementation materialises 10^(18*(n-1)), so huge degrees "
                     "exhaust memory/time before returning (not a panic; outside what this check can observe). " + _DEC_NOTE),
    "C27": dict(fn=C27, level="model_checking", design_ref="5/C27",
                technique="TLA+ spec Decimal (grammar [+-]? digit+ ('.' digit{1..SCALE})? over code points, exact value by digit fold): "
                          "TLC exhaustive check against a direct scanner/printer at tiny scale + call-trace validation of from_str / "
                          "to_string with BigInt",
                text="from_str = Ok(v) iff the text is a numeral of the grammar whose exact value (integer digits * 10^SCALE + fraction "
                     "digits scaled) lies in [MIN, MAX], and v is that value; otherwise Err; never a panic. to_string yields a numeral of "
                     "exactly the value (hence parse(print(v)) = v). TLC checks on all strings up to length 5 (quick) / 6 (thorough) over "
                     "a 7-character alphabet and all values of a 10-bit (quick) / 11-bit (thorough) two-decimal type that the post-condition admits exactly the "
                     "verdict of a direct scanner and that the direct printer's output is accepted with the same value. The real "
                     "functions are called on exhaustive short token sequences, digit-run padded templates, regression inputs with a "
                     "sign inside the fraction, the printed extremes and their textual neighbours, and printed boundary/random values.",
                note="Printing is additionally required to be canonical ('-' only for negative values, no '+', no leading zeros, no "
                     "trailing fraction zeros) - this goes slightly beyond the statement and is reported under its own key "
                     "('... to_string not canonical') so that it can be told apart. A recurrence of 'sign accepted inside the fraction' "
                     "is flagged under the key 'from_str sign in fractional part' (self-tested on every run). " + _DEC_NOTE),
    "C29": dict(fn=C29, level="model_checking", design_ref="5/C29",
                technique="TLA+ spec Calendar (proleptic Gregorian day count, ToInstant, text form) over an abstract number "
                          "signature: TLC exhaustive check against a day-by-day successor calendar with TLC integers + "
                          "call-trace validation of the real UtcDateTime/Instant functions with BigInt at full scale",
                text="TLC checks for every day of 801 (quick) / 4000 (thorough) years that the closed-form day count used by the "
                     "specification agrees with the calendar successor (month lengths + leap rule), is a bijection onto 0..N-1, "
                     "hits the epoch constant and known timestamps, and that the documented text form denotes its fields. The real "
                     "UtcDateTime::new/from_instant/to_instant/add_*/to_string/from_str and Instant::add_* are then called (under "
                     "catch_unwind) on boundary and seeded random inputs over the full i64 / u32 ranges and every recorded call is "
                     "accepted or rejected by the specification's post-conditions evaluated with BigInt: from_instant = Ok(dt) iff "
                     "MIN<=t<=MAX, dt valid and ToInstant(dt)=t; arithmetic agrees with timestamp arithmetic or is None exactly "
                     "when the exact timestamp is unsupported; order preserved; Display = documented form for years <= 9999; "
                     "from_str never panics, returns only valid date-times and inverts the documented form.",
                note="The statement's parse clause only demands 'date-time or error, no panic'; texts outside the documented "
                     "all-digit form (e.g. a '+' inside a field, accepted by the code) are therefore only required to yield a valid "
                     "date-time or an error. Years > 9999 print with more than four digits and are outside the print/parse clause. "
                     "Instant::add_* is specified as checked 64-bit arithmetic (product and sum must fit). Trusted: TLC, BigInt.tla "
                     "(self-tested against Python integers), the harness projection (fields via getters, limbs from to_le_bytes)."),
}

"""Extension of the specification beyond the listed properties: the ROYALTY (X04) and METADATA (X05) object
modules as first-class state.  Harness binary: vh_modules (LedgerSimulator + native test blueprints of vh_auth/tb.rs)."""
import json, os, collections
from concurrent.futures import ThreadPoolExecutor
import core
from core import tlc, tlc_must_pass, vh, ToolError, write_ndjson

BIN = "vh_modules"


def replay_histories(ctx, module, hists, key=None, count=True, parts=1):
    """spec -> impl: histories with the outcome and state the specification expects after every step go to
    `vh_modules <module> replay`; every mismatch line is a violation."""
    if not hists:
        raise ToolError("no histories generated for " + module)
    p = ctx.wpath(module + "-hist.ndjson")
    write_ndjson(p, hists)
    core.build_harness(BIN)

    def run(i):
        rc, out = vh(BIN, [module, "replay", "part=%d" % i, "parts=%d" % parts], stdin_path=p, timeout=7200)
        return out
    with ThreadPoolExecutor(max_workers=parts) as ex:
        outs = list(ex.map(run, range(parts)))
    os.unlink(p)
    mism, extra, steps = [], [], 0
    for out in outs:
        done = None
        for line in out.splitlines():
            o = json.loads(line)
            if "mismatch" in o:
                mism.append(o)
            elif "done" in o:
                done = o
            else:
                extra.append(o)
        if done is None or done["done"] != len(hists):
            raise ToolError("replay of %s histories did not complete" % module)
        steps += done["steps"]
    if sum(e.get("cases", 0) for e in extra) != len(hists):
        raise ToolError("replay of %s histories: the parts did not cover all histories" % module)
    if count:
        ctx.cov["traces_validated_against_impl"] += len(hists)
        ctx.cov["evaluations"] += steps
    if key is not None:
        for o in mism:
            h = hists[o["b"]]
            ctx.violation(key(o, h), "history %d step %d: %s expected %s got %s" % (
                o["b"], o["step"], o["mismatch"], json.dumps(o["exp"])[:300], json.dumps(o["got"])[:300]),
                {"module": module, "history": h, "mismatch": o})
    classes = collections.Counter()
    for e in extra:
        for k, v in e.get("classes", {}).items():
            classes[k] += v
    return mism, dict(classes)


# ---------------------------------------------------------------------------------------------
# X04 royalties


def x04_key(o, h):
    tx = h[o["step"]]["tx"] if o["step"] > 0 else {"ops": [], "class": "init"}
    kinds = "+".join(sorted({op["k"] for op in tx["ops"]}))
    return "royalty:%s:%s:%s" % (o["mismatch"], tx["class"], kinds)


def X04(ctx):
    q = ctx.quick
    r = tlc("Royalty", "MCRoyalty", cfg="MCRoyaltySmall" if q else "MCRoyalty", workers=4, timeout=6000)
    tlc_must_pass(r, "MCRoyalty", required_actions=["Next"])
    ctx.add_tlc(r)
    k = 6 if q else 8
    walks = 250 if q else 3000
    out_file = ctx.wpath("gen.out")
    g = tlc("Royalty", "GenRoyalty", workers=4, consts={"Walks": walks, "K": k, "Seed": ctx.seed % 65521}, timeout=6000,
            out_file=out_file, heap="4g")
    os.unlink(out_file)
    tlc_must_pass(g, "GenRoyalty (the royalty properties along every generated history)", required_actions=["GNext"])
    ctx.add_tlc(g)
    hists = g.printed("B")
    g.out = ""
    if len(hists) != walks:
        raise ToolError("GenRoyalty produced %d of %d histories" % (len(hists), walks))
    txs = [e["tx"] for h in hists for e in h[1:]]
    classes_exp = collections.Counter(t["class"] for t in txs)
    for c in ("ok", "auth", "locked", "toobig", "negative", "insufficient", "fail"):
        if classes_exp[c] < (1 if q else 20):
            raise ToolError("vacuous histories: class %s occurs %d times" % (c, classes_exp[c]))
    zero = {"x": 0, "u": 0}
    phen = {"royalties_to_several_recipients": sum(1 for t in txs if sum(1 for v in t["royalty"].values() if v != zero) >= 3),
            "usd_royalty": sum(1 for t in txs if t["total"]["u"] > 0),
            "claim_pays": sum(1 for t in txs if t["got"] != zero),
            "claim_and_accrue_same_tx": sum(1 for t in txs if t["got"] != zero and t["total"] != zero),
            "set_then_call_same_tx": sum(1 for t in txs if t["class"] == "ok" and any(o["k"] == "set" for o in t["ops"])
                                         and t["total"] != zero),
            "failed_after_charges": sum(1 for t in txs if t["class"] != "ok" and t["at"] > 1
                                        and any(o["k"] in ("call", "nested", "child", "fn") for o in t["ops"][:t["at"] - 1])),
            "tiny_budget_ok": sum(1 for t in txs if t["budget"] == "tiny" and t["class"] == "ok" and t["total"] != zero),
            "child_call": sum(1 for t in txs if t["class"] == "ok" and any(o["k"] == "child" for o in t["ops"]))}
    for name, n in phen.items():
        if n == 0:
            raise ToolError("vacuous histories: phenomenon %s never occurs" % name)
    ctx.sample({"transaction": next(t for t in txs if t["got"] != zero and t["total"] != zero)})
    ctx.sample({"transaction": next(t for t in txs if t["class"] == "insufficient")})
    ctx.sample({"transaction": next(t for t in txs if t["class"] == "ok" and t["total"]["u"] > 0 and len(t["ops"]) >= 3)})
    mism, classes = replay_histories(ctx, "royalty", hists, key=x04_key, parts=1 if q else 4)

    # binding self-test: corrupted expectations (class, royalty split, vault balance, configuration) must be reported
    bad = json.loads(json.dumps(hists[:80]))

    def find(pred):
        return next((i, j) for i, h in enumerate(bad) for j, e in enumerate(h) if j > 0 and pred(e))
    i1, j1 = find(lambda e: e["tx"]["class"] == "auth")
    bad[i1][j1]["tx"]["class"] = "ok"
    i2, j2 = find(lambda e: e["tx"]["class"] == "ok" and e["tx"]["royalty"]["PN"] != zero)
    bad[i2][j2]["tx"]["royalty"]["PN"]["x"] += 1
    bad[i2][j2]["tx"]["royalty"]["C1"]["x"] -= 1
    i3, j3 = find(lambda e: e["tx"]["class"] == "ok" and e["tx"]["total"] != zero and (i2, j2) != (0, 0))
    for e in bad[i3][j3:]:
        e["st"]["vault"]["PW"]["x"] += 1
    rep, _ = replay_histories(ctx, "royalty", bad, count=False)
    got = {(o["b"], o["step"], o["mismatch"]) for o in rep}
    for need in ((i1, j1, "class"), (i2, j2, "royalties"), (i3, j3, "state")):
        if need not in got:
            raise ToolError("binding self-test of royalty: corrupted %s of history %d step %d was not reported" % (need[2], need[0], need[1]))
    distinct = len({json.dumps([h[0]["st"], [[e["tx"]["ops"], e["tx"]["caller"], e["tx"]["budget"]] for e in h[1:]]], sort_keys=True)
                    for h in hists})
    return {"exhaustive": False, "distinct_nontrivial": distinct, "transactions": len(txs), "impl_answers": classes,
            "expected_classes": dict(classes_exp), "phenomena": phen,
            "rule": "MCRoyalty: one component with royalties on 2 methods, the native and the WASM package, every transaction of <= 2 "
                    "operations (4 kinds of calls, set with %d amounts incl. zero / maximum / above maximum / negative, lock, claim, "
                    "package claim, a failing instruction) x callers x ample / tiny locked fee from every reachable configuration, with "
                    "conservation, locked-config stickiness, failed-pays-nothing, paid = credited, accrued = sum of configured amounts, "
                    "claim exactness and owner gating as properties; GenRoyalty: one scripted history of 34 transactions visiting every "
                    "limit and operation kind (maximum / above / zero / negative amounts in XRD and USD, locked configurations, claims, "
                    "tiny fees under and over the budget) and %d seeded histories of %d transactions of 1..4 "
                    "operations over two components, replayed as real transactions: receipt class, total_royalty_cost_in_xrd, "
                    "to_royalty_recipients, the fee payer's vault loss minus the other costs, royalty configuration / lock flags and "
                    "the four royalty vaults from the database, claimed XRD arriving in a sink account; distinct = distinct histories"
                    % (3 if q else 7, len(hists) - 1, k)}


# ---------------------------------------------------------------------------------------------
# X05 metadata
def x05_key(o, h):
    e = h[o["step"]]["e"]
    return "metadata:%s:%s:%s" % (e["op"], o["mismatch"], e["class"])


def X05(ctx):
    q = ctx.quick
    r = tlc("Metadata", "MCMetadata", workers=4, timeout=3000)
    tlc_must_pass(r, "MCMetadata", required_actions=["Set", "Remove", "Lock", "Get", "Assign"])
    ctx.add_tlc(r)
    k = 10 if q else 12
    walks = 200 if q else 3000
    out_file = ctx.wpath("gen.out")
    g = tlc("Metadata", "GenMetadata", workers=4, consts={"Walks": walks, "K": k, "Seed": ctx.seed % 65521}, timeout=6000,
            out_file=out_file, heap="4g")
    os.unlink(out_file)
    tlc_must_pass(g, "GenMetadata (the metadata properties along every generated history)", required_actions=["GNext"])
    ctx.add_tlc(g)
    hists = g.printed("B")
    g.out = ""
    if len(hists) != walks:
        raise ToolError("GenMetadata produced %d of %d histories" % (len(hists), walks))
    steps = [e["e"] for h in hists for e in h[1:]]
    exp = collections.Counter((e["op"], e["class"]) for e in steps)
    for need in (("set", "ok"), ("set", "auth"), ("set", "key"), ("set", "length"), ("set", "url"), ("set", "origin"), ("set", "locked"),
                 ("remove", "ok"), ("remove", "locked"), ("remove", "auth"), ("lock", "ok"), ("lock", "locked"), ("lock", "auth"),
                 ("get", "ok"), ("assign_setter", "ok"), ("assign_locker", "ok"), ("assign_setter", "auth")):
        if exp[need] < (1 if q else 10):
            raise ToolError("vacuous histories: %s never ends with %s" % need)
    phen = {"lock_of_unsettable_key": sum(1 for e in steps if e["op"] == "lock" and e["k"] == "k101" and e["class"] == "ok"),
            "lock_of_absent_entry": sum(1 for h in hists for i, x in enumerate(h[1:], 1)
                                        if x["e"]["op"] == "lock" and x["e"]["class"] == "ok" and not h[i - 1]["st"]["entry"][x["e"]["k"]]["present"]),
            "value_at_the_limit_stored": sum(1 for e in steps if e["op"] == "set" and e["class"] == "ok" and e["v"]["size"] in (4096, 1024)),
            "long_url_reported_as_length": sum(1 for e in steps if e["op"] == "set" and e["class"] == "length" and e["v"]["kind"] == "url"),
            "owner_locked_out_by_assignment": sum(1 for h in hists for i, x in enumerate(h[1:], 1)
                                                  if x["e"]["op"] == "set" and x["e"]["class"] == "auth" and 1 in x["e"]["c"]
                                                  and h[i - 1]["st"]["setter"] != 0),
            "get_returns_value": sum(1 for e in steps if e["op"] == "get" and e["out"]["kind"] != "none")}
    for name, n in phen.items():
        if n == 0:
            raise ToolError("vacuous histories: phenomenon %s never occurs" % name)
    ctx.sample({"step": next(e for e in steps if e["op"] == "set" and e["class"] == "length" and e["v"]["kind"] == "url")})
    ctx.sample({"step": next(e for e in steps if e["op"] == "lock" and e["k"] == "k101" and e["class"] == "ok")})
    ctx.sample({"history": next(h for h in hists if any(x["e"]["class"] == "locked" for x in h[1:]))[:5]})
    mism, classes = replay_histories(ctx, "metadata", hists, key=x05_key, parts=1 if q else 4)

    bad = json.loads(json.dumps(hists[:60]))

    def find(pred):
        return next((i, j) for i, h in enumerate(bad) for j, e in enumerate(h) if j > 0 and pred(e))
    i1, j1 = find(lambda x: x["e"]["class"] == "locked")
    bad[i1][j1]["e"]["class"] = "ok"
    i2, j2 = find(lambda x: x["e"]["op"] == "set" and x["e"]["class"] == "ok")
    k2 = bad[i2][j2]["e"]["k"]
    bad[i2][j2]["st"]["entry"][k2]["val"]["size"] += 1
    i3, j3 = find(lambda x: x["e"]["op"] == "get" and x["e"]["out"]["kind"] != "none")
    bad[i3][j3]["e"]["out"] = {"kind": "none", "size": 0, "wf": True, "tag": 0}
    i4, j4 = find(lambda x: x["e"]["op"] == "lock" and x["e"]["class"] == "ok")
    bad[i4][j4]["st"]["entry"][bad[i4][j4]["e"]["k"]]["locked"] = False
    rep, _ = replay_histories(ctx, "metadata", bad, count=False)
    got = {(o["b"], o["step"], o["mismatch"]) for o in rep}
    for need in ((i1, j1, "class"), (i2, j2, "state"), (i3, j3, "get"), (i4, j4, "state")):
        if need not in got:
            raise ToolError("binding self-test of metadata: corrupted %s of history %d step %d was not reported" % (need[2], need[0], need[1]))
    distinct = len({json.dumps([h[0]["st"], [[x["e"]["op"], x["e"]["k"], x["e"]["v"], x["e"]["c"]] for x in h[1:]]], sort_keys=True)
                    for h in hists})
    return {"exhaustive": False, "distinct_nontrivial": distinct, "steps": len(steps), "impl_answers": classes, "phenomena": phen,
            "rule": "MCMetadata: 3 keys (short, exactly 100 bytes, 101 bytes) x 8 values (at / over the 4096-byte payload limit, URLs "
                    "well-formed / malformed / 1025 bytes / 5000 bytes, malformed origin) x set / remove / lock / get / role assignment x "
                    "every subset of 3 badges from every initial map, with locked-entry stickiness, limits of stored values, guarded "
                    "change, get = stored and only-the-key as properties; GenMetadata: one scripted history of 43 operations visiting "
                    "every limit from both sides with every operation (payload 4095 / 4096 / 4097, URL 1024 / 1025 / 5000, keys of 100 / "
                    "101 bytes, locked present / absent entries, role reassignment) and %d seeded histories of %d operations from random "
                    "initial maps and role assignments, each operation one transaction on a fresh component's metadata module; outcome "
                    "class, the value returned by get, every entry (presence, value, lock flag) and both role assignments read back "
                    "from the database after every step; distinct = distinct histories" % (len(hists) - 1, k)}


PROPS = {
    "X04": dict(fn=X04, level="model_checking", design_ref="extension (royalty module; ties to C02, C06, C51)",
                technique="TLA+ spec Royalty (component royalty configuration with lock flags, package royalties, royalty vaults, "
                          "per-transaction accrual; a transaction = list of calls / set / lock / claim operations, all or nothing): TLC "
                          "checks conservation and the royalty properties on every transaction of a small instance and along seeded "
                          "histories, which are replayed as real transactions on a LedgerSimulator",
                text="The model transcribes where royalties are charged (every main-method / function invocation: package royalty of the "
                     "ident, then component royalty; module methods never), how amounts are converted (Usd at usd_price), that charges are "
                     "remembered until the end and credited to each recipient's vault once on success and forgotten on failure, that claim "
                     "takes the vault's balance of that moment, and the check order of set_royalty / lock_royalty. Properties: every royalty "
                     "ever paid is in a vault or was claimed; a locked configuration never changes; a failed transaction changes nothing and "
                     "pays no royalty; the payer's royalty cost equals the sum credited; without configuration changes the accrual is the "
                     "sum of configured amounts over the invocations; claim exactness; owner gating. Histories from the model run on a "
                     "ledger with two components of the native test blueprint (package royalties declared in its definition) and a small "
                     "WASM package with an owner; the receipt's royalty total and split, the payer vault's loss beyond execution / "
                     "finalization / storage / tip, all royalty vaults, configurations, lock flags and claimed XRD are compared.",
                note="Money is modelled as x XRD + u USD and evaluated by the harness with the protocol's usd_price (whole amounts only, "
                     "so no rounding question arises). Tiny-fee transactions are generated only when clearly under or clearly over the "
                     "locked 10 XRD (the model does not know execution costs). The native package's owner is None (publish_native), so its "
                     "royalties can never be claimed - modelled as such; package royalty amounts are validated only when the costing module "
                     "is on (not for system-transaction publication) - not modelled. Not covered: royalty_setter / locker / claimer roles "
                     "assigned to something else than the owner, direct-access methods, royalties of calls made by hooks, preview. "
                     "Not one of the 51 listed properties (no MANIFEST entry)."),
    "X05": dict(fn=X05, level="model_checking", design_ref="extension (metadata module; ties to C51)",
                technique="TLA+ spec Metadata (key -> [present, value, locked] map, metadata_setter / metadata_locker roles with owner "
                          "fallback and reassignment, key / payload / URL / origin limits as constants read from the code): TLC checks "
                          "the properties on a small instance and along seeded histories, which are replayed on a LedgerSimulator",
                text="Set / Remove / Lock / Get / role assignment as actions with the code's check order (authorization, key length, payload "
                     "length, URL / origin well-formedness, lock). Properties: a locked entry never changes; nothing beyond a limit is ever "
                     "stored; an entry changes only through a successful operation of a holder of the guarding role and failures change "
                     "nothing; get returns what is stored; an operation touches only its key. Histories are replayed against the metadata "
                     "module of a fresh component per history (initial entries and roles through MetadataInit / role assignment init); "
                     "values are concrete strings with exactly the modelled payload length, URLs / origins of exactly the modelled length; "
                     "after every transaction all entries and both roles are read from the database and get's return value from the "
                     "receipt.",
                note="As coded and modelled: lock and remove do not validate the key, so an entry under a 101-byte key (which can never be "
                     "set) can be locked; a URL whose payload exceeds 4096 bytes is reported as InvalidLength, not InvalidURL; after the "
                     "owner assigns metadata_setter to another badge the owner's badge alone no longer sets. URL / origin payload overhead is "
                     "approximated (+8 bytes) - the generator stays away from that band. Only U32 / String / Url / Origin values; array "
                     "values and the remaining scalar kinds are not covered. Not one of the 51 listed properties (no MANIFEST entry)."),
}

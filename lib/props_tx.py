"""Transaction layer: TxStructure (C35), TxLimits (C34), CryptoIdeal (C48), TxSigs (C33),
TxHashes (C32).  Harness binary: vh_tx."""
import json, os, collections
import core
from core import tlc, tlc_must_pass, vh, ToolError, write_ndjson, read_ndjson, validate_calls

BIN = "vh_tx"


def replay_cases(ctx, module, cases, vh_args=(), what="case", key=None, count=True, mode="replay"):
    """spec -> impl: feed cases (each carrying the verdict expected by the specification) to
    `vh_tx <module> replay`; every mismatch line is a violation.  Returns (done, mismatches, extra lines)."""
    if not cases:
        raise ToolError("no cases generated for " + module)
    p = ctx.wpath(module + "-cases.ndjson")
    write_ndjson(p, cases)
    rc, out = vh(BIN, [module, mode] + list(vh_args), stdin_path=p)
    os.unlink(p)
    done, mism, extra = None, [], []
    for line in out.splitlines():
        o = json.loads(line)
        if "mismatch" in o:
            mism.append(o)
        elif "done" in o:
            done = o
        else:
            extra.append(o)
    if done is None or done["done"] != len(cases):
        raise ToolError("replay of %s did not complete" % module)
    if count:
        ctx.cov["traces_validated_against_impl"] += len(cases)
        ctx.cov["evaluations"] += done["steps"]
    if key is not None:
        for o in mism:
            k = key(o, cases[o["b"]]) if callable(key) else "%s:%s" % (key, o["mismatch"])
            ctx.violation(k, "%s %d: %s expected %s got %s" % (what, o["b"], o["mismatch"],
                                                               json.dumps(o["exp"])[:300], json.dumps(o["got"])[:300]),
                          {"module": module, "case": cases[o["b"]], "mismatch": o, "vh_args": list(vh_args)})
    return done, mism, extra


def self_test_replay(ctx, module, cases, corrupt, vh_args=(), what=""):
    """Binding self-test: a corrupted expected value must be reported by the harness."""
    bad = corrupt(json.loads(json.dumps(cases)))
    done, mism, _ = replay_cases(ctx, module, bad, vh_args, count=False)
    if not mism:
        raise ToolError("binding self-test failed for %s: corrupted expectation %s was not reported" % (module, what))
    return len(mism)


# ---------------------------------------------------------------------------------------------
# C35 subintent structure
def C35(ctx):
    q = ctx.quick
    # quick keeps the FULL product for n = 3 over (hash pattern x every multiset of at most 3 child entries x maxDepth
    # 0..3 x root kind / yield variant) and moves every single edge of a valid tree through the yield counts next to
    # 1/1; only the larger child multisets (4..5 entries) and joint yield combinations are sampled (seeded) in quick
    consts = {"NS": "{0, 1, 2, 3}", "Extra3": 0 if q else 2, "Yields3": '"edge"' if q else '"all"',
              "Sample3": 1000 if q else 0, "Sample4": 0 if q else 10000, "Seed": ctx.seed % 65521}
    out_file = ctx.wpath("gen.out")
    r = tlc("TxStructure", "GenTxStructure", workers=8, consts=consts, timeout=3000,
            out_file=out_file, heap="4g")
    os.unlink(out_file)
    tlc_must_pass(r, "GenTxStructure (laws of TxStructure on the bounded universe)", required_actions=["Expand"])
    ctx.add_tlc(r)
    cases = r.printed("B")
    r.out = ""
    if len(cases) < 1000:
        raise ToolError("GenTxStructure produced only %d structures" % len(cases))
    # non-vacuity of the universe: accepted structures and every defect class on its own
    single = collections.Counter(c["exp"]["errs"][0] for c in cases if len(c["exp"]["errs"]) == 1)
    n_ok = sum(1 for c in cases if c["exp"]["ok"])
    for cls in ("Dup", "Unknown", "MultiParent", "Unreach", "Depth", "Yield"):
        if single[cls] == 0:
            raise ToolError("vacuous universe: no structure whose only defect is " + cls)
    if n_ok == 0:
        raise ToolError("vacuous universe: no well-formed structure")
    ctx.sample({"structure": next(c for c in cases if c["exp"]["ok"] and c["c"]["n"] >= 2)})
    ctx.sample({"structure": next(c for c in cases if c["exp"]["errs"] == ["Unreach"] and c["c"]["n"] >= 2)})
    ctx.sample({"structure": next(c for c in cases if len(c["exp"]["errs"]) >= 3)})
    # G: canonical child order, then seeded shuffles of every children list
    _, _, extra = replay_cases(ctx, "structure", cases, ["seed=%d" % ctx.seed, "shuffle=0"], "structure", key="structure")
    classes = dict(extra[0]["classes"]) if extra else {}
    for k in range(1 if q else 2):
        replay_cases(ctx, "structure", cases, ["seed=%d" % (ctx.seed + k), "shuffle=1"], "structure (shuffled children)",
                     key="structure")

    # the structures that can exist as real transactions (distinct hashes, every subintent declared once and
    # reachable, at least one YIELD_TO_PARENT): built as real V2 transactions, validated by the full validator
    def realizable(x):
        c = x["c"]
        return (not c["rootSub"]) and c["m"] == c["n"] and c["n"] >= 1 and set(x["exp"]["errs"]) <= {"Depth", "Yield"} \
            and all(y >= 1 for y in c["ytp"])
    real = [x for x in cases if realizable(x)]
    if len(real) < 100:
        raise ToolError("only %d structures realizable as real transactions" % len(real))
    _, _, extra_r = replay_cases(ctx, "structure", real, ["seed=%d" % (ctx.seed % 1000)], "structure (real V2 transaction)",
                                 key="structure", mode="real")
    real_classes = dict(extra_r[0]["classes"]) if extra_r else {}

    def corrupt(cs):
        i = next(i for i, c in enumerate(cs) if c["exp"]["ok"] and c["c"]["n"] >= 2)
        cs[i]["exp"]["ok"] = False
        cs[i]["exp"]["errs"] = ["Depth"]
        j = next(i for i, c in enumerate(cs) if c["exp"]["errs"] == ["Unreach"])
        cs[j]["exp"]["errs"] = ["Depth"]
        return cs[:max(i, j) + 1]
    self_test_replay(ctx, "structure", cases, corrupt, ["seed=1", "shuffle=0"], "verdict/error class")
    nontrivial = len({json.dumps(c["c"], sort_keys=True) for c in cases if c["c"]["n"] >= 1})
    return {"exhaustive": True, "distinct_nontrivial": nontrivial,
            "well_formed_cases": n_ok, "single_defect_cases": dict(single), "impl_answers": classes,
            "real_transactions": len(real), "impl_answers_real_transactions": real_classes,
            "rule": "every structure with n <= 3 listed subintents (any pattern of equal/distinct hashes, any multiset of "
                    "at most %s child entries <<intent, hash or unknown>>, maxDepth 0..3, root transaction/subintent, "
                    "yield counts 1 / mixed / %s on valid trees) enumerated by TLC as states%s; each is "
                    "validated by the real validate_intents_and_structure through mock intents, in canonical and seeded "
                    "shuffled child order; the realizable ones (trees with distinct hashes, any depth / yield counts >= 1) additionally as "
                    "real V2 notarized transactions through the full validator; distinct = distinct structures with n >= 1"
                    % ("n+2 (n <= 2) or 3 (n = 3)" if q else "n+2",
                       "all 0..2 combinations (n <= 2) / every single edge through 9 count pairs (n = 3)" if q else "all 0..2 combinations",
                       " + 1000 seeded n=3 structures with up to 5 child entries" if q else " + 10000 seeded perturbed n=4 trees")}


# ---------------------------------------------------------------------------------------------
# C34 validation limits
C34_CLASSES = ["TooLarge", "TooManyBlobs", "Network", "EpochRange", "Tip", "MimeTooLong", "PlainTooLong",
               "EncTooLong", "NoDecryptors", "CurveMismatch", "NoDecryptorsForCurve", "TooManyDecryptors",
               "TooManyRefs", "TooManyInstr", "TooManySigs", "V2NotPermitted", "V2NotAllowed",
               "TooManySubintents", "TooManyChildren", "Depth", "TimestampRange", "NoEpochOverlap",
               "NoTimestampOverlap"]


def C34(ctx):
    q = ctx.quick
    r = tlc("TxLimits", "GenTxLimits", workers=4, consts={"Tier": '"quick"' if q else '"thorough"'}, timeout=1500)
    tlc_must_pass(r, "GenTxLimits (laws of TxLimits on the enumerated cases)")
    ctx.add_tlc(r)
    cases = r.printed("B")
    if len(cases) < 500:
        raise ToolError("GenTxLimits produced only %d cases" % len(cases))
    single = collections.Counter(c["exp"]["errs"][0] for c in cases if len(c["exp"]["errs"]) == 1)
    anyc = collections.Counter(e for c in cases for e in c["exp"]["errs"])
    for cls in C34_CLASSES:
        if anyc[cls] == 0:
            raise ToolError("vacuous case set: limit class %s never violated" % cls)
        # an intent with tmin >= tmax also empties the overall timestamp window: never alone
        if cls != "TimestampRange" and single[cls] == 0:
            raise ToolError("vacuous case set: no case whose only violated limit is " + cls)
    for name in ("babylon", "cuttlefish", "small"):
        if not any(c["exp"]["ok"] and c["cfg"]["name"] == name for c in cases):
            raise ToolError("vacuous case set: nothing accepted under configuration " + name)
    ctx.sample({"case": next(c for c in cases if c["tx"]["ver"] == 1 and c["exp"]["errs"] == ["EpochRange"])})
    ctx.sample({"case": {k: v for k, v in next(c for c in cases if c["tx"]["ver"] == 2 and c["exp"]["errs"] == ["NoEpochOverlap"]).items() if k != "cfg"}})
    ctx.sample({"case": {k: v for k, v in next(c for c in cases if c["tx"]["ver"] == 2 and c["exp"]["ok"] and len(c["tx"]["intents"]) >= 3).items() if k != "cfg"}})
    seeds = [ctx.seed] if q else [ctx.seed, ctx.seed + 1]
    classes, builder_checked = {}, 0
    for sd in seeds:
        _, _, extra = replay_cases(ctx, "limits", cases, ["seed=%d" % (sd % 100000)], "limit case", key="limits")
        if extra:
            classes = extra[0]["classes"]
            builder_checked += extra[0]["builder_checked"]

    def corrupt(cs):
        sel = [next(c for c in cs if c["exp"]["ok"] and c["tx"]["ver"] == 2 and c["tx"]["payload"] < 0),
               next(c for c in cs if c["exp"]["errs"] == ["Tip"]),
               next(c for c in cs if c["exp"]["ok"] and c["tx"]["ver"] == 1 and c["tx"]["payload"] < 0)]
        sel[0]["exp"]["overall"]["end"] += 1
        sel[1]["exp"]["errs"] = ["Network"]
        sel[2]["exp"]["ok"] = False
        sel[2]["exp"]["errs"] = ["Tip"]
        return sel
    n = self_test_replay(ctx, "limits", cases, corrupt, ["seed=1"], "overall range / class / verdict")
    if n != 3:
        raise ToolError("binding self-test of limits: %d of 3 corruptions reported" % n)
    distinct = len({json.dumps([c["tx"], c["cfg"]["name"]], sort_keys=True) for c in cases})
    return {"exhaustive": True, "distinct_nontrivial": distinct, "impl_answers": classes,
            "built_also_with_real_builders": builder_checked, "single_limit_cases": dict(single),
            "rule": "for each of 4 configurations (babylon, cuttlefish = latest, a synthetic one with small pairwise different "
                    "limits, cuttlefish with V2 switched off) and each limit: the V1 and V2 transactions at limit-1 / limit / limit+1 "
                    "(0 and type maximum where they exist) with everything else nominal, on the root and on a subintent; pairs and "
                    "triples of epoch / timestamp windows; cross-intent reference and signature totals; subintent tree shapes at the "
                    "children / subintent / depth limits%s. Each is built as a real signed and notarized transaction, validated by "
                    "TransactionValidator configured from the model's record; distinct = distinct (transaction, configuration) pairs"
                    % ("" if q else "; combinations of two deviations")}


# ---------------------------------------------------------------------------------------------
# C48 signature primitives
L14_KEY = "verify_secp256k1 signature[0]"


ANEMONE_KEY = "fast_aggregate_verify_bls12381_v1_anemone: first public key not validated (point at infinity)"


def c48_key(o, case):
    s = case["s"]
    mu = s["mut"]
    if mu["target"] == "craft":
        if s["op"] == "bls.fast_anemone" and mu["kind"] == "bls.infPkAt" and mu["idx"] == 1:
            return ANEMONE_KEY
        return "crypto:%s:craft:%s" % (s["op"], mu["kind"])
    if s["op"] == "secp.verify" and mu["target"] == "sig" and mu["kind"] == "xor" and mu["region"] == "v":
        return L14_KEY
    return "crypto:%s:%s:%s:%s" % (s["op"], mu["target"], mu["kind"], mu["region"])


def C48(ctx):
    q = ctx.quick
    out_file = ctx.wpath("gen.out")
    r = tlc("CryptoIdeal", "GenCryptoIdeal", workers=4, consts={"Tier": '"quick"' if q else '"thorough"'},
            timeout=1500, out_file=out_file)
    os.unlink(out_file)
    tlc_must_pass(r, "GenCryptoIdeal (laws of the ideal signature model on the scenario universe)")
    ctx.add_tlc(r)
    cases = r.printed("B")
    r.out = ""
    if len(cases) < 1500:
        raise ToolError("GenCryptoIdeal produced only %d scenarios" % len(cases))
    verdicts = collections.Counter((c["s"]["op"], tuple(c["allowed"])) for c in cases)
    for op in ("secp.verify", "ed.verify", "bls.verify", "bls.agg", "bls.fast", "bls.fast_anemone"):
        if verdicts[(op, ("true",))] == 0 or verdicts[(op, ("false",))] == 0:
            raise ToolError("vacuous scenario set: %s never expected to %s" % (op, "succeed / fail"))
    if not any(k[0] == "secp.recover" and k[1][0].startswith("k") for k in verdicts):
        raise ToolError("vacuous scenario set: recovery never expected to return the signer")
    ctx.sample({"scenario": next(c for c in cases if c["s"]["op"] == "secp.verify" and c["s"]["mut"]["region"] == "v" and c["s"]["mut"]["mask"] == 1)})
    ctx.sample({"scenario": next(c for c in cases if c["s"]["op"] == "ed.verify" and c["s"]["mut"]["target"] == "none" and c["allowed"] == ["true"])})
    ctx.sample({"scenario": next(c for c in cases if c["s"]["op"] == "bls.agg" and len(c["s"]["pairs"]) == 3 and c["allowed"] == ["false"])})
    # the algebraically degenerate family is complete in both tiers
    crafted = collections.Counter((c["s"]["op"], c["s"]["mut"]["kind"]) for c in cases if c["s"]["mut"]["target"] == "craft")
    for k, n in ((("ed.verify", "ed.torsion"), 384), (("ed.verify", "ed.torsionR"), 64), (("ed.verify", "ed.torsionPk"), 16),
                 (("ed.verify", "ed.sPlusL"), 6), (("secp.verify", "secp.twin"), 18), (("secp.recover", "secp.twin"), 18),
                 (("secp.verify", "secp.r0"), 18), (("secp.recover", "secp.sn"), 18), (("bls.verify", "bls.infBoth"), 3),
                 (("bls.agg", "bls.infPkAt"), 14), (("bls.fast", "bls.infPkAt"), 10), (("bls.fast_anemone", "bls.infPkAt"), 10)):
        if crafted[k] < n:
            raise ToolError("degenerate scenario family incomplete: %s has %d of %d scenarios" % (k, crafted[k], n))
    ctx.sample({"scenario": next(c for c in cases if c["s"]["mut"]["kind"] == "ed.torsion" and c["s"]["mut"]["idx"] == 0 and c["s"]["mut"]["mask"] == 0)})
    outcomes, craft_outcomes = {}, {}
    for sd in ([ctx.seed] if q else [ctx.seed, ctx.seed + 1, ctx.seed + 2]):
        _, _, extra = replay_cases(ctx, "crypto", cases, ["seed=%d" % sd], "scenario", key=c48_key)
        outcomes = extra[0]["outcomes"] if extra else outcomes
        craft_outcomes = extra[0].get("craft_outcomes", {}) if extra else craft_outcomes
    twin = sum(v for k, v in craft_outcomes.items() if k.startswith("secp.recover:secp.twin:k"))

    def corrupt(cs):
        sel = [next(c for c in cs if c["s"]["op"] == "bls.agg" and c["allowed"] == ["true"]),
               next(c for c in cs if c["s"]["op"] == "secp.recover" and c["allowed"] == ["k2"]),
               next(c for c in cs if c["s"]["op"] == "ed.verify" and c["allowed"] == ["false"])]
        sel[0]["allowed"] = ["false"]
        sel[1]["allowed"] = ["k1"]
        sel[2]["allowed"] = ["true"]
        return sel
    n = self_test_replay(ctx, "crypto", cases, corrupt, ["seed=1"], "allowed outcomes")
    if n != 3:
        raise ToolError("binding self-test of crypto: %d of 3 corruptions reported" % n)
    distinct = len({json.dumps(c["s"], sort_keys=True) for c in cases if c["s"]["mut"]["target"] != "none" or c["s"]["op"].startswith("bls.")
                    or c["s"]["k"] != c["s"]["vk"] or c["s"]["m"] != c["s"]["vm"]})
    return {"exhaustive": True, "distinct_nontrivial": distinct, "impl_outcomes": outcomes, "impl_outcomes_degenerate": craft_outcomes,
            "info_secp_recover_high_s_twin": "verify_and_recover_secp256k1 returned the signer for the high-s twin (r, n - s, recovery id "
                                             "with flipped parity) of an honest signature in %d scenarios (ECDSA malleability: the same key "
                                             "and message, another encoding; verify_secp256k1 refuses the twin; at transaction level the "
                                             "signed-intent hash covers the signature bytes, C33)" % twin,
            "rule": "scenarios enumerated by TLC: 4 single-signature operations (verify_secp256k1, verify_and_recover_secp256k1, "
                    "verify_ed25519, verify_bls12381_v1) x signer key x signed message x verification key x verification message "
                    "(3 each), and for matching triples every single-byte xor (%s) of signature / public key / message by region "
                    "(secp v|r|s, ed R|S, bls head|body ...), truncated, extended, all-zero and swapped encodings; BLS aggregate_verify / "
                    "fast_aggregate_verify (v1 and anemone): every list of <= 2 pairs against every list of 1..2 components over 2 keys "
                    "x 2 messages, 3-component families (one wrong message / key, swapped, duplicates, permutations, missing), empty "
                    "lists, byte changes of the aggregate; the algebraically degenerate family (both tiers, complete): Ed25519 8 small-order "
                    "public keys x 8 small-order R x s in {0, 1, L} x 2 messages, small-order R / public key against honest parts, s + L; "
                    "secp256k1 r / s = 0 / n and the high-s twin x recovery ids 0..3 / honest / parity-flipped, verify and recover; "
                    "BLS12-381 infinity public key / signature alone and at every position of aggregate / fast-aggregate (v1, anemone) "
                    "lists with the signature of the remaining keys; keys and messages instantiated with fresh seeded real keys; distinct = "
                    "distinct scenarios other than the honest matching triple"
                    % ("3 positions x 3 masks per region" if q else "every byte position x 4 masks, 3 seeds")}


# ---------------------------------------------------------------------------------------------
# C33 signatures authorize
def C33(ctx):
    q = ctx.quick
    r = tlc("TxSigs", "GenTxSigs", workers=4 if q else 8, consts={"Tier": '"quick"' if q else '"thorough"'}, timeout=2400)
    tlc_must_pass(r, "GenTxSigs (laws of TxSigs: sound/complete signer sets, model-level mutation law)")
    ctx.add_tlc(r)
    cases = r.printed("B")
    r.out = ""
    if len(cases) < 1000:
        raise ToolError("GenTxSigs produced only %d configurations" % len(cases))
    errs = collections.Counter(e for c in cases for a in c["allowed"] for e in a["errs"])
    for cls in ("DuplicateSigner", "InvalidNotarySignature", "NotaryDuplicatesSigner", "InvalidIntentSignature", "TooManySigs"):
        if errs[cls] == 0:
            raise ToolError("vacuous configuration set: no case violating " + cls)
    # family E (degenerate Ed25519 keys: small-order public key + key-less signature) is complete in both tiers
    deg = collections.Counter(("notary" if c["notary"] >= 10 else "subintent" if any(s["k"] >= 10 for l in c["sigs"][1:] for s in l) else "root", c["ver"])
                              for c in cases if c["notary"] >= 10 or any(s["k"] >= 10 for l in c["sigs"] for s in l))
    for k, n in ((("root", 1), 48), (("root", 2), 16), (("subintent", 2), 64), (("notary", 1), 64), (("notary", 2), 64)):
        if deg[k] < n:
            raise ToolError("degenerate key family incomplete: %s has %d of %d configurations" % (k, deg[k], n))
    valid = [c for c in cases if all(a["ok"] for a in c["allowed"])]
    undecided = [c for c in cases if len({a["ok"] for a in c["allowed"]}) == 2]
    if len(valid) < 100 or not undecided:
        raise ToolError("vacuous configuration set: %d valid, %d with undecided recovery" % (len(valid), len(undecided)))
    ctx.sample({"configuration": next(c for c in valid if c["ver"] == 2 and len(c["sigs"][0]) == 2 and c["signatory"])})
    ctx.sample({"configuration": undecided[0]})
    outcomes = {}
    for sd in ([ctx.seed] if q else [ctx.seed, ctx.seed + 1]):
        _, _, extra = replay_cases(ctx, "sigs", cases, ["seed=%d" % (sd % 1000)], "signer configuration", key="sigs")
        outcomes = extra[0]["outcomes"] if extra else outcomes

    def corrupt(cs):
        sel = [next(c for c in cs if c["ver"] == 2 and c["signatory"] and all(a["ok"] for a in c["allowed"]) and len(c["sigs"][0]) == 1),
               next(c for c in cs if [a["errs"] for a in c["allowed"]] == [["DuplicateSigner"]]),
               next(c for c in cs if c["ver"] == 1 and [a["errs"] for a in c["allowed"]] == [["InvalidNotarySignature"]])]
        sel[0]["allowed"][0]["signers"][0] = [k for k in sel[0]["allowed"][0]["signers"][0] if k != sel[0]["notary"]]
        sel[1]["allowed"][0]["errs"] = ["InvalidIntentSignature"]
        sel[2]["allowed"] = [{"ok": True, "errs": [], "signers": [[]]}]
        return sel
    n = self_test_replay(ctx, "sigs", cases, corrupt, ["seed=1"], "signer set / class / verdict")
    if n != 3:
        raise ToolError("binding self-test of sigs: %d of 3 corruptions reported" % n)

    # T: single-byte mutations of valid real transactions, decided by TraceTxSigs
    # bases: one valid configuration of EVERY stratum (version x signature limit x notary curve x notary_is_signatory x
    # number of signatures on root / subintent incl. none and "at the limit" x notary also an intent signer), the one
    # with the most curves among its signers; thorough adds evenly spaced further ones.  (No seed, no every-N-th.)
    def stratum(c):
        return (c["ver"], c["cfg"]["maxSigs"], c["notary"] <= 2, c["signatory"], tuple(len(s) for s in c["sigs"]),
                c["notary"] in [s["k"] for s in c["sigs"][0]])
    groups = collections.OrderedDict()
    for c in valid:
        groups.setdefault(stratum(c), []).append(c)
    bases = [max(g, key=lambda c: len({s["k"] <= 2 for l in c["sigs"] for s in l})) for g in groups.values()]
    if len(bases) < 40:
        raise ToolError("only %d strata of valid signer configurations" % len(bases))
    if not q:
        step = max(1, len(valid) // 150)
        bases += [c for c in valid[::step] if not any(c is b for b in bases)]
    bp = ctx.wpath("bases.ndjson")
    write_ndjson(bp, bases)
    rc, out = vh(BIN, ["sigs", "mutate", "seed=%d" % (ctx.seed % 1000), "per_region=%d" % (3 if q else 0), "masks=1,128"],
                 stdin_path=bp)
    os.unlink(bp)
    evs = [json.loads(l) for l in out.splitlines() if l.strip()]
    if len(evs) < 1000 or not all(e["before"]["ok"] for e in evs):
        raise ToolError("mutation recording of sigs is incomplete (%d events)" % len(evs))
    # binding self-test in the same validation run: two appended events claim a mutated transaction that is
    # still valid with another signer set / other content - they (and only they) must be rejected
    fake = json.loads(json.dumps(evs[:2]))
    fake[0]["after"] = dict(fake[0]["before"])
    fake[0]["after"]["signers"] = [["e00"]]
    fake[1]["after"] = dict(fake[1]["before"])
    fake[1]["after"]["content"] = ["00"]
    bad = validate_calls("TxSigs", "TraceTxSigs", evs + fake, ctx.pid + "-mut", chunks=3 if q else 12)
    if [i for i in bad if i >= len(evs)] != [len(evs), len(evs) + 1]:
        raise ToolError("binding self-test of TraceTxSigs failed: corrupted events not rejected")
    bad = [i for i in bad if i < len(evs)]
    ctx.cov["evaluations"] += len(evs)
    ctx.cov["traces_validated_against_impl"] += len(bases)
    for i in bad:
        e = evs[i]
        ctx.violation("sigs:mutation:%s" % e["region"].rstrip("0123456789"),
                      "byte %d (%s) xor %d of a valid V%d transaction: still valid with different content or signer set"
                      % (e["pos"], e["region"], e["mask"], e["ver"]), {"event": e, "base": bases[e["base"]]})
    still = collections.Counter("%s[%d]^%d" % (e["region"].rstrip("0123456789"), e["off"], e["mask"]) for e in evs if e["after"]["ok"])
    ctx.sample({"mutation_event": evs[len(evs) // 3]})
    distinct = len({json.dumps({k: v for k, v in c.items() if k != "allowed"}, sort_keys=True) for c in cases})
    return {"exhaustive": True, "distinct_nontrivial": distinct, "impl_outcomes": outcomes,
            "mutation_events": len(evs), "mutated_still_valid": dict(still), "mutation_bases": len(bases),
            "rule": "signer configurations enumerated by TLC: every list of <= %d honest signatures of 4 keys (2 secp256k1, 2 Ed25519) x "
                    "notary x notary_is_signatory x V1 (notary may duplicate a signer on/off) / V2 with a subintent; one signature over a "
                    "wrong hash (other intent, signed-intent, stale, unrelated) on root or subintent; notary signature by right / wrong key "
                    "over right / wrong hash; count limits; degenerate Ed25519 keys (each of the 8 small-order points as public key with the "
                    "key-less signature R = same point / neutral element, s = 0) as root signer, subintent signer and notary, V1 and "
                    "V2 - each built as a real notarized transaction and validated; plus %s of the raw "
                    "payload of %d valid transactions xor 0x01 / 0x80, observed through prepare + validate and decided by TraceTxSigs; "
                    "distinct = distinct configurations" % (2 if q else 3, "3 bytes per region and every structure byte" if q else "every byte", len(bases))}


# ---------------------------------------------------------------------------------------------
# C32 transaction identifiers
def C32(ctx):
    q = ctx.quick
    r = tlc("TxHashes", "GenTxHashes", workers=4, timeout=1500)
    tlc_must_pass(r, "GenTxHashes (laws of TxHashes: affected identifiers = covering identifiers, commitment)")
    ctx.add_tlc(r)
    cases = r.printed("B")
    r.out = ""
    fields = [c for c in cases if c["kind"] == "field"]
    payloads = [c for c in cases if c["kind"] == "payload"]
    if len(fields) < 400 or len(payloads) < 40:
        raise ToolError("GenTxHashes produced only %d field and %d payload cases" % (len(fields), len(payloads)))
    if not any(c["affected"] == [] for c in fields) or not any(c["mode"] == "edit" for c in fields) \
            or not any(c["accept"] for c in payloads) or not any(not c["accept"] for c in payloads):
        raise ToolError("vacuous case set for TxHashes")
    ctx.sample({"field_case": {k: v for k, v in next(c for c in fields if c["shape"] == "v2" and c["mode"] == "edit" and len(c["parents"]) == 2).items() if k != "p"}})
    ctx.sample({"field_case": {k: v for k, v in next(c for c in fields if c["shape"] == "v1" and c["f"]["part"] == "isig").items() if k != "p"}})
    ctx.sample({"payload_case": next(c for c in payloads if c["dev"] == "padded_size")})
    perr = {}
    for sd in ([ctx.seed] if q else [ctx.seed, ctx.seed + 1, ctx.seed + 2]):
        _, _, extra = replay_cases(ctx, "hashes", cases, ["seed=%d" % (sd % 1000)], "identifier case", key="hashes")
        perr = extra[0]["prepare_errors"] if extra else perr

    def corrupt(cs):
        sel = [next(c for c in cs if c["kind"] == "field" and c["shape"] == "v2" and c["affected"] == ["G", "N"]),
               next(c for c in cs if c["kind"] == "field" and c["shape"] == "partial" and c["mode"] == "edit"),
               next(c for c in cs if c["kind"] == "payload" and c["dev"] == "trailing")]
        sel[0]["affected"] = ["I", "G", "N"]
        sel[1]["affected"] = [x for x in sel[1]["affected"] if x != "S1"]
        sel[2]["accept"] = True
        return sel
    n = self_test_replay(ctx, "hashes", cases, corrupt, ["seed=1"], "affected set / prepare verdict")
    if n != 3:
        raise ToolError("binding self-test of hashes: %d of 3 corruptions reported" % n)

    # T: every single-byte change of the raw payloads of 6 shapes, decided by TraceTxHashes
    evs = []
    for sd in ([ctx.seed] if q else [ctx.seed, ctx.seed + 1]):
        rc, out = vh(BIN, ["hashes", "bytes", "seed=%d" % (sd % 1000), "masks=%s" % ("1" if q else "1,128,255")])
        evs += [json.loads(l) for l in out.splitlines() if l.strip()]
    if len(evs) < 3000:
        raise ToolError("byte recording of hashes is incomplete (%d events)" % len(evs))
    fake = [dict(next(e for e in evs if e["prepared"] and e["shape"] == "v2"), roundtrip=False),
            dict(next(e for e in evs if e["prepared"] and e["shape"] == "ledger_v1"), changed=["N", "G"]),
            dict(next(e for e in evs if e["prepared"] and e["shape"] == "v1"), changed=[])]
    bad = validate_calls("TxHashes", "TraceTxHashes", evs + fake, ctx.pid + "-bytes", chunks=1 if q else 8)
    if [i for i in bad if i >= len(evs)] != [len(evs), len(evs) + 1, len(evs) + 2]:
        raise ToolError("binding self-test of TraceTxHashes failed: corrupted events not rejected")
    bad = [i for i in bad if i < len(evs)]
    ctx.cov["evaluations"] += len(evs)
    ctx.cov["traces_validated_against_impl"] += 6 * (1 if q else 2)
    for i in bad:
        e = evs[i]
        ctx.violation("hashes:byte:%s" % e["shape"], "byte %d xor %d of a %s payload: %s" % (
            e["pos"], e["mask"], e["shape"], "prepare panicked" if e["panic"] else
            "still preparable but not canonical or with an unchanged top identifier"), {"event": e})
    ctx.sample({"byte_event": next(e for e in evs if e["prepared"])})

    # T (both tiers, no seed, never sampled): byte-level NON-CANONICAL V2 payloads - a duplicated child specifier in a
    # subintent, in the transaction intent core and in a non-root subintent of a notarized transaction, the same
    # subintent listed twice - with the canonical neighbours; every payload and every pair inside a group is decided by
    # TraceTxHashes (NonCanonOk: prepare accepts => decode accepts and re-encoding gives the same bytes; PairOk: two
    # different accepted payloads never prepare to equal content)
    rc, out = vh(BIN, ["hashes", "noncanon"])
    nc = [json.loads(l) for l in out.splitlines() if l.strip()]
    payloads = [e for e in nc if e["a"] == "noncanon"]
    crafted = collections.Counter(e["kind"] for e in payloads if "(crafted)" in e["payload"])
    if crafted["subintent"] < 4 or crafted["notarized_v2"] < 3 or sum(1 for e in nc if e["a"] == "pair") < 40 \
            or sum(1 for e in payloads if e["prepared"] and e["decoded"] and e["roundtrip"]) < 8:
        raise ToolError("non-canonical payload family incomplete: %s" % dict(crafted))
    nc_fake = [dict(payloads[0], prepared=True, decoded=False, roundtrip=False),
               dict(next(e for e in nc if e["a"] == "pair"), both_prepared=True, same_bytes=False, same_content=True)]
    bad_nc = validate_calls("TxHashes", "TraceTxHashes", nc + nc_fake, ctx.pid + "-noncanon", chunks=1)
    if [i for i in bad_nc if i >= len(nc)] != [len(nc), len(nc) + 1]:
        raise ToolError("binding self-test of TraceTxHashes failed: corrupted non-canonical events not rejected")
    ctx.cov["evaluations"] += len(nc)
    for i in [i for i in bad_nc if i < len(nc)]:
        e = nc[i]
        if e["a"] == "noncanon":
            ctx.violation("hashes:noncanonical:%s" % e["kind"], "the %s payload %s is prepared (identifier %s) although it %s" % (
                e["kind"], e["payload"], e["id"][:16], "panicked" if e["panic"] else "is not the canonical encoding of what it decodes to"), {"event": e})
        else:
            ctx.violation("hashes:noncanonical:two identifiers for one content", "the different payloads %s and %s both prepare, to the same content" % (e["x"], e["y"]), {"event": e})
    ctx.sample({"noncanonical_payload": next(e for e in payloads if "(crafted)" in e["payload"])})
    distinct = len({json.dumps({k: v for k, v in c.items() if k not in ("affected", "accept", "law")}, sort_keys=True) for c in cases})
    return {"exhaustive": True, "distinct_nontrivial": distinct, "prepare_errors": perr, "byte_events": len(evs),
            "noncanonical_payloads": {e["payload"]: ("prepared" if e["prepared"] else e["prepare_error"]) for e in payloads},
            "byte_changes_still_preparable": sum(1 for e in evs if e["prepared"]),
            "rule": "TLC enumerates 13 transaction shapes (V1, V2 with 0..3 subintents flat / chain / tree, partial transactions, "
                    "ledger-wrapped V1 / V2) x every field (7 / 6+3 header leaves, first and last instruction and blob, message, every "
                    "signature, notary signature, children order, subintent list order) x mode (value = exactly that field; edit = "
                    "field + stored child hashes brought up to date) and 58 payload deviations (prefix, discriminator, trailing byte, "
                    "non-minimal size, field count, blob / children / subintent / signature-batch counts and payload length at and over "
                    "the limit, V2 not permitted) over 4 payload kinds; each executed on real transactions through to_raw + prepare; "
                    "plus every single-byte change (%s) of the raw payloads of 6 shapes decided by TraceTxHashes; plus the byte-level "
                    "non-canonical V2 family (children [h,h], [h,h,h3], [h,h3,h], [h,h,h] in a subintent, in the transaction intent core "
                    "and in a non-root subintent, a subintent listed twice) with canonical neighbours and all pairs per group (NonCanonOk, "
                    "PairOk); distinct = distinct cases"
                    % ("xor 1" if q else "xor 1 / 128 / 255, 2 seeds")}


PROPS = {
    "C35": dict(fn=C35, level="model_checking", design_ref="5/C35",
                technique="TLA+ spec TxStructure (WellFormed = the statement, clause by clause): TLC checks its laws on every "
                          "structure of the bounded universe and emits each structure with the expected verdict; replay into "
                          "TransactionValidator::validate_intents_and_structure via mock IntentTreeStructure intents",
                text="TLC enumerates every subintent structure of the bounded universe as a state, checks on each that "
                     "WellFormed (distinct, every child present, exactly one parent, acyclic, reachable within the depth, "
                     "matching yield counts) is equivalent to 'generated by a labelled rooted tree' and to 'no defect', and "
                     "prints it with the expected verdict and the set of defects. The harness runs the real validator on each "
                     "structure (mock intents returning the model's yield summaries) and reports a mismatch when accept/reject "
                     "differs or when the reported error class is not one of the structure's defects (exact class when there is "
                     "one defect).",
                note="Universe: child entries limited to n+2 per structure (denser relations only through the n=4 sample); "
                     "thorough = all n<=3 (about 5*10^5 structures), quick = all n<=2 + seeded n=3 sample. The mock intents "
                     "bypass per-intent validation (headers, manifests) - that is C34's subject; structures that hashes allow to "
                     "exist (trees; wrong depth or yield counts) are additionally built as real V2 transactions (children from "
                     "USE_CHILD, yields from real instructions) and validated by the full validator. Trusted: TLC, the harness "
                     "projection (error variant -> class name, hash name -> hash)."),
    "C34": dict(fn=C34, level="model_checking", design_ref="5/C34",
                technique="TLA+ spec TxLimits (Accept = conjunction of per-limit predicates with the code's comparison operators, "
                          "Overall = intersection of the intents' windows): TLC enumerates the boundary cases per configuration, checks "
                          "the laws and emits each with the expected verdict; replay into TransactionValidator on real transactions",
                text="TLC enumerates, per configuration and per limit, the transactions at limit-1 / limit / limit+1, evaluates "
                     "Accept(tx, cfg), the set of violated limits and the overall validity window, and checks that the window is the "
                     "pointwise intersection of the intents' windows. The harness builds each case as a real V1 / V2 notarized "
                     "transaction (real builders, cross-checked byte for byte against direct assembly where the builders can express "
                     "the case), validates it with a validator created from the model's configuration record (named configurations "
                     "are compared with the real constants) and reports a mismatch when accept/reject differs, when the error class is "
                     "not one of the violated limits (exact when there is one) or when the returned overall range differs.",
                note="Covers notarized V1 and V2 transactions (not preview / ledger payload limits, not max_ledger_payload_length). "
                     "The specification follows the code in rejecting an epoch window whose start + max_epoch_range overflows u64 even "
                     "if the window itself is short (deliberate, tested upstream). usize::MAX limits of the babylon configuration "
                     "cannot be exceeded and are only exercised below the limit. Trusted: TLC, the harness construction and projection."),
    "C48": dict(fn=C48, level="model_checking", design_ref="5/C48, 6/L14",
                technique="TLA+ spec CryptoIdeal (Dolev-Yao signatures with symbolic provenance, aggregates as bags): TLC enumerates "
                          "the scenarios, checks the laws of the ideal model and emits each scenario with the allowed outcomes; replay "
                          "into radix_common::crypto with real seeded keys",
                text="TLC derives for every scenario the symbolic terms handed to the primitive (honest Sign(k, m) / PK(k) or junk after "
                     "any byte operation), evaluates Verify / Recover / AggVerify of the ideal model, checks that AggVerify coincides "
                     "with 'every component signature is valid for its message under some matching', and prints the allowed outcomes. "
                     "The harness performs the scenario with real secp256k1, Ed25519 and BLS12-381 keys and reports every outcome "
                     "that is not allowed.",
                note="Known finding (lead L14): verify_secp256k1 only range-checks the recovery id, so changing signature byte 0 to "
                     "another id in 0..3 still verifies (reported with key 'verify_secp256k1 signature[0]'). The degenerate family (small-order "
                     "Ed25519 keys / R, s = 0 / 1 / L, secp256k1 r / s = 0 / n, BLS infinity key / signature) must never verify. Two "
                     "observations on the unchanged code: the anemone fast-aggregate variant does not validate the FIRST public key, so "
                     "[infinity, k2, ..] verifies the aggregate of the remaining keys (reported with its own key); "
                     "verify_and_recover_secp256k1 returns the signer for the high-s twin (r, n - s) of an honest signature - the same "
                     "key and message in another encoding, allowed by the model for recovery and recorded as information (multi-byte, outside "
                     "the single-byte quantifier). Curve arithmetic itself is trusted (crypto crates); quick = 5 byte positions per region."),
    "C33": dict(fn=C33, level="model_checking", design_ref="5/C33",
                technique="TLA+ spec TxSigs over CryptoIdeal (hash terms, signature provenance, recovered keys): TLC checks signer-set "
                          "soundness / completeness and the mutation law on every configuration and emits the allowed outcomes; replay "
                          "into prepare + validate of real transactions; recorded byte mutations validated by TraceTxSigs",
                text="TLC enumerates signer configurations, checks on each that a valid transaction has a verifying notary signature over "
                     "the signed-intent hash, that its signer sets are exactly the keys with a verifying signature over that intent's "
                     "hash plus the signatory notary without duplicates, and that changing any one part (content of an intent, a "
                     "signature, the notary signature, the signatory flag, the notary key) gives an invalid transaction or the same "
                     "content and signers; it prints the allowed outcomes (a secp256k1 signature over a wrong hash may recover to a key "
                     "nobody owns or to nothing). The harness builds each configuration with real keys, validates it and reports "
                     "outcomes that are not allowed. For valid transactions it changes raw bytes, records verdict / content / signer keys "
                     "and the Trace module applies the specification's MutationOk to every event.",
                note="Content identity in the mutation events is the hash of the re-encoded decoded intent (independent of the "
                     "transaction hashes). Observed and allowed by the law: flipping the recovery id of a secp256k1 NOTARY signature "
                     "keeps the transaction valid with the same content and signers (see C48 / L14). A secp256k1 intent signature over "
                     "the wrong hash is accepted with a recovered key that nobody owns - inherent to recovery, reflected in the "
                     "specification as an undecided outcome. Preview transactions (public keys instead of signatures) are not covered. "
                     "quick = 30 transactions x 3 bytes per region (all structure bytes); thorough = every byte of 200 transactions."),
    "C32": dict(fn=C32, level="model_checking", design_ref="5/C32",
                technique="TLA+ spec TxHashes (hash structure of prepare as free constructors, stored child hashes, Normalize): TLC "
                          "checks Affected = Covers and commitment for every shape x field x mode and CanonicalOk for payload deviations, "
                          "emits the expected sets; replay into to_raw + prepare; recorded byte changes validated by TraceTxHashes",
                text="TLC builds the identifier terms (intent, subintent, signed-intent, notarized, ledger hash) of every shape from the "
                     "hash structure of the prepare code, changes one leaf and derives by term inequality which identifiers change; it "
                     "checks that this is exactly the identifier of the hashed part containing the field and everything built on it "
                     "(and that every user-level change reaches the notarized and ledger hash). The harness builds the shape with real "
                     "keys, changes exactly that field of the transaction value (or edits it consistently), recomputes all identifiers "
                     "with prepare and reports a different set; decode + encode must reproduce bytes and identifiers. Payload "
                     "deviations must be accepted / rejected by prepare as CanonicalOk says. All single-byte changes of raw payloads are "
                     "recorded and the Trace module requires: no panic; if still preparable then canonical (round trip) and a different "
                     "top identifier.",
                note="The specification models what the code does: an intent stores its children's subintent hashes as fields and "
                     "prepare does not recompute them (consistency is a validation matter, C35), so changing a subintent alone changes "
                     "its own hash and the transaction intent hash but not its parent's subintent hash; after a consistent edit the "
                     "ancestors change too. Partial transactions have no identifier over their signatures. Preview transactions, "
                     "system / flash / round-update payloads are not covered. Hash function itself (blake2b) trusted."),
}

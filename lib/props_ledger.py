"""Ledger column: spec/Ledger/Ledger.tla bound at ledger level (scrypto_test::LedgerSimulator, real manifests):
C03 (conservation per transaction), C04 (supply = sum of vaults over histories), C09 (worktop / bucket / proof
semantics inside a transaction), C10 (funds behind a live proof), C43 (non-fungible ids and data)."""
import json, os, collections
from concurrent.futures import ThreadPoolExecutor
import core
from core import tlc, tlc_must_pass, vh, ToolError, write_ndjson, read_ndjson, validate_trace

BIN = "vh_ledger"
SPEC = "Ledger"


# ---------------------------------------------------------------------------------------------
# helpers (candidates for lib/core.py: parallel TLC jobs, behaviour replay with stats, corruption self-test)

def _rm(p):
    try:
        os.unlink(p)
    except FileNotFoundError:
        pass


def _parallel(jobs):
    """jobs: list of (fn, args, kwargs); runs them concurrently (TLC workers are set per job), returns results in order."""
    with ThreadPoolExecutor(max_workers=max(1, len(jobs))) as ex:
        futs = [ex.submit(f, *a, **k) for f, a, k in jobs]
        return [f.result() for f in futs]


def _mc(cfg, consts=None, workers=2, timeout=3000):
    return tlc(SPEC, "MCLedger", cfg=cfg, workers=workers, consts=consts, timeout=timeout, heap="3g")


def _gen(cfg, consts=None, workers=2):
    return tlc(SPEC, "GenLedger", cfg=cfg, workers=workers, coverage=False, consts=consts, heap="3g", timeout=3000)


def _sim(cfg, n, depth, seed, consts=None):
    return tlc(SPEC, "GenLedger", cfg=cfg, workers=1, coverage=False, simulate=n, depth=depth, seed=seed,
               consts=consts, heap="2g", timeout=3000)


def _bnd(cfg):
    return tlc(SPEC, "GenLedger", cfg=cfg, workers=1, coverage=False, heap="2g", timeout=3000)


def _take(ctx, what, r, s_run):
    """S runs must pass and fire the actions the property depends on; generator runs must finish."""
    if s_run:
        tlc_must_pass(r, what[0], required_actions=what[1])
        ctx.add_tlc(r)
        return None
    if not r.ok:
        import sys
        sys.stderr.write(r.out[-4000:])
        raise ToolError("behaviour generation failed: %s" % what[0])
    b = r.printed("B")
    if not b:
        raise ToolError("no behaviours from %s" % what[0])
    return b


def _key(o, beh):
    tx = beh["txs"][max(0, o["step"] - 1)] if o["step"] >= 1 else None
    kind = o["mismatch"].split(".")
    kind = ".".join(kind[:2]) if kind[0] in ("post", "init") else kind[0].split(":")[0]
    op = tx["ins"][-1]["op"] if tx and tx["ins"] else "-"
    return "ledger:%s:%s" % (kind, op)


def _replay_part(ctx, part, probe, tag):
    p = ctx.wpath("ledger-beh-%s.ndjson" % tag)
    write_ndjson(p, part)
    rc, out = vh(BIN, ["ledger", "replay", "probe=%d" % (1 if probe else 0)], stdin_path=p, timeout=7200, check=False)
    _rm(p)
    mism, stats, done = [], {}, None
    for line in out.splitlines():
        o = json.loads(line)
        if "toolerror" in o:          # the harness could not build / prepare something: a defect of the machinery, not of the engine
            raise ToolError("harness: " + o["toolerror"])
        if "mismatch" in o:
            mism.append(o)
        elif "stats" in o:
            stats = o["stats"]
        elif "done" in o:
            done = o
    if rc != 0 or done is None or done["done"] != len(part):
        raise ToolError("ledger replay did not complete (rc=%s)" % rc)
    return mism, stats, done


def _replay(ctx, behs, probe=True, record=True, procs=4):
    """spec -> impl, over `procs` harness processes.  Returns (mismatches, stats).  With record=True every mismatch becomes a violation."""
    core.build_harness(BIN)
    procs = max(1, min(procs, len(behs) // 50 or 1))
    idx = [list(range(k, len(behs), procs)) for k in range(procs)]
    res = _parallel([(_replay_part, (ctx, [behs[i] for i in ix], probe, "%d-%d" % (len(behs), k)), {}) for k, ix in enumerate(idx)])
    mism, stats, steps, total = [], collections.Counter(), 0, 0
    for ix, (m, st, done) in zip(idx, res):
        for o in m:
            o["b"] = ix[o["b"]]
            mism.append(o)
        stats.update(st)
        steps += done["steps"]
        total += done["mismatches"]
    if record:
        for o in mism:
            b = behs[o["b"]]
            ctx.violation(_key(o, b), "transaction %d of the behaviour: %s expected %s got %s" %
                          (o["step"], o["mismatch"], json.dumps(o["exp"])[:200], json.dumps(o["got"])[:300]),
                          {"module": "ledger", "behaviour": b, "tx": o["step"], "mismatch": o})
        if total > len(mism):
            core.log("replay reported %d mismatches (first %d kept)" % (total, len(mism)))
        ctx.cov["traces_validated_against_impl"] += len(behs)
        ctx.cov["evaluations"] += steps
    return mism, dict(stats)


def _selftest(ctx, behs):
    """Binding: a corrupted predicted balance, a corrupted supply and a shifted failure index must be reported."""
    ok_b = next((b for b in behs if b["txs"][-1]["ok"] and len(b["txs"][-1]["ins"]) >= 2), None)
    fail_b = next((b for b in behs if not b["txs"][-1]["ok"] and b["txs"][-1]["fail"] >= 1
                   and b["txs"][-1]["fail"] < len(b["txs"][-1]["ins"])), None)
    if ok_b is None or fail_b is None:
        raise ToolError("self-test: no suitable behaviours")
    c1 = json.loads(json.dumps(ok_b))
    a = sorted(c1["txs"][-1]["post"]["bal"])[-1]
    r = sorted(c1["txs"][-1]["post"]["bal"][a])[0]
    c1["txs"][-1]["post"]["bal"][a][r]["amt"] += c1["unit"]
    c2 = json.loads(json.dumps(ok_b))
    r2 = sorted(c2["txs"][-1]["post"]["sup"])[0]
    c2["txs"][-1]["post"]["sup"][r2] += c2["unit"]
    c3 = json.loads(json.dumps(fail_b))
    c3["txs"][-1]["fail"] -= 1
    mism, _ = _replay(ctx, [c1, c2, c3], record=False)
    seen = {m["b"] for m in mism}
    if seen != {0, 1, 2}:
        raise ToolError("self-test: corrupted predictions were not all reported (%s)" % sorted(seen))
    want = "post.bal.%s.%s.amt" % (a, r)
    if not any(m["b"] == 0 and m["mismatch"] == want for m in mism):
        raise ToolError("self-test: corrupted balance %s not reported" % want)
    return 3


def _distinct(behs, min_ins=2):
    return len({json.dumps([t["ins"] for t in b["txs"]], sort_keys=True) for b in behs
                if sum(len(t["ins"]) for t in b["txs"]) >= min_ins})


def _summ(behs, stats):
    txs = sum(len(b["txs"]) for b in behs)
    okc = sum(1 for b in behs for t in b["txs"] if t["ok"])
    errs = collections.Counter(t["err"] for b in behs for t in b["txs"] if not t["ok"])
    ops = sorted(k[3:] for k in stats if k.startswith("op:"))
    return txs, okc, errs, ops


def _sample(ctx, behs, pred):
    b = next((x for x in behs if pred(x)), None)
    if b is not None:
        t = b["txs"][-1]
        ctx.sample({"manifest": [{k: v for k, v in i.items() if v not in ("", 0, [])} for i in t["ins"]],
                    "predicted": {"ok": t["ok"], "fail_index": t["fail"], "error": t["err"], "post_balances": t["post"]["bal"],
                                  "post_supply": t["post"]["sup"]},
                    "transactions_in_history": len(b["txs"])})


# every public mint / burn / recall entry point of the two resource managers and the vault blueprints: fungible mint, bucket burn,
# vault burn (Account::burn -> package_burn), recall; non-fungible mint, mint_ruid, mint_single_ruid, bucket burn, vault burn by ids /
# by amount, recall by ids / by amount, take by amount.  C03 and C04 require each to have executed successfully in the replayed set
# (from the never-sampled boundary scripts e0..e5), with every supply and vault compared afterwards.
ENTRY_POINTS = ["Mint", "Burn", "BurnInAccount", "Recall", "MintNF", "MintRuid", "MintSingleRuid", "BurnNFInAccount",
                "BurnNFAmountInAccount", "RecallNF", "RecallNFAmount", "WithdrawNFAmount"]

BND_RULE_Z = (" Composition boundary set (C10, never sampled): 2-3 overlapping base proofs of one vault in the auth zone in both orders "
              "(smaller first / larger first / equal), base proofs on two vaults, bucket-backed base proofs, non-fungible base proofs in both orders, "
              "fungible and non-fungible proofs mixed in the zone (the native code traps), dropped signature proofs; compose n in {<= smaller, "
              "between, = larger, > larger}; then drop the last / the first / all base proofs / everything / also the composed proof; then "
              "withdraw, recall and burn every amount 0 .. balance + 1 granule (every id set).")
BND_RULE_V = (" V2 assertion boundary set (C09, never sampled; manifests built as TransactionManifestV2): worktop states {empty, only F, only N, "
              "exactly F and N, F and N plus the unlisted U, F plus the unlisted U, F after a partial take, zero-amount bucket returned, zero withdrawal} x "
              "{RESOURCES_ONLY, RESOURCES_INCLUDE} x 28 constraint sets (none = IS_EMPTY; per resource non-zero / exact and at-least below, at and above "
              "the balance / exact ids / at-least ids / a non-fungible constraint on a fungible; pairs); ASSERT_BUCKET_CONTENTS on a full, a "
              "non-fungible, an empty, a partial and a consumed bucket x 23 constraints; ASSERT_NEXT_CALL_RETURNS_ONLY / _INCLUDE x 9 constraint sets "
              "followed by every withdraw amount / id set, mint, deposit-batch, take-all (not a call) and burn, also with resources already on the worktop. "
              "Bucket-proof lifecycle (62 scripts): a bucket holding the whole balance with 2-3 proofs of different amounts in both creation orders "
              "(fungible 2/4, 4/2, 2/4/2; non-fungible {1}/{1,2} both orders), cloned proofs, every drop order, the bucket kept named or returned to "
              "the worktop; then return / deposit / burn / further proofs of every amount, or take of every amount 0 .. balance + 1 granule / every id "
              "set, take-all, assertions and deposit-batch, with the final balances compared: proofs never change what a bucket or the worktop holds.")
BND_RULE = " The BOUNDARY set (never sampled, same in quick and thorough) is the full product (limit state reached by a scripted prefix: worktop = balance, part-locked vault, overlapping proofs, locked bucket on the worktop, burnt id, failed mint, lost signatures ...) x (every instruction kind that can consume it) x (every argument: amounts 0 .. balance + 1 granule in half-granule steps, all id sets), each followed by a closing sequence."

ALL_OPS_CORE = ["IAssertResOnly", "IAssertResInclude", "IAssertNextCallOnly", "IAssertNextCallInclude", "IAssertBucket", "IWithdraw", "ITakeFromWorktop", "ITakeAll", "IReturnToWorktop", "IDeposit", "IDepositBatch", "IMint", "IBurn",
                "IAssertContains", "IAssertAny", "EndTx"]
NF_OPS_CORE = ["IWithdrawNF", "ITakeNF", "IMintNF", "IAssertNF"]
PROOF_OPS = ["IAzProofOfAmount", "IAzProofOfAll", "IProofOfAmount", "IBucketProofOfAmount", "IBucketProofOfAll", "IPopFromAuthZone", "IPushToAuthZone", "ICloneProof",
             "IDropProof", "IDropAllProofs", "IDropAuthZoneRegularProofs", "IWithdraw", "IRecall", "IBurnInAccount", "IBurn", "IDeposit"]
PROOF_OPS_NF = ["IWithdrawNFAmount", "IRecallNFAmount", "IAzProofOfNF", "IAzProofOfAll", "IProofOfNF", "IBucketProofOfNF", "IBucketProofOfAll", "IPopFromAuthZone", "ICloneProof", "IDropProof",
                "IWithdrawNF", "IRecallNF", "IBurnNFInAccount"]
NF_OPS = ["IMintSingleRuid", "IBurnNFAmountInAccount", "IMintNF", "IMintNFWrongType", "IMintRuid", "IBurn", "IBurnNFInAccount", "IUpdateNFData", "IDepositBatch", "IWithdrawNF", "ITakeAll"]
HIST_OPS = ["IWithdraw", "IWithdrawNF", "ITakeAll", "IDeposit", "IDepositBatch", "IMint", "IMintNF", "IBurn", "IBurnInAccount",
            "IBurnNFInAccount", "IRecall", "IProofOfAmount", "IUpdateNFData", "EndTx"]


def _run(ctx, s_jobs, g_jobs):
    """s_jobs: [(cfg, consts, required_actions)]; g_jobs: [("bnd"|"exh"|"sim", cfg, n, depth, consts)] -> behaviours.
    bnd: full boundary product, never sampled; exh: all paths of a tiny instance, n = cap in quick (0: none); sim: n seeded behaviours"""
    jobs = []
    for cfg, consts, req in s_jobs:
        jobs.append((_mc, (cfg,), {"consts": consts, "workers": (2 if len(s_jobs) == 1 else 1) if ctx.quick else (4 if len(s_jobs) == 1 else 2)}))
    for i, g in enumerate(g_jobs):
        if g[0] == "bnd":
            jobs.append((_bnd, (g[1],), {}))
        elif g[0] == "exh":
            jobs.append((_gen, (g[1],), {"consts": g[4], "workers": 1}))
        else:
            jobs.append((_sim, (g[1], g[2], g[3], ctx.seed + i), {"consts": g[4]}))
    res = _parallel(jobs)
    for (cfg, consts, req), r in zip(s_jobs, res[:len(s_jobs)]):
        _take(ctx, (cfg, req), r, True)
    behs = []
    for g, r in zip(g_jobs, res[len(s_jobs):]):
        b = _take(ctx, (g[1], ()), r, False)
        if g[0] == "exh" and ctx.quick and g[2] and len(b) > g[2]:
            b = ctx.rng.sample(b, g[2])        # bulk of an exhaustive set; the boundary products ("bnd") are never sampled
        behs += b
    return behs


def _require(behs, ops_ok, errs):
    """non-vacuity of G: these instruction kinds must have executed successfully, these failure classes must be predicted"""
    done, seen = set(), set()
    for b in behs:
        for t in b["txs"]:
            upto = len(t["ins"]) if t["ok"] else min(t["fail"], len(t["ins"]))
            done.update(i["op"] for i in t["ins"][:upto])
            if not t["ok"]:
                seen.add(t["err"])
    missing = (set(ops_ok) - done) | {"error:" + e for e in set(errs) - seen}
    if missing:
        raise ToolError("vacuous behaviour set: never exercised %s" % sorted(missing))


def _finish(ctx, behs, rule, extra_samples=(), ops_ok=(), errs=()):
    _require(behs, ops_ok, errs)
    mism, stats = _replay(ctx, behs)
    st = _selftest(ctx, behs)
    txs, okc, errs, ops = _summ(behs, stats)
    _sample(ctx, behs, lambda b: b["txs"][-1]["ok"] and len(b["txs"][-1]["ins"]) >= 4)
    _sample(ctx, behs, lambda b: not b["txs"][-1]["ok"] and b["txs"][-1]["fail"] >= 3)
    for pred in extra_samples:
        _sample(ctx, behs, pred)
    return {"distinct_nontrivial": _distinct(behs),
            "behaviours": len(behs), "transactions": txs, "transactions_committed_successfully": okc,
            "predicted_failure_classes": dict(errs), "instruction_kinds_replayed": ops, "selftest_corruptions_detected": st,
            "rule": rule % {"n": len(behs), "txs": txs, "ok": okc, "kinds": len(ops), "classes": len(errs)}}


# ---------------------------------------------------------------------------------------------
def C09(ctx):
    q = ctx.quick
    behs = _run(ctx,
                [("MCLedgerCore", {"MaxInstr": 5 if q else 8}, ALL_OPS_CORE),
                 ("MCLedgerCoreNF", {"MaxInstr": 4 if q else 6}, ALL_OPS_CORE + NF_OPS_CORE)],
                [("bnd", "BndLedgerW" if q else "BndLedgerAll", 0, 0, None),
                 ("exh", "GenLedgerTiny", 0, 0, None), ("exh", "GenLedgerTinyNF", 0, 0, None),
                 ("sim", "SimLedger", 400 if q else 12000, 12, None)] +
                ([] if q else [("sim", "SimLedgerAll", 8000, 12, None)]))
    return _finish(ctx, behs,
                   "S: TLC checks on every reachable state/transition of Ledger.tla (fungible core, <= 5/8 instructions, and fungible + "
                   "non-fungible core, <= 4/6 instructions; 2 accounts, 2 bucket names) InTxConservation (vaults + worktop + buckets = "
                   "before + minted - burned; every id in exactly one container), NoEmptyWorktopBucket, SuccessClean, TakeExact, "
                   "TakeShortFails, TakeEnoughSucceeds, AssertExact, ResAssertExact (ASSERT_WORKTOP_RESOURCES_ONLY / _INCLUDE / IS_EMPTY, "
                   "ASSERT_NEXT_CALL_RETURNS_ONLY / _INCLUDE, ASSERT_BUCKET_CONTENTS pass exactly when the worktop / the returned buckets / the bucket "
                   "satisfy the constraints), UseAfterConsume. G: %(n)d model manifests (all manifests of <= 2 "
                   "instructions of two tiny instances + seeded simulated manifests of up to 8 instructions over %(kinds)d instruction "
                   "kinds) built with ManifestBuilder and executed by LedgerSimulator; compared: commit success/failure, error class "
                   "(%(classes)d classes predicted), index of the failing instruction (prefix probing), every account vault balance / id "
                   "set, total supplies and non-fungible data read from the database. %(ok)d of %(txs)d transactions commit successfully. "
                   "distinct = distinct manifests with >= 2 instructions." + BND_RULE + BND_RULE_V,
                   ops_ok=["Withdraw", "WithdrawNF", "TakeFromWorktop", "TakeNF", "TakeAll", "ReturnToWorktop", "Deposit", "DepositBatch",
                           "Mint", "MintNF", "Burn", "AssertContains", "AssertAny", "AssertNF",
                           "AssertResOnly", "AssertResInclude", "AssertNextCallOnly", "AssertNextCallInclude", "AssertBucket"],
                   errs=["WorktopInsufficient", "AssertionFailed", "BucketNotFound", "DropNonEmptyBucket", "OrphanedNodes",
                         "InsufficientBalance", "InvalidAmount", "MissingId", "Unauthorized", "*", "NonFungibleAlreadyExists",
                         "AssertNextCallReturnsFailed", "AssertBucketContentsFailed"])


def C03(ctx):
    q = ctx.quick
    behs = _run(ctx,
                ([] if q else [("MCLedgerCore", {"MaxInstr": 8}, ALL_OPS_CORE)]) +
                [("MCLedgerCoreNF", {"MaxInstr": 4 if q else 6}, ALL_OPS_CORE + NF_OPS_CORE)],
                [("bnd", "BndLedgerC03" if q else "BndLedgerAll", 0, 0, None),
                 ("sim", "SimLedgerAll", 400 if q else 12000, 12, None),
                 ("sim", "SimLedgerFG", 250 if q else 5000, 12, None)] +
                ([] if q else [("exh", "GenLedgerTiny", 0, 0, None), ("sim", "SimLedgerHist", 2500, 24, None)]))
    res = _finish(ctx, behs,
                  "S: TLC checks the action properties Conservation (sum of vault balances after - before = minted - burned per "
                  "resource; id sets: after = (before + minted) - burned, pairwise disjoint), SupplyDelta (tracked supply moves by "
                  "exactly minted - burned) and RevertExact (a failed transaction leaves the ledger untouched) on every commit/abort "
                  "transition of two exhaustive instances. G: %(n)d model behaviours (%(txs)d transactions, %(ok)d committed "
                  "successfully) with mint / burn / burn-in-account / recall / withdraw / deposit over a tracked resource of divisibility 2, "
                  "an untracked resource of divisibility 0 and a non-fungible resource; the predicted balance of EVERY account vault and "
                  "every TotalSupply field (absent for the untracked resource) is compared with the database after every transaction, "
                  "so a balance and its event changing consistently is still seen. distinct = distinct manifests/histories with >= 2 instructions." + BND_RULE,
                  extra_samples=[lambda b: any(i["op"] in ("Mint", "Burn", "Recall") for i in b["txs"][-1]["ins"]) and b["txs"][-1]["ok"]],
                  ops_ok=ENTRY_POINTS + ["Withdraw", "WithdrawNF", "Deposit", "DepositBatch"],
                  errs=["InsufficientBalance", "InvalidAmount", "DropNonEmptyBucket"])
    _trace_supply(ctx, res, conservation=True)
    return res


def C10(ctx):
    q = ctx.quick
    behs = _run(ctx,
                [("MCLedgerProofs", {"MaxInstr": 5 if q else 8}, PROOF_OPS),
                 ("MCLedgerProofsNF", {"MaxInstr": 4 if q else 6}, PROOF_OPS_NF)],
                [("bnd", "BndLedgerL" if q else "BndLedgerAll", 0, 0, None), ("bnd", "BndLedgerZ", 0, 0, None),
                 ("exh", "GenLedgerTinyBucketProofs", 0, 0, None),
                 ("sim", "SimLedgerProofs", 300 if q else 25000, 14, None)] +
                ([] if q else [("exh", "GenLedgerTinyProofs", 0, 0, None), ("sim", "SimLedgerFG", 4000, 12, None),
                               ("sim", "SimLedgerH", 3000, 14, None)]))
    return _finish(ctx, behs,
                   "S: TLC checks on every interleaving of proof creation (account vault / bucket / composed by the auth zone from its base "
                   "proofs; amount / ids / all), cloning, "
                   "pop/push, dropping, withdraw, burn, recall, take, return, deposit (<= 5/8 instructions fungible, <= 4/6 non-fungible; "
                   "2 proof names, 2 auth-zone slots) LocksMatchProofs (locks of a container = evidence entries of the live proofs on it), "
                   "ProofBacked (for every live proof - plain, cloned or composed - the evidence covers the whole claimed amount / id set and "
                   "lies inside the locked part of its containers, so nothing a live proof evidences is withdrawable), TotalUnchangedByLocks (max-of-locks accounting), OnlyLiquidLeaves, "
                   "UnlockedIsLiquid, NoLocksOutsideTx, DivisibilityState/Args. G: %(n)d model manifests (all manifests of <= 5 instructions of a tiny "
                   "bucket-proof instance, thorough: also of <= 3 instructions of a tiny account-proof instance; + seeded manifests of up to 10 instructions weighted towards overlapping proofs; "
                   "divisibility 2 and 0 with amounts of one digit too many, thorough: also 18) executed on the real ledger: outcome, error class, failing index "
                   "and all balances compared. %(ok)d of %(txs)d commit. distinct = distinct manifests with >= 2 instructions." + BND_RULE + BND_RULE_Z,
                   extra_samples=[lambda b: sum(1 for i in b["txs"][-1]["ins"] if "Proof" in i["op"]) >= 3],
                   ops_ok=["AzProofOfAmount", "AzProofOfNF", "AzProofOfAll", "DropAuthZoneSignatureProofs", "ProofOfAmount", "ProofOfNF", "BucketProofOfAmount", "BucketProofOfAll", "BucketProofOfNF", "PopFromAuthZone",
                           "PushToAuthZone", "CloneProof", "DropProof", "DropAllProofs", "DropNamedProofs", "DropAuthZoneRegularProofs",
                           "Withdraw", "WithdrawNF", "Recall", "BurnInAccount", "TakeFromWorktop", "TakeAll", "ReturnToWorktop", "Deposit"],
                   errs=["InsufficientBalance", "BucketLocked", "InvalidAmount", "EmptyProofNotAllowed", "MissingId", "ProofNotFound",
                         "AuthZoneIsEmpty", "Unauthorized", "BucketNotFound", "WorktopInsufficient", "OrphanedNodes", "*",
                         "InsufficientBaseProofs", "Trap"])


def _idtypes_replay(ctx, cases, record=True):
    p = ctx.wpath("idtypes-%d.ndjson" % len(cases))
    write_ndjson(p, cases)
    rc, out = vh(BIN, ["idtypes", "replay"], stdin_path=p, timeout=3600, check=False)
    _rm(p)
    mism, done = [], None
    for line in out.splitlines():
        o = json.loads(line)
        if "toolerror" in o:
            raise ToolError("harness: " + o["toolerror"])
        if "mismatch" in o:
            mism.append(o)
        elif "done" in o:
            done = o
    if rc != 0 or done is None or done["done"] != len(cases):
        raise ToolError("id-type replay did not complete (rc=%s)" % rc)
    if record:
        for o in mism:
            c = cases[o["b"]]
            ctx.violation("idtypes:%s:%s" % (o["mismatch"], c[min(o["step"], len(c) - 1)]["op"]),
                          "id types, step %d: %s expected %s got %s" % (o["step"], o["mismatch"], json.dumps(o["exp"])[:200], json.dumps(o["got"])[:300]),
                          {"module": "idtypes", "case": c, "mismatch": o})
        ctx.cov["traces_validated_against_impl"] += len(cases)
        ctx.cov["evaluations"] += done["steps"]
    return mism


def _idtypes(ctx, res):
    """C43 'every minted id has the resource's id type': the full product (declared id type) x (kinds of the supplied ids) for creation
    with initial supply and for mint after creation, incl. RUID entry points; never sampled, same in quick and thorough."""
    r = tlc(SPEC, "IdTypes", cfg="MCIdTypes", workers=1, heap="1g")
    tlc_must_pass(r, "IdTypes", required_actions=["Create", "CreateRuid", "Mint", "MintRuid"])
    ctx.add_tlc(r)
    cases = r.printed("B")
    if len(cases) < 300:
        raise ToolError("id-type cases: only %d generated" % len(cases))
    refused = sum(1 for c in cases for s in c if not s["ok"])
    if not any(s["op"] == "create" and not s["ok"] and s["err"] == "NonFungibleIdTypeDoesNotMatch" for c in cases for s in c):
        raise ToolError("vacuous id-type set: no refused creation")
    _idtypes_replay(ctx, cases)
    # binding: a refusal turned into an acceptance in the expectation must be reported
    bad = json.loads(json.dumps(next(c for c in cases if c[0]["op"] == "create" and not c[0]["ok"] and c[0]["d"] == "Integer")))
    bad[0]["ok"] = True
    if not _idtypes_replay(ctx, [bad], record=False):
        raise ToolError("self-test: corrupted id-type expectation not reported")
    ctx.sample({"id_type_case": next(c for c in cases if len(c) == 2 and not c[1]["ok"])})
    res["id_type_cases"] = len(cases)
    res["id_type_refusals_predicted"] = refused
    res["distinct_nontrivial"] += len(cases)
    res["rule"] += (" ID TYPES (never sampled): IdTypes.tla enumerates the full product (declared id type Integer / String / Bytes / RUID) x (kinds of the "
                    "supplied ids: every sequence of 0..2 ids over Integer / String / Bytes / explicit RUID) for create_with_initial_supply, "
                    "create_ruid_with_initial_supply, and for mint / mint_ruid after every successful creation (%d cases, %d predicted refusals: "
                    "NonFungibleIdTypeDoesNotMatch, NonFungibleLocalIdProvidedForRUIDType, InvalidNonFungibleIdType); TLC checks TypeSafe (every stored id "
                    "has the declared type), Refused, Accepted; every case is executed on a real ledger and the outcome, error class, the declared "
                    "IdType field and EVERY id stored (data entries of the resource manager and the holder's vault) are compared, with the id type of "
                    "each stored id checked against the declared one." % (len(cases), refused))


def C43(ctx):
    q = ctx.quick
    behs = _run(ctx,
                [("MCLedgerNF", {"MaxTx": 2 if q else 3}, NF_OPS)],
                [("bnd", "BndLedgerH" if q else "BndLedgerAll", 0, 0, None),
                 ("sim", "SimLedgerNF", 500 if q else 10000, 20, None)] +
                ([] if q else [("exh", "GenLedgerTinyHist", 0, 0, None), ("sim", "SimLedgerAll", 4000, 12, None)]))
    res = _finish(ctx, behs,
                   "S: TLC checks on all histories of <= 2/3 transactions of <= 3 instructions over an integer-id and a RUID resource "
                   "(3 ids each; mint, mint of a wrongly typed id, RUID mint, burn, burn in account, update data of a mutable and an "
                   "immutable field of a 4-field data type in mixed order (a, c immutable; b, d mutable; distinct value per field), of an unknown field name, failing transactions) LiveSubsetEver, HeldIdsAreLive, MintedOnce (history counter), EverMonotone, "
                   "MintFresh, RevertExact (a failed mint does not consume the id), DataChangeRestricted, UpdateOnlyLive. G: %(n)d model "
                   "histories (%(txs)d transactions; thorough: all histories of 3 transactions of a tiny instance incl. burn-then-remint; seeded "
                   "histories of 4 transactions) replayed on the real ledger; after every transaction the data entry of every id of the "
                   "universe is read back (live with fields / locked tombstone / absent), with vault id sets and supplies. "
                   "distinct = distinct histories with >= 2 instructions." + BND_RULE,
                   extra_samples=[lambda b: any(t["err"] == "KeyValueEntryLocked" for t in b["txs"])],
                   ops_ok=["MintNF", "MintRuid", "MintSingleRuid", "Burn", "BurnNFInAccount", "BurnNFAmountInAccount", "RecallNFAmount",
                           "WithdrawNFAmount", "UpdateNFData", "DepositBatch", "TakeAll", "WithdrawNF"],
                   errs=["NonFungibleAlreadyExists", "KeyValueEntryLocked", "NonFungibleNotFound", "UnknownMutableFieldName",
                         "NonFungibleIdTypeDoesNotMatch", "InvalidNonFungibleIdType", "MissingId"])
    _idtypes(ctx, res)
    return res


def C04(ctx):
    q = ctx.quick
    behs = _run(ctx,
                [("MCLedgerHist", {"MaxTx": 2 if q else 3}, HIST_OPS)],
                [("bnd", "BndLedgerC04" if q else "BndLedgerAll", 0, 0, None),
                 ("sim", "SimLedgerHist", 300 if q else 6000, 24, None)] +
                ([] if q else [("sim", "SimLedgerNF", 3000, 20, None)]))
    res = _finish(ctx, behs,
                  "S: TLC checks on all histories of <= 2/3 transactions (<= 3 instructions each, failing ones included) SupplyMatches "
                  "(recorded supply = sum of all vaults incl. locked parts after every history), InTxSupply, NonNegative, "
                  "CommittedIsPre, NoLocksOutsideTx. G: %(n)d model histories (%(txs)d transactions, %(ok)d committed successfully) replayed; "
                  "after EVERY transaction every vault balance field, every non-fungible vault's amount field AND its id index, and every "
                  "TotalSupply field are compared with the model. distinct = distinct histories with >= 2 instructions." + BND_RULE,
                  ops_ok=ENTRY_POINTS + ["Withdraw", "WithdrawNF", "Deposit", "DepositBatch", "TakeAll"],
                  errs=["InsufficientBalance", "DropNonEmptyBucket", "NotEnoughAmount"])
    _trace_supply(ctx, res, conservation=False)
    return res


# ---------------------------------------------------------------------------------------------
QUICK_SCENARIOS = "transfer_xrd,fungible_resource,non_fungible_resource,account_authorized_depositors,metadata"


def _record(ctx, mode, args, name):
    p = ctx.wpath(name)
    rc, out = vh(BIN, ["snap", mode] + args, timeout=7200)
    evs = [json.loads(l) for l in out.splitlines() if l.startswith('{"a"')]
    if not evs or evs[-1].get("a") != "end":
        raise ToolError("recording %s did not complete" % mode)
    write_ndjson(p, evs)
    return p, evs


def _corrupt(evs, how):
    """a copy of a recorded trace prefix with one field changed; returns (events, index of the changed event) or None"""
    evs = json.loads(json.dumps(evs))
    for i, e in enumerate(evs):
        if e.get("a") != "tx":
            continue
        if how == "balance":
            rows = [r for r in e["chg"] if r[2] == 0 and r[3]["l"] and r[3]["l"][0] < 9999]
            if rows:
                rows[0][3]["l"][0] += 1          # one atto more in a vault
                return evs[:i + 1] + [{"a": "end"}], i
        elif how == "burn" and e["burn"]:
            e["burn"] = e["burn"][1:]            # a burn event is dropped: the fee burn is unaccounted
            return evs[:i + 1] + [{"a": "end"}], i
        elif how == "supply" and e["sup"]:
            l = e["sup"][0][1]["l"]
            if l and l[0] < 9999:
                l[0] += 1
                return evs[:i + 1] + [{"a": "end"}], i
        elif how == "ids" and any(r[2] == 1 and r[4] for r in e["chg"]):
            row = [r for r in e["chg"] if r[2] == 1 and r[4]][0]
            row[4] = row[4][1:]                  # a non-fungible id disappears while the amount stays
            return evs[:i + 1] + [{"a": "end"}], i
    return None


def _trace_supply(ctx, res, conservation):
    """T: full database scans after every committed transaction of histories the model did not choose
    (seeded random transactions incl. epoch changes; the repository's transaction scenarios), validated by
    TraceLedgerSupply.tla with big integers."""
    q = ctx.quick
    jobs = []
    if q:
        jobs.append(("random", ["seed=%d" % ctx.seed, "n=180", "full=25"], "snap-random.ndjson"))
        jobs.append(("scenarios", ["full=20", "names=" + QUICK_SCENARIOS], "snap-scenarios.ndjson"))
    else:
        for k in range(3):
            jobs.append(("random", ["seed=%d" % (ctx.seed + k), "n=700", "full=50"], "snap-random%d.ndjson" % k))
        jobs.append(("scenarios", ["full=40"], "snap-scenarios.ndjson"))
    recs = _parallel([(_record, (ctx, m, a, n), {}) for m, a, n in jobs])
    # binding self-test: corrupted recordings must be rejected at the corrupted event
    corrupted = []
    for how in (["balance", "burn"] if q else ["balance", "burn", "supply", "ids"]):
        c = _corrupt(recs[0][1][:120], how)
        if c is None:
            raise ToolError("self-test: nothing to corrupt (%s)" % how)
        p = ctx.wpath("snap-corrupt-%s.ndjson" % how)
        write_ndjson(p, c[0])
        corrupted.append((how, p, c[1]))

    def val(p):
        return validate_trace(SPEC, "TraceLedgerSupply", p, heap="3g", timeout=3000)

    vres = _parallel([(val, (p,), {}) for p, _ in recs] + [(val, (p,), {}) for _, p, _ in corrupted])
    txs = okc = 0
    names = []
    for (mode, args, name), (p, evs), (ok, idx, r) in zip(jobs, recs, vres[:len(recs)]):
        end = evs[-1]
        txs += end["txs"]
        okc += end["ok"]
        names += end.get("scenarios", [])
        ctx.cov["evaluations"] += len(evs)
        for e in evs:
            if e["a"] == "panic":
                ctx.violation("ledger:panic:%s" % mode, "the engine panicked on a random manifest: %s" % e["msg"][:200], e)
        if ok:
            ctx.cov["traces_validated_against_impl"] += 1
        else:
            lo = max(0, (idx or 1) - 2)
            ctx.violation("ledger:snapshot-trace:%s" % mode,
                          "database snapshot trace (%s) rejected at event %s: supply / vault sums / event replay / conservation"
                          % (mode, idx), {"trace_module": "TraceLedgerSupply", "first_unmatched": idx, "args": args,
                                          "context": evs[lo:(idx or 1)], "tlc_violated": r.violated})
        _rm(p)
    for (how, p, at), (ok, idx, r) in zip(corrupted, vres[len(recs):]):
        _rm(p)
        if ok or idx != at + 1:
            raise ToolError("self-test: corrupted snapshot trace (%s at event %d) gave accepted=%s first_unmatched=%s" % (how, at + 1, ok, idx))
    tx_ev = next(e for e in recs[0][1] if e["a"] == "tx" and e["ok"] and e["mint"])
    ctx.sample({"db_snapshot_event": {k: (v if k not in ("chg", "full") else "(%d rows)" % len(v if k == "chg" else v["vaults"])) for k, v in tx_ev.items()}})
    res["snapshot_transactions"] = txs
    res["snapshot_transactions_committed_successfully"] = okc
    res["scenarios"] = names
    res["snapshot_selftest_corruptions_rejected"] = len(corrupted)
    res["distinct_nontrivial"] += txs
    res["rule"] += (" T: %d committed transactions the model did not choose (seeded random manifests over 5 resources of divisibility 2/0/18, "
                    "tracked and untracked, integer and RUID non-fungibles, fees from the faucet or an account, a system transaction ending "
                    "the epoch with emissions every 17th; transaction scenarios %s) with a scan of the WHOLE database after every one; "
                    "TraceLedgerSupply.tla (big integers) checks supply = sum of vaults, non-negativity, non-fungible amount = number of ids, "
                    "event replay of every vault and supply, and per-transaction conservation incl. XRD fee burn and emission mints; "
                    "%d corrupted recordings rejected. distinct adds these transactions"
                    % (txs, ", ".join(names) if names else "(none)", len(corrupted)))
    return


PROPS = {
    "C09": dict(fn=C09, level="model_checking", design_ref="5/C09",
                technique="TLA+ spec Ledger (worktop, buckets, proofs, vaults as one state machine): TLC exhaustive check + model manifests replayed through LedgerSimulator",
                text="Ledger.tla has one action per manifest instruction, written after worktop.rs / the bucket and vault blueprints / the "
                     "intent processor; a failing instruction reverts the transaction. TLC checks that inside a transaction nothing vanishes "
                     "or is duplicated (vaults + worktop + buckets = before + minted - burned, ids in exactly one container), that a "
                     "transaction only succeeds with an empty worktop and no bucket left, that takes yield exactly the requested amount and "
                     "fail beyond the worktop content, that assertions (V1 worktop assertions and the V2 resource-constraint assertions on the worktop, on "
                     "a bucket and on the buckets returned by the next call) pass exactly when they hold, that consumed buckets/proofs cannot be "
                     "used. Every manifest the model generates is built with ManifestBuilder and executed on a real ledger; the model's "
                     "prediction (success / failing instruction / error class / every balance, id set and supply) is compared with the "
                     "receipt and the database.",
                note="Trusted: TLC, the argument concretisation (amount i -> i*10^(18-d)/2 attos, integer ids), the coarse error-class mapping, "
                     "prefix probing for the failure index. Non-fungible take-by-amount (order dependent) and auth-zone proof composition are "
                     "not modelled. Statically invalid manifests are executed unvalidated (runtime BucketNotFound/ProofNotFound)."),
    "C03": dict(fn=C03, level="model_checking", design_ref="5/C03",
                technique="TLA+ spec Ledger: conservation as an action property over whole transactions (TLC) + model manifests replayed with predicted vault balances and supplies",
                text="TLC checks on every commit transition of the exhaustive instances that for every resource the net change of all vault "
                     "balances equals minted - burned, that the recorded supply of tracked resources moves by exactly that amount, the same "
                     "for id sets, and that failed transactions leave the ledger unchanged. Model-generated manifests and histories with mint, "
                     "burn, burn-in-account, recall, withdraw and deposit are executed on a real ledger and the predicted balance of every "
                     "account vault and every TotalSupply field is read back from the database after each transaction.",
                note="Trusted: TLC, the harness projection (vault Balance fields, NonFungibleIndex, TotalSupply fields). Fees are paid by the "
                     "faucet; XRD fee burn / emissions are covered by the database-snapshot trace validation."),
    "C10": dict(fn=C10, level="model_checking", design_ref="5/C10",
                technique="TLA+ spec Ledger with max-of-locks containers: TLC exhaustive interleavings of proof creation/clone/drop and withdrawals + replay through real manifests",
                text="Containers are [liquid, bag of locked amounts | id -> lock count]; Lock(n) needs n <= liquid + Max(locked) and moves "
                     "max(0, n - Max(locked)); Unlock returns oldMax - newMax. A proof carries its evidence: the containers it locked and the part locked in each; "
                     "the auth zone composes proofs from its base proofs (per container the MAX over the base proofs, summed over containers; each container "
                     "locked once up to that quota, in zone order). TLC checks over all interleavings that the locks of a container "
                     "are exactly the live proofs on it, that the proven amount/ids stay in the container, that proofs never change a "
                     "container's total, that only liquid funds leave by withdraw/burn/recall/take, that everything is liquid again without "
                     "proofs, and that accepted amounts respect divisibility. The same interleavings are generated as manifests "
                     "(create_proof_from_account_of_amount / _of_non_fungibles, create_proof_from_bucket_*, pop/push, clone, drop, "
                     "withdraw, burn, recall, take, return, deposit) and executed on a real ledger.",
                note="Trusted: as C09. Non-fungible composition by amount (order dependent) is not modelled. A zone holding both fungible and non-fungible proofs makes "
                     "create_proof_from_auth_zone_* trap in native code (observed and modelled as failure class Trap). Mid-transaction amounts are observed through the outcomes of later instructions (withdraw/take/recall "
                     "of liquid+1 fails, of liquid succeeds) and final balances, not by reading vault state inside the transaction."),
    "C43": dict(fn=C43, level="model_checking", design_ref="5/C43",
                technique="TLA+ spec Ledger (non-fungible ids, tombstones, mutable fields) over transaction histories: TLC exhaustive + histories replayed on a real ledger",
                text="Per non-fungible resource the model keeps the live ids with their data and the set of ids ever minted. TLC checks over "
                     "all bounded histories incl. failed transactions that an id is minted at most once ever (also after burn; a failed "
                     "mint does not consume it), that minted ids have the resource's id type (a string id for an integer resource and an "
                     "explicit id for a RUID resource are rejected; IdTypes.tla: the full product declared type x supplied id kinds for creation with initial "
                     "supply and for mint), and that data changes only through UpdateData of a live id and a "
                     "mutable field, changing exactly that field. Histories are replayed on a real ledger (integer and RUID resources) whose data type has four "
                     "fields in mixed order (immutable, mutable, immutable, mutable) with a different value in each; EVERY field of every data entry "
                     "(live / locked tombstone / absent) is read back after every transaction.",
                note="Trusted: as C09; RUID ids are bound to the model's ordinals through the order of ids in the mint event."),
    "C04": dict(fn=C04, level="model_checking", design_ref="5/C04",
                technique="TLA+ spec Ledger over histories: supply = sum of vaults as a state invariant (TLC) + histories replayed + full database snapshots validated by TraceLedgerSupply",
                text="TLC checks after every bounded history (failed transactions included) that every tracked supply equals the sum of all "
                     "vaults, that no balance is negative and that no lock survives a transaction. Model histories are replayed on a real "
                     "ledger comparing every vault and supply after every transaction. For histories the model did not choose (seeded random "
                     "transactions and the repository's transaction scenarios) the harness scans the whole database after every committed "
                     "transaction and TraceLedgerSupply.tla checks supply = sum of vaults, non-negativity, amount = number of ids and the "
                     "event replay with big integers.",
                note="Trusted: TLC, the harness database scan (own projection over all vault nodes and resource managers), BigInt.tla."),
}

"""Manifest column: Constraint (C37), ManifestLifecycle (C36), Movements (C38).

Harness binary: vh_manifest (harness/src/bin/vh_manifest/*).  Specifications: spec/Constraint,
spec/ManifestLifecycle, spec/Movements."""
import copy, json, os, time
import core
from core import tlc, tlc_must_pass, vh, ToolError, write_ndjson, read_ndjson
from props_codec import _Viol, validate_calls_why

BIN = "vh_manifest"


def _run_replay(ctx, module_args, cases, name):
    """feed cases to `vh_manifest <module> <mode>`; returns (mismatch lines, counts, done)"""
    p = ctx.wpath(name + ".ndjson")
    write_ndjson(p, cases)
    rc, out = vh(BIN, module_args, stdin_path=p)
    os.unlink(p)
    mism, counts, done = [], {}, None
    for line in out.splitlines():
        o = json.loads(line)
        if "done" in o:
            done = o
        elif "counts" in o:
            counts = o["counts"]
        elif "mismatch" in o:
            mism.append(o)
    if done is None or done["done"] != len(cases):
        raise ToolError("replay %s did not complete" % " ".join(module_args))
    ctx.cov["traces_validated_against_impl"] += len(cases)
    ctx.cov["evaluations"] += done["steps"]
    return mism, counts, done


# ---------------------------------------------------------------------------------------------
# C37 Constraint

def _c37_key(case, what):
    c = case.get("c") or {}
    kind = (case.get("b") or {}).get("kind") or ("f" if "fungible" in what and "non-" not in what else "nf")
    if (c.get("t") == "general" and c["allow"]["k"] == "list" and not c["allow"]["ids"] and not c["req"]
            and not (c["hi"]["k"] == "incl" and c["hi"]["a"] == 0) and kind == "f"
            and what in ("is_valid_for (fungible)", "validate verdict after normalize")):
        return "constraint:fungible:empty-allowlist-positive-upper"
    return "constraint:%s:%s:%s" % (case["m"], c.get("t", "multi"), what.replace(" ", "-"))


def C37(ctx):
    q = ctx.quick
    viol = _Viol(ctx)
    consts = ({"CAmts0": "{0, 2, 4, 8}", "FAmts": "{0, 1, 2, 4, 8}", "Ids": "{1, 2, 3}"} if q else
              {"CAmts0": "{0, 1, 2, 4, 6, 8, 12}", "FAmts": "{0, 1, 2, 4, 6, 8, 12}", "Ids": "{1, 2, 3}"})
    t0 = time.time()
    g = tlc("Constraint", "GenConstraint", workers=8, coverage=False, consts=consts, timeout=3000)
    tlc_must_pass(g, "GenConstraint")
    ctx.add_tlc(g)
    cases = g.printed("B")
    if len(cases) != g.distinct:
        raise ToolError("GenConstraint printed %d cases for %d states" % (len(cases), g.distinct))
    pairs = [c for c in cases if c["m"] == "pair"]
    multi = [c for c in cases if c["m"] == "multi"]
    cons = [c for c in cases if c["m"] == "constraint"]
    # non-vacuity of the universe
    need = [("valid satisfied pairs of both kinds", {c["b"]["kind"] for c in pairs if c["valid"] and c["sat"]} == {"f", "nf"}),
            ("valid unsatisfied pairs", any(c["valid"] and not c["sat"] for c in pairs)),
            ("every constraint form", {c["c"]["t"] for c in cons} == {"nonzero", "exact", "atleast", "exactnf", "atleastnf", "general"}),
            ("constraints valid for exactly one kind", any(c["validf"] != c["validnf"] for c in cons)),
            ("multi-resource cases of both modes and verdicts", {(c["only"], c["sat"]) for c in multi} == {(True, True), (True, False), (False, True), (False, False)})]
    for what, ok in need:
        if not ok:
            raise ToolError("vacuous Constraint universe: no %s" % what)
    # G (1): unit level, every case
    mism, counts, _ = _run_replay(ctx, ["constraint", "replay"], cases, "gc")
    for o in mism:
        c = cases[o["b"]]
        viol.add(_c37_key(c, o["mismatch"]), "unit: %s: spec %s, code %s; case %s" % (o["mismatch"], o["exp"], o["got"], json.dumps(c)[:300]),
                 {"level": "unit", "case": c, "mismatch": o})
    core.log("GenConstraint + unit replay: %d cases, %.1fs" % (len(cases), time.time() - t0)); t0 = time.time()
    # G (2): ledger level, stratified sample of valid pairs + multi-resource cases
    per = 6 if q else 60
    strata = {}
    for c in pairs:
        if c["valid"]:
            strata.setdefault((c["c"]["t"], c["b"]["kind"], c["sat"], c["c"].get("allow", {}).get("k"), c["c"].get("lo", {}).get("k")), []).append(c)
    sample = []
    for k in sorted(strata, key=str):
        sample += ctx.rng.sample(strata[k], min(per, len(strata[k])))
    sample += ctx.rng.sample(multi, min(len(multi), 120 if q else 2000))
    if os.environ.get("VERIF_CORRUPT"):     # demonstration of binding
        bad = next(c for c in sample if c["m"] == "pair" and c["sat"])
        bad["sat"] = False
        core.log("VERIF_CORRUPT: flipped the expected verdict of one ledger case")
    lm, lcounts, ldone = _run_replay(ctx, ["constraint", "ledger"], sample, "gl")
    for o in lm:
        c = sample[o["b"]]
        viol.add(_c37_key(c, o["mismatch"]), "ledger: %s: spec %s, code %s; case %s" % (o["mismatch"], o["exp"], o["got"], json.dumps(c)[:300]),
                 {"level": "ledger", "case": c, "mismatch": o})
    if not any(k.endswith(":commit") for k in lcounts) or not any(k.endswith(":assertion") for k in lcounts):
        raise ToolError("ledger replay saw no commit / no assertion failure: %s" % lcounts)
    core.log("ledger replay: %d cases, %d transactions, %.1fs" % (len(sample), ldone["steps"], time.time() - t0))
    # binding self-test: wrong expectations must be reported
    s1 = copy.deepcopy(next(c for c in pairs if c["valid"] and c["sat"] and c["c"]["t"] == "general")); s1["sat"] = False
    s2 = copy.deepcopy(next(c for c in cons if c["validnf"] and not c["validf"])); s2["validf"] = True
    s3 = copy.deepcopy(next(c for c in multi if c["only"] and not c["sat"])); s3["sat"] = True
    for args, case, kind in ((["constraint", "replay"], s1, "validate verdict"), (["constraint", "replay"], s2, "is_valid_for (fungible)"),
                             (["constraint", "replay"], s3, "validate_only verdict"), (["constraint", "ledger"], s3, "ledger verdict (multi_only)")):
        cov = copy.deepcopy(ctx.cov)
        m, _, _ = _run_replay(ctx, args, [case], "selftest")
        ctx.cov.update(cov)
        if not any(o["mismatch"] == kind for o in m):
            raise ToolError("binding self-test failed: corrupted expectation '%s' not reported" % kind)
    ctx.sample({"pair_case": next(c for c in pairs if c["valid"] and c["c"]["t"] == "general" and c["c"]["req"] and c["sat"])})
    ctx.sample({"constraint_case": next(c for c in cons if c["c"]["t"] == "general" and c["validnf"] and not c["validf"])})
    ctx.sample({"multi_case": next(c for c in multi if c["only"] and not c["sat"])})
    ctx.sample({"ledger_outcomes": lcounts})
    return {"exhaustive": True, "distinct_nontrivial": len({json.dumps(c, sort_keys=True) for c in cases}),
            "constraints": len(cons), "pairs": len(pairs), "multi_resource_cases": len(multi),
            "ledger_cases": len(sample), "ledger_transactions": ldone["steps"],
            "unit_mismatch_counts": counts, "violation_counts": dict(viol.seen),
            "rule": "S+G: TLC enumerates every constraint over amounts %s (plus -1/2; scale 4 = one whole unit, 1 = one atto) and ids %s "
                    "(all six forms; General = every combination of required ids, lower bound incl. NonZero, upper bound incl. Unbounded, "
                    "Any / every allowlist), every fungible amount of %s and every id set, and 6 750 three-resource assertions "
                    "(only / include); the laws of Constraint.tla are invariants and every state is printed with ValidFor / Sat.  Unit "
                    "level: every case through the real is_valid_for, validate_fungible / validate_non_fungible (before and after "
                    "normalize) and ManifestResourceConstraints::validate.  Ledger level: a stratified sample (per constraint form x "
                    "resource kind x verdict x bound kinds) of valid pairs, each as 5 V2 manifests (ASSERT_WORKTOP_RESOURCES_ONLY / "
                    "_INCLUDE, ASSERT_NEXT_CALL_RETURNS_ONLY / _INCLUDE, ASSERT_BUCKET_CONTENTS), plus multi-resource worktop assertions, "
                    "executed on a LedgerSimulator: commit <=> Sat, failure must be the assertion error.  exhaustive = the unit level "
                    "covers the whole bounded universe; distinct = distinct cases" % (consts["CAmts0"], consts["Ids"], consts["FAmts"])}


PROPS = {
    "C37": dict(fn=C37, level="model_checking", design_ref="5/C37",
                technique="TLA+ spec Constraint (Sat, ValidFor, Normalize, the run-time algorithm Validate): TLC exhaustive over a bounded "
                          "universe of constraints x balances + replay of every case into the real constraint code (unit) and of a "
                          "stratified sample as V2 manifests on a LedgerSimulator",
                text="Constraint.tla gives the mathematical meaning Sat(c, b) of the six constraint forms for fungible amounts and "
                     "non-fungible id sets, the documented validity rules ValidFor(c, kind), the normalisation and a transcription of "
                     "the run-time algorithm.  TLC checks on every constraint / balance of the universe: the algorithm decides Sat for "
                     "valid constraints, valid constraints are satisfiable, normalisation preserves the accepted set, keeps validity and "
                     "yields the documented canonical form, and validate_only / validate_includes over several resources.  Every case "
                     "is then replayed: is_valid_for must equal ValidFor, validate_* must equal Sat for valid constraints, validate_* "
                     "after the real normalize must equal Sat for every constraint the code declares valid; a sample runs as real "
                     "assertion instructions on a ledger (commit <=> Sat).",
                note="Amounts live on an order-preserving scale (1 atto, halves, wholes up to 3); Decimal extremes (MAX, overflow) are "
                     "not covered.  Constraints invalid for the resource kind are only checked for 'no panic' (static validation "
                     "rejects them).  Known disagreement recorded by this check: General constraints with an EMPTY allowlist and a "
                     "positive / unbounded upper bound are declared valid for fungible resources (the documentation allows the empty "
                     "allowlist only with upper bound zero); normalize() then shrinks the upper bound to 0 and changes the accepted "
                     "amounts."),
}

"""Manifest column: Constraint (C37), ManifestLifecycle (C36), Movements (C38).

Harness binary: vh_manifest (harness/src/bin/vh_manifest/*).  Specifications: spec/Constraint,
spec/ManifestLifecycle, spec/Movements."""
import copy, json, os, time
import core
from core import tlc, tlc_must_pass, vh, ToolError, write_ndjson, read_ndjson
from props_codec import _Viol, validate_calls_why

BIN = "vh_manifest"


def _run_replay(ctx, module_args, cases, name):
    """feed cases to `vh_manifest <module> <mode>`; returns (mismatch lines, counts, done)"""
    p = ctx.wpath(name + ".ndjson")
    write_ndjson(p, cases)
    rc, out = vh(BIN, module_args, stdin_path=p)
    os.unlink(p)
    mism, counts, done = [], {}, None
    for line in out.splitlines():
        o = json.loads(line)
        if "done" in o:
            done = o
        elif "counts" in o:
            counts = o["counts"]
        elif "mismatch" in o:
            mism.append(o)
    if done is None or done["done"] != len(cases):
        raise ToolError("replay %s did not complete" % " ".join(module_args))
    ctx.cov["traces_validated_against_impl"] += len(cases)
    ctx.cov["evaluations"] += done["steps"]
    return mism, counts, done


# ---------------------------------------------------------------------------------------------
# C37 Constraint

def _c37_key(case, what):
    c = case.get("c") or {}
    kind = (case.get("b") or {}).get("kind") or ("f" if "fungible" in what and "non-" not in what else "nf")
    if (c.get("t") == "general" and c["allow"]["k"] == "list" and not c["allow"]["ids"] and not c["req"]
            and not (c["hi"]["k"] == "incl" and c["hi"]["a"] == 0) and kind == "f"
            and what in ("is_valid_for (fungible)", "validate verdict after normalize")):
        return "constraint:fungible:empty-allowlist-positive-upper"
    return "constraint:%s:%s:%s" % (case["m"], c.get("t", "multi"), what.replace(" ", "-"))


def C37(ctx):
    q = ctx.quick
    viol = _Viol(ctx)
    consts = ({"CAmts0": "{0, 2, 4, 8}", "FAmts": "{0, 1, 2, 4, 8}", "Ids": "{1, 2, 3}"} if q else
              {"CAmts0": "{0, 1, 2, 4, 6, 8, 12}", "FAmts": "{0, 1, 2, 4, 6, 8, 12}", "Ids": "{1, 2, 3}"})
    t0 = time.time()
    g = tlc("Constraint", "GenConstraint", workers=8, coverage=False, consts=consts, timeout=3000)
    tlc_must_pass(g, "GenConstraint")
    ctx.add_tlc(g)
    cases = g.printed("B")
    if len(cases) != g.distinct:
        raise ToolError("GenConstraint printed %d cases for %d states" % (len(cases), g.distinct))
    pairs = [c for c in cases if c["m"] == "pair"]
    multi = [c for c in cases if c["m"] == "multi"]
    cons = [c for c in cases if c["m"] == "constraint"]
    bks = [c for c in cases if c["m"] == "buckets"]
    # non-vacuity of the universe
    need = [("valid satisfied pairs of both kinds", {c["b"]["kind"] for c in pairs if c["valid"] and c["sat"]} == {"f", "nf"}),
            ("valid unsatisfied pairs", any(c["valid"] and not c["sat"] for c in pairs)),
            ("every constraint form", {c["c"]["t"] for c in cons} == {"nonzero", "exact", "atleast", "exactnf", "atleastnf", "general"}),
            ("constraints valid for exactly one kind", any(c["validf"] != c["validnf"] for c in cons)),
            ("multi-resource cases of both modes and verdicts", {(c["only"], c["sat"]) for c in multi} == {(True, True), (True, False), (False, True), (False, False)})]
    two_nf = lambda c: sum(1 for b in c["bseq"] if b["r"] == 3 and b["bal"]["ids"]) >= 2
    need += [("returned-bucket sequences of both modes and verdicts", {(c["only"], c["sat"]) for c in bks} == {(True, True), (True, False), (False, True), (False, False)}),
             ("calls returning two non-empty buckets of one non-fungible resource, accepted and rejected", {c["sat"] for c in bks if two_nf(c) and c["cs"][2]} == {True, False}),
             ("calls returning two buckets of one fungible resource", any(sum(1 for b in c["bseq"] if b["r"] == 1 and b["bal"]["a"] > 0) >= 2 and c["cs"][0] and c["sat"] for c in bks)),
             ("returned empty buckets", any(any(b["bal"].get("a") == 0 or b["bal"].get("ids") == [] for b in c["bseq"]) for c in bks))]
    for what, ok in need:
        if not ok:
            raise ToolError("vacuous Constraint universe: no %s" % what)
    # G (1): unit level, every case
    mism, counts, _ = _run_replay(ctx, ["constraint", "replay"], cases, "gc")
    for o in mism:
        c = cases[o["b"]]
        viol.add(_c37_key(c, o["mismatch"]), "unit: %s: spec %s, code %s; case %s" % (o["mismatch"], o["exp"], o["got"], json.dumps(c)[:300]),
                 {"level": "unit", "case": c, "mismatch": o})
    core.log("GenConstraint + unit replay: %d cases, %.1fs" % (len(cases), time.time() - t0)); t0 = time.time()
    # G (2): ledger level, stratified sample of valid pairs + multi-resource cases
    per = 3 if q else 60
    strata = {}
    for c in pairs:
        if c["valid"]:
            strata.setdefault((c["c"]["t"], c["b"]["kind"], c["sat"], c["c"].get("allow", {}).get("k"), c["c"].get("lo", {}).get("k")), []).append(c)
    sample = []
    for k in sorted(strata, key=str):
        sample += ctx.rng.sample(strata[k], min(per, len(strata[k])))
    # exact ties and their neighbours are never subsampled: balance amount equal to / next to a bound of the constraint,
    # id set equal to / one id away from the required, allowed or exact id set, empty and full balances
    amts = sorted({c["b"]["a"] for c in pairs if c["b"]["kind"] == "f"})
    near = lambda x, y: y in amts and x in amts and abs(amts.index(x) - amts.index(y)) <= 1
    def boundary(c):
        k, b = c["c"], c["b"]
        if not c["valid"]:
            return False
        bounds = [k["a"]] if k["t"] in ("exact", "atleast") else ([x["a"] for x in (k["lo"], k["hi"]) if x["k"] == "incl"] if k["t"] == "general" else [])
        if b["kind"] == "f":
            simple = k["t"] != "general" or (k["allow"]["k"] == "any" and not k["req"])
            return simple and (k["t"] == "nonzero" or k.get("lo", {}).get("k") == "nonzero" or any(near(b["a"], x) for x in bounds) or not bounds)
        n = len(b["ids"])
        sets = [k[f] for f in ("ids", "req") if f in k] + ([k["allow"]["ids"]] if k.get("allow", {}).get("k") == "list" else [])
        close = any(len(set(b["ids"]) ^ set(x)) <= 1 for x in sets)
        tie = any(abs(4 * n - x) <= 4 for x in bounds)
        if k["t"] == "general":     # the general form has the largest product: keep exact coincidences only
            return (any(set(b["ids"]) == set(x) for x in sets) and any(4 * n == x for x in bounds)
                    and len(k["req"]) <= 1 and (k["allow"]["k"] == "any" or len(k["allow"]["ids"]) >= 2))
        return close or tie or k["t"] == "nonzero"
    ties = [c for c in pairs if boundary(c)]
    chosen = {json.dumps(c, sort_keys=True) for c in sample}
    if len(ties) > (700 if q else 6000):
        raise ToolError("boundary product for the ledger level is unexpectedly large: %d" % len(ties))
    sample += [c for c in ties if json.dumps(c, sort_keys=True) not in chosen]
    sample += ctx.rng.sample(multi, min(len(multi), 120 if q else 2000))
    if os.environ.get("VERIF_CORRUPT"):     # demonstration of binding
        bad = next(c for c in sample if c["m"] == "pair" and c["sat"])
        bad["sat"] = False
        core.log("VERIF_CORRUPT: flipped the expected verdict of one ledger case")
    lm, lcounts, ldone = _run_replay(ctx, ["constraint", "ledger"], sample, "gl")
    for o in lm:
        c = sample[o["b"]]
        viol.add(_c37_key(c, o["mismatch"]), "ledger: %s: spec %s, code %s; case %s" % (o["mismatch"], o["exp"], o["got"], json.dumps(c)[:300]),
                 {"level": "ledger", "case": c, "mismatch": o})
    if not any(k.endswith(":commit") for k in lcounts) or not any(k.endswith(":assertion") for k in lcounts):
        raise ToolError("ledger replay saw no commit / no assertion failure: %s" % lcounts)
    core.log("ledger replay: %d cases, %d transactions, %.1fs" % (len(sample), ldone["steps"], time.time() - t0))
    # binding self-test: wrong expectations must be reported
    s1 = copy.deepcopy(next(c for c in pairs if c["valid"] and c["sat"] and c["c"]["t"] == "general")); s1["sat"] = False
    s2 = copy.deepcopy(next(c for c in cons if c["validnf"] and not c["validf"])); s2["validf"] = True
    s3 = copy.deepcopy(next(c for c in multi if c["only"] and not c["sat"])); s3["sat"] = True
    for args, case, kind in ((["constraint", "replay"], s1, "validate verdict"), (["constraint", "replay"], s2, "is_valid_for (fungible)"),
                             (["constraint", "replay"], s3, "validate_only verdict"), (["constraint", "ledger"], s3, "ledger verdict (multi_only)")):
        cov = copy.deepcopy(ctx.cov)
        m, _, _ = _run_replay(ctx, args, [case], "selftest")
        ctx.cov.update(cov)
        if not any(o["mismatch"] == kind for o in m):
            raise ToolError("binding self-test failed: corrupted expectation '%s' not reported" % kind)
    ctx.sample({"pair_case": next(c for c in pairs if c["valid"] and c["c"]["t"] == "general" and c["c"]["req"] and c["sat"])})
    ctx.sample({"constraint_case": next(c for c in cons if c["c"]["t"] == "general" and c["validnf"] and not c["validf"])})
    ctx.sample({"multi_case": next(c for c in multi if c["only"] and not c["sat"])})
    ctx.sample({"returned_buckets_case": next(c for c in bks if two_nf(c) and c["cs"][2] and c["sat"])})
    ctx.sample({"ledger_outcomes": lcounts})
    return {"exhaustive": True, "distinct_nontrivial": len({json.dumps(c, sort_keys=True) for c in cases}),
            "constraints": len(cons), "pairs": len(pairs), "multi_resource_cases": len(multi), "returned_bucket_sequences": len(bks),
            "ledger_cases": len(sample), "ledger_transactions": ldone["steps"],
            "unit_mismatch_counts": counts, "violation_counts": dict(viol.seen),
            "rule": "S+G: TLC enumerates every constraint over amounts %s (plus -1/2; scale 4 = one whole unit, 1 = one atto) and ids %s "
                    "(all six forms; General = every combination of required ids, lower bound incl. NonZero, upper bound incl. Unbounded, "
                    "Any / every allowlist), every fungible amount of %s and every id set, and 6 750 three-resource assertions "
                    "(only / include), and 28 728 assertions on what a call returned as a SEQUENCE of 1-3 buckets (7 bucket choices incl. empty ones, same / "
                    "different resources; aggregate = sum of amounts / union of ids, through AggregateResourceBalances::add_fungible / "
                    "add_non_fungible); the laws of Constraint.tla are invariants and every state is printed with ValidFor / Sat.  Unit "
                    "level: every case through the real is_valid_for, validate_fungible / validate_non_fungible (before and after "
                    "normalize) and ManifestResourceConstraints::validate.  Ledger level: a stratified sample (per constraint form x "
                    "resource kind x verdict x bound kinds) of valid pairs, each as 5 V2 manifests (ASSERT_WORKTOP_RESOURCES_ONLY / "
                    "_INCLUDE, ASSERT_NEXT_CALL_RETURNS_ONLY / _INCLUDE, ASSERT_BUCKET_CONTENTS), plus multi-resource worktop assertions, "
                    "executed on a LedgerSimulator: commit <=> Sat, failure must be the assertion error.  exhaustive = the unit level "
                    "covers the whole bounded universe; distinct = distinct cases" % (consts["CAmts0"], consts["Ids"], consts["FAmts"])}


# ---------------------------------------------------------------------------------------------
# C36 ManifestLifecycle

def C36(ctx):
    q = ctx.quick
    viol = _Viol(ctx)
    t0 = time.time()
    g = tlc("ManifestLifecycle", "GenManifestLifecycle", workers=8, coverage=False, consts={"MaxLen": 2 if q else 3}, timeout=3000)
    tlc_must_pass(g, "GenManifestLifecycle")
    ctx.add_tlc(g)
    cases = g.printed("B")
    if len(cases) != g.distinct:
        raise ToolError("GenManifestLifecycle printed %d cases for %d states" % (len(cases), g.distinct))
    kinds = {c["m"]["kind"] for c in cases}
    ops = {i["op"] for c in cases for i in c["m"]["ins"]}
    if kinds != {"v1", "v2", "sub", "system"} or len(ops) < 16 or not any(c["ok_all"] for c in cases) \
            or not any(c["ok_bab"] and not c["ok_all"] for c in cases) or not any(not c["ok_bab"] for c in cases):
        raise ToolError("vacuous lifecycle universe: kinds %s, %d ops" % (sorted(kinds), len(ops)))
    if os.environ.get("VERIF_CORRUPT"):     # demonstration of binding
        bad = next(c for c in cases if c["ok_all"] and len(c["m"]["ins"]) == 2)
        bad["ok_all"] = False
        core.log("VERIF_CORRUPT: one well-formed manifest is now expected to be ill-formed")
    mism, counts, done = _run_replay(ctx, ["lifecycle", "replay"], cases, "gm")
    for o in mism:
        c = cases[o["b"]]
        what = o["mismatch"]
        cls = "accepts-ill-formed" if "accepts an ill-formed" in what else ("lifecycle-error-at-run-time" if "id-lifecycle" in what else what.replace(" ", "-"))
        viol.add("lifecycle:%s:%s" % (c["m"]["kind"], cls), "G: %s: %s; manifest %s" % (what, json.dumps(o["got"])[:200], json.dumps(c["m"])[:400]),
                 {"case": c, "mismatch": o})
    accepted_run = sum(v for k, v in counts.items() if k.startswith("run:") and k != "run:not-run")
    if not counts.get("run:commit"):
        raise ToolError("no accepted manifest committed at run time: %s" % counts)
    core.log("GenManifestLifecycle + replay: %d manifests, %.1fs; %s" % (len(cases), time.time() - t0, {k: v for k, v in counts.items() if k.startswith("run:") or k.startswith("info")})); t0 = time.time()
    # binding self-test (G)
    s1 = copy.deepcopy(next(c for c in cases if c["ok_all"] and c["m"]["kind"] == "v2" and len(c["m"]["ins"]) == 2)); s1["ok_all"] = False
    s2 = copy.deepcopy(next(c for c in cases if c["ok_all"] and c["m"]["kind"] == "v1" and c["m"]["ins"] == [])); s2["lerr_all"] = s2["lerr_all"] + ["commit", "other"]
    for case, kind in ((s1, "accepts an ill-formed manifest"), (s2, "id-lifecycle error")):
        cov = copy.deepcopy(ctx.cov)
        m, _, _ = _run_replay(ctx, ["lifecycle", "replay"], [case], "selftest")
        ctx.cov.update(cov)
        if not any(kind in o["mismatch"] for o in m):
            raise ToolError("binding self-test (G) failed: '%s' not reported" % kind)
    # T: random longer manifests
    tp = ctx.wpath("lc-trace.ndjson")
    vh(BIN, ["lifecycle", "record", "seed=%d" % ctx.seed, "n=%d" % (1500 if q else 50000)], stdout_path=tp)
    evs = read_ndjson(tp)
    os.unlink(tp)
    # non-vacuity (also in the quick tier): every boundary scenario, every instruction kind and every static error class occurs
    scen = {e["scenario"] for e in evs if "scenario" in e}
    errs = {e["static"]["all"][4:] for e in evs if e["static"]["all"].startswith("err:")}
    need_errs = {"BucketNotYetCreated", "BucketAlreadyUsed", "BucketConsumedWhilstLockedByProof", "ProofNotYetCreated", "ProofAlreadyUsed",
                 "AddressReservationNotYetCreated", "AddressReservationAlreadyUsed", "NamedAddressNotYetCreated", "ChildIntentNotRegistered",
                 "DanglingBucket", "DanglingAddressReservation", "BlobNotRegistered", "InstructionNotSupportedInTransactionIntent",
                 "SubintentDoesNotEndWithYieldToParent", "ProofCannotBePassedToAnotherIntent",
                 "InstructionFollowingNextCallAssertionWasNotInvocation", "ManifestEndedWhilstExpectingNextCallAssertion"}
    ops_t = {i["op"] for e in evs for i in e["m"]["ins"]}
    inv = {tuple(x.split(":")[1:]) for x in scen if x.startswith("inv:")}
    inv_ok = {tuple(e["scenario"].split(":")[1:]) for e in evs if e.get("scenario", "").startswith("inv:") and e["static"]["all"] == "ok"}
    inv_rej = {tuple(e["scenario"].split(":")[1:]) for e in evs if e.get("scenario", "").startswith("inv:") and e["static"]["all"].startswith("err:")}
    if len(inv) < 22 * 13 or len({a for a, _ in inv_ok}) < 20 or len({a for a, _ in inv_rej}) < 15 or len({b for _, b in inv_ok}) < 13:
        raise ToolError("invalidation product incomplete: %d pairs, %d/%d invalidators with accepted/rejected follow-ups" % (
            len(inv), len({a for a, _ in inv_ok}), len({a for a, _ in inv_rej})))
    if len(scen) < 45 or not need_errs <= errs or len(ops_t) < 21:
        raise ToolError("lifecycle traffic not exhaustive over its classes: %d scenarios, missing error classes %s, %d instruction kinds" % (
            len(scen), sorted(need_errs - errs), len(ops_t)))
    accepted_scen = {e["scenario"] for e in evs if "scenario" in e and e["static"]["all"] == "ok" and e["run"]["cls"] == "commit"}
    if not {"take-deposit", "unlock-by-drop", "unlock-by-drop-named", "clone-both-dropped", "alloc-used", "yield-child-0", "assert-next-then-call"} <= accepted_scen:
        raise ToolError("expected well-formed scenarios did not commit: have %s" % sorted(accepted_scen))
    by = lambda pred: copy.deepcopy(next(e for e in evs if pred(e)))
    muts = []
    e = by(lambda e: e["static"]["all"].startswith("err:BucketNotYet")); e["static"]["all"] = "ok"; muts.append((e, "accept-implies-ok-all"))
    e = by(lambda e: e["static"]["all"] == "ok" and e["run"]["cls"] == "commit"); e["run"]["cls"] = "BucketNotFound"; muts.append((e, "no-lifecycle-error-at-run-time"))
    e = by(lambda e: e["static"]["babylon"].startswith("err:") and e["m"]["kind"] == "v1"); e["static"]["babylon"] = "ok"; muts.append((e, "accept-implies-ok-babylon"))
    chunks = 6 if q else 12
    bad = validate_calls_why("ManifestLifecycle", "TraceLifecycle", "TraceLifecycle", evs + [m for m, _ in muts], "C36-lc", chunks=chunks)
    for j, (m, reason) in enumerate(muts):
        if reason not in bad.get(len(evs) + j, []):
            raise ToolError("binding self-test (T) failed: corrupted event not rejected for '%s' (got %s)" % (reason, bad.get(len(evs) + j)))
    for i in sorted(bad):
        if i < len(evs):
            e = evs[i]
            for why in bad[i]:
                viol.add("lifecycle:%s:%s" % (e["m"]["kind"], why), "TraceLifecycle: '%s' fails: static %s, run %s, manifest %s" % (
                    why, json.dumps(e["static"]), json.dumps(e["run"])[:200], json.dumps(e["m"])[:400]), {"event": e, "failed": bad[i]})
    ctx.cov["traces_validated_against_impl"] += chunks
    ctx.cov["evaluations"] += len(evs)
    acc = sum(1 for e in evs if e["static"]["all"] == "ok")
    ran = {}
    for e in evs:
        ran[e["run"]["cls"]] = ran.get(e["run"]["cls"], 0) + 1
    core.log("TraceLifecycle: %d manifests (%d accepted), %.1fs; run outcomes %s" % (len(evs), acc, time.time() - t0, ran))
    ctx.sample({"manifest_case": next(c for c in cases if c["ok_all"] and len(c["m"]["ins"]) == 2 and c["m"]["kind"] == "sub")})
    ctx.sample({"manifest_case": next(c for c in cases if c["ok_bab"] and not c["ok_all"])})
    ctx.sample({"random_manifest_event": next(e for e in evs if e["static"]["all"] == "ok" and len(e["m"]["ins"]) >= 8)})
    ctx.sample({"random_manifest_event": next(e for e in evs if e["static"]["all"].startswith("err:BucketConsumedWhilst") or e["static"]["all"].startswith("err:BucketAlready"))})
    return {"exhaustive": False, "distinct_nontrivial": len({json.dumps(c["m"], sort_keys=True) for c in cases}) + len({json.dumps(e["m"], sort_keys=True) for e in evs}),
            "generated_manifests": len(cases), "generated_accepted_and_executed": accepted_run, "replay_counts": counts,
            "random_manifests": len(evs), "random_accepted": acc, "random_run_outcomes": ran, "violation_counts": dict(viol.seen),
            "rule": "S+G: TLC enumerates every instruction sequence of length <= %d over 36 abstract instructions (27 for V1 kinds; 2 bucket "
                    "ids, 2 proof ids, 1 reservation, 1 named address, 1 child, declared / undeclared blob; +3 with DROP_NAMED / DROP_AUTH_ZONE_PROOFS) for 7 kind configurations "
                    "(TransactionManifestV1, SystemTransactionManifestV1 with 0/1 pre-allocated address, TransactionManifestV2 and "
                    "SubintentManifestV2 with 0/1 child), checks that the declarative StaticOK and the incremental automaton agree under "
                    "both rule sets, and prints each with StaticOK; the harness builds the manifest from instruction structs, runs "
                    "StaticManifestInterpreter::validate under all() / cuttlefish() (and babylon_equivalent() for V1 kinds) and "
                    "executes every accepted manifest on a LedgerSimulator (subintents under a funding root intent, children as simple "
                    "subintents).  Violation directions only: accepted but not StaticOK; accepted and failing at run time with "
                    "BucketNotFound / ProofNotFound / AddressReservationNotFound / AddressNotFound / BlobNotFound / InvalidIntentIndex.  "
                    "T: first a deterministic product - 47 boundary scenarios x 7 kind configurations, and 22 invalidating instructions "
                    "(DROP_ALL / DROP_NAMED / DROP_AUTH_ZONE_* proofs, return, burn, deposit, passing or pushing or dropping each proof, using the "
                    "reservation, clone-then-drop, yields with a bucket ...) x 13 later uses of every kind of name x 3 kinds, accepted ones executed; "
                    "then seeded random manifests of 2-16 instructions (about half well-formed, the others with one injected fault: "
                    "unknown / consumed id, locked bucket, proof across intents, missing invocation after ASSERT_NEXT_CALL_RETURNS, "
                    "wrong kind) evaluated the same way and judged by TraceLifecycle.  distinct = distinct manifests" % (2 if q else 3)}


# ---------------------------------------------------------------------------------------------
# C38 Movements

def C38(ctx):
    q = ctx.quick
    viol = _Viol(ctx)
    t0 = time.time()
    r = tlc("Movements", "Movements", workers=8, consts={"MaxAmt": 2 if q else 3, "MaxSteps": 5 if q else 7}, timeout=3000)
    tlc_must_pass(r, "Movements", required_actions=["Withdraw", "UnknownCall", "Take", "TakeAll", "Return", "AssertAtLeast", "Deposit", "TryDepositOrRefund"])
    ctx.add_tlc(r)
    core.log("Movements model: %d states, %.1fs" % (r.distinct, time.time() - t0)); t0 = time.time()
    tp = ctx.wpath("mv-trace.ndjson")
    vh(BIN, ["movements", "record", "seed=%d" % ctx.seed, "n=%d" % (550 if q else 30000)], stdout_path=tp, timeout=7200)
    allev = read_ndjson(tp)
    os.unlink(tp)
    stats = next(e for e in allev if e["k"] == "stats")["stats"]
    evs = [e for e in allev if e["k"] == "run"]
    nopred = [e for e in allev if e["k"] == "noprediction"]
    if len(evs) < 100 or not any(e["state"] == 1 for e in evs):
        raise ToolError("too few successful executions recorded: %s" % stats)
    for e in nopred:
        if e["pred"]["status"] == "panic":
            stats["analyser-panics"] = stats.get("analyser-panics", 0) + 1
    core.log("movements record: %d successful runs, %.1fs; %s" % (len(evs), time.time() - t0, stats)); t0 = time.time()
    if os.environ.get("VERIF_CORRUPT"):     # demonstration of binding
        e = next(e for e in evs if e["act"]["B"]["dep"]["F"]["a"] > 0 and e["pred"]["dep"]["B"] and "F" in e["pred"]["dep"]["B"][0]["specified"]
                 and e["pred"]["dep"]["B"][0]["spec"]["F"]["hi"]["k"] == "incl")
        e["act"]["B"]["dep"]["F"]["a"] += 400
        e["act"]["B"]["net"]["F"] += 400
        core.log("VERIF_CORRUPT: account B now received 100 more F than recorded in one run")
    # the deterministic scenario product must have run (all of it, also in the quick tier)
    ok_scen = {(e["scenario"], e["state"]) for e in evs if e.get("scenario")}
    for how in ("deposit", "try_refund", "try_abort", "batch", "batch_refund", "worktop"):
        for rname in ("F", "N", "X"):
            for st in (0, 1):
                if how == "try_abort" and st == 1:
                    continue        # B refuses: the transaction fails, nothing to compare
                if ("sink:%s:%s" % (how, rname), st) not in ok_scen:
                    raise ToolError("scenario sink:%s:%s did not run successfully on ledger state %d" % (how, rname, st))
    typed = {n.split(":")[1] for n, _ in ok_scen if n.startswith("typed:")}
    need_typed = {"withdraw", "withdraw-xrd", "lock-fee-withdraw", "lock-fee-withdraw-xrd", "lock-fee-withdraw-fee-larger", "withdraw-nf",
                  "lock-fee-withdraw-nf", "lock-fee-then-withdraw", "contingent-fee-then-withdraw", "proof-then-withdraw",
                  "proof-nf-then-withdraw-nf", "burn-then-withdraw", "two-withdrawals", "locker-claim", "locker-recover", "locker-claim-and-withdraw",
                  "exact-withdraw", "exact-locker-claim", "exact-locker-recover"}
    if not need_typed <= typed:
        raise ToolError("typed account-method scenarios without a successful run: %s" % sorted(need_typed - typed))
    need_scen = {"take-equal:F", "take-less:F", "take-half:X", "take-equal:refund:X", "ids-all", "ids-some", "ids-none", "empty:take-all-deposit",
                 "empty:worktop-deposit", "empty:withdraw-no-ids", "assert-equal:contains", "assert-less:include", "assert-equal:bucket",
                 "assert-only", "return-retake", "batch-two", "unknown-source:deposit", "unknown-source:try_refund"}
    if not need_scen <= {n for n, _ in ok_scen}:
        raise ToolError("boundary scenarios without a successful run: %s" % sorted(need_scen - {n for n, _ in ok_scen}))
    # non-vacuity: the recorded predictions exercise the interesting shapes
    shapes = set()
    for e in evs:
        for a in ("A", "B", "C"):
            for d in e["pred"]["dep"][a]:
                shapes.add("unspec" if d["unspec"] else "closed")
                for rname in d["specified"]:
                    c = d["spec"][rname]
                    shapes.add("%s:%s-%s" % ("nf" if rname == "N" else "f", c["lo"]["k"], c["hi"]["k"]))
    need = {"closed", "unspec", "f:incl-incl", "f:incl-unb", "nf:incl-incl"}
    if not need <= shapes:
        raise ToolError("recorded predictions lack shapes %s (have %s)" % (sorted(need - shapes), sorted(shapes)))
    by = lambda pred: copy.deepcopy(next(e for e in evs if pred(e)))
    exact_dep = lambda e, a: (e["pred"]["dep"][a] and "F" in e["pred"]["dep"][a][0]["specified"] and e["pred"]["dep"][a][0]["spec"]["F"]["hi"]["k"] == "incl"
                              and e["act"][a]["dep"]["F"]["a"] > 0)
    muts = []
    m = by(lambda e: exact_dep(e, "B") or exact_dep(e, "C")); a = "B" if exact_dep(m, "B") else "C"
    m["act"][a]["dep"]["F"]["a"] += 400; m["act"][a]["net"]["F"] += 400; muts.append((m, "deposit-within-bounds:" + a))
    m = by(lambda e: any(e["pred"]["dep"][a] and not e["pred"]["dep"][a][0]["unspec"] and "X" not in e["pred"]["dep"][a][0]["specified"] for a in ("B", "C")))
    a = next(a for a in ("B", "C") if m["pred"]["dep"][a] and not m["pred"]["dep"][a][0]["unspec"] and "X" not in m["pred"]["dep"][a][0]["specified"])
    m["act"][a]["dep"]["X"]["a"] += 4; m["act"][a]["net"]["X"] += 4; muts.append((m, "deposit-within-bounds:" + a))
    m = by(lambda e: e["act"]["A"]["wda"]["F"] > 0); m["act"]["A"]["wda"]["F"] += 2; muts.append((m, "withdraw-as-predicted"))
    m = by(lambda e: e["act"]["A"]["wd"]["F"]["a"] > 0); m["act"]["A"]["wd"]["F"]["a"] += 4; muts.append((m, "measurement-consistent"))
    chunks = 4 if q else 12
    bad = validate_calls_why("Movements", "TraceMovements", "TraceMovements", evs + [m for m, _ in muts], "C38-mv", chunks=chunks)
    for j, (m, reason) in enumerate(muts):
        if reason not in bad.get(len(evs) + j, []):
            raise ToolError("binding self-test (T) failed: corrupted run not rejected for '%s' (got %s)" % (reason, bad.get(len(evs) + j)))
    for i in sorted(bad):
        if i < len(evs):
            e = evs[i]
            ops = sorted({s["op"] for s in e["steps"]})
            for why in bad[i]:
                key = "movements:%s" % why
                if why.startswith("deposit-within-bounds:"):
                    a = why.split(":")[1]
                    ai = "ABC".index(a)
                    dep_ops = [s["op"] for s in e["steps"] if s.get("acct") == ai and s["op"] != "deposit_worktop" or (s.get("acct") == ai and s["op"] == "deposit_worktop")]
                    refunded = all(v.get("a", 0) == 0 and not v.get("ids") for v in e["act"][a]["dep"].values())
                    if e["state"] == 1 and a == "B" and dep_ops and dep_ops[0] in ("try_refund", "batch_refund") and refunded:
                        key = "movements:try-deposit-or-refund:refund-reported-as-deposit"
                    else:
                        key = "movements:deposit-within-bounds:%s" % "+".join(dep_ops or ["none"])
                viol.add(key, "TraceMovements: '%s' fails on ledger state %d: steps %s; predicted %s; actual %s" % (
                    why, e["state"], json.dumps(e["steps"])[:400], json.dumps(e["pred"])[:500], json.dumps(e["act"])[:500]),
                    {"event": e, "failed": bad[i], "ops": ops})
    ctx.cov["traces_validated_against_impl"] += chunks
    ctx.cov["evaluations"] += len(evs)
    core.log("TraceMovements: %d runs, %.1fs" % (len(evs), time.time() - t0))
    ctx.sample({"run": next(e for e in evs if e["state"] == 1 and e["act"]["B"]["dep"]["F"]["a"] == 0 and e["pred"]["dep"]["B"])})
    ctx.sample({"run": next(e for e in evs if e["act"]["C"]["dep"]["N"]["ids"])})
    ctx.sample({"analysis_refused": nopred[0] if nopred else "none in this run"})
    return {"exhaustive": False, "distinct_nontrivial": len({json.dumps([e["steps"], e["state"]], sort_keys=True) for e in evs}),
            "successful_runs": len(evs), "manifests_without_prediction": len(nopred), "harness_stats": stats,
            "prediction_shapes": sorted(shapes), "violation_counts": dict(viol.seen),
            "rule": "S: TLC explores a model of a manifest execution over one fungible resource (withdraw, call into an unknown component "
                    "returning 0..2, take / take-all / return, worktop assertion, deposit, try-deposit-or-refund with either ledger "
                    "answer) next to a reference interval analysis and checks that worktop, bucket, Deposited and Withdrawn always lie "
                    "within the abstract bounds.  T: seeded V2 manifests (1-3 sources: account withdrawals of F / XRD / non-fungibles, "
                    "faucet free; up to 6 worktop steps: take, take-all, take non-fungibles, return, ASSERT_WORKTOP_CONTAINS, "
                    "ASSERT_WORKTOP_RESOURCES_INCLUDE / _ONLY, ASSERT_BUCKET_CONTENTS; at most one deposit call per account B / C of the "
                    "kinds deposit, deposit_batch, try_deposit_or_refund, try_deposit_or_abort, try_deposit_batch_or_refund, entire "
                    "worktop; the rest returns to A) analysed by StaticResourceMovementsVisitor and executed on two ledger states "
                    "(B accepts deposits / B's default deposit rule is Reject, fresh ledgers every 40 manifests); for every successful "
                    "run TraceMovements checks actual deposits (account events) against the predicted bounds with Sat, actual "
                    "withdrawals against the predicted ones, and events against vault balances.  distinct = distinct (manifest, state)"}


PROPS = {
    "C37": dict(fn=C37, level="model_checking", design_ref="5/C37",
                technique="TLA+ spec Constraint (Sat, ValidFor, Normalize, the run-time algorithm Validate): TLC exhaustive over a bounded "
                          "universe of constraints x balances + replay of every case into the real constraint code (unit) and of a "
                          "stratified sample as V2 manifests on a LedgerSimulator",
                text="Constraint.tla gives the mathematical meaning Sat(c, b) of the six constraint forms for fungible amounts and "
                     "non-fungible id sets, the documented validity rules ValidFor(c, kind), the normalisation and a transcription of "
                     "the run-time algorithm.  TLC checks on every constraint / balance of the universe: the algorithm decides Sat for "
                     "valid constraints, valid constraints are satisfiable, normalisation preserves the accepted set, keeps validity and "
                     "yields the documented canonical form, and validate_only / validate_includes over several resources.  Every case "
                     "is then replayed: is_valid_for must equal ValidFor, validate_* must equal Sat for valid constraints, validate_* "
                     "after the real normalize must equal Sat for every constraint the code declares valid; a sample runs as real "
                     "assertion instructions on a ledger (commit <=> Sat).",
                note="Amounts live on an order-preserving scale (1 atto, halves, wholes up to 3); Decimal extremes (MAX, overflow) are "
                     "not covered.  Constraints invalid for the resource kind are only checked for 'no panic' (static validation "
                     "rejects them).  Known disagreement recorded by this check: General constraints with an EMPTY allowlist and a "
                     "positive / unbounded upper bound are declared valid for fungible resources (the documentation allows the empty "
                     "allowlist only with upper bound zero); normalize() then shrinks the upper bound to 0 and changes the accepted "
                     "amounts."),
    "C36": dict(fn=C36, level="model_checking", design_ref="5/C36",
                technique="TLA+ spec ManifestLifecycle (declarative StaticOK over the whole instruction sequence = incremental automaton, "
                          "checked equal by TLC): all short instruction sequences of every manifest kind replayed into "
                          "StaticManifestInterpreter and executed on a ledger + random longer manifests validated by TraceLifecycle",
                text="ManifestLifecycle.tla states when a manifest is well-formed: every bucket / proof / address reservation / named "
                     "address / blob / child used was created or declared before and not consumed, nothing is consumed twice, no bucket "
                     "is consumed while a live proof locks it, no bucket or reservation is left at the end, an "
                     "ASSERT_NEXT_CALL_RETURNS is followed by an invocation, proofs do not cross intents, subintents end with "
                     "YIELD_TO_PARENT and transaction intents do not use parent instructions.  TLC proves this declarative definition "
                     "equal to an incremental automaton on all sequences up to the bound.  In the direction the property states, the real "
                     "interpreter may accept a manifest only if StaticOK holds (for each rule set: all, cuttlefish, and "
                     "babylon_equivalent with its weaker promises), and an accepted manifest executed on a ledger must not fail with an "
                     "unknown / consumed id error.  Rejections of well-formed manifests are counted as information only.",
                note="Instruction arguments are representative (TAKE_ALL of XRD, deposit_batch, Account::create_advanced for reservations); "
                     "calls whose arguments the callee refuses stop the execution after the ids were resolved, so later instructions of "
                     "those manifests are not exercised at run time.  A declared child that is never yielded to is a "
                     "TransactionValidator matter (the engine panics on such an unvalidated test transaction: "
                     "'kernel.substate_io.heap.is_empty()'), the harness yields to it / skips such subintents.  babylon_equivalent() is "
                     "applied to V1 kinds only (it is never used for V2 manifests)."),
    "C38": dict(fn=C38, level="model_checking", design_ref="5/C38",
                technique="TLA+ spec Movements (concrete execution next to an interval analysis, soundness checked by TLC) + call-trace "
                          "validation (TraceMovements, Sat of Constraint.tla) of the real StaticResourceMovementsVisitor's predictions "
                          "against real executions on two ledger states",
                text="Movements.tla states soundness of static movement bounds on a small model: whatever unknown components return and "
                     "whichever way a try-deposit goes, the amounts an account receives and gives stay within the statically computed "
                     "intervals; TLC checks it on all executions up to the bound.  The real analyser's resolve_account_deposits / "
                     "resolve_account_withdraws are logged for seeded manifests and compared with what the same manifest actually did "
                     "on two ledger states: every received resource must satisfy the predicted bounds (amount bounds, required ids, "
                     "allowed ids; unmentioned resources only if 'unspecified resources may be present'), withdrawals must equal the "
                     "predicted ones.  Manifests the analyser refuses are not violations.",
                note="Each account receives at most one deposit call per manifest so that per-call predictions can be compared with "
                     "per-account events.  resolve_account_changes (net view) is not checked.  Unknown sources are the faucet's free() "
                     "and refund paths; no WASM / native test blueprint is used.  Non-fungible actuals come from account events "
                     "(ids), amounts are cross-checked with vault balances.  Known disagreement recorded by this check: for "
                     "try_deposit_or_refund / try_deposit_batch_or_refund the analyser reports the attempted amount as an exact deposit, "
                     "although the account may refuse and refund it (observed: predicted exactly 1.5, received 0)."),
}
